/* Shared helpers for script-driven topology harnesses: configuration lines
 *   filter <type-number|all|io|cache|icache> <filter-number>
 *   flags <n>
 *   env <NAME> <VALUE...>        (setenv before load; "env NAME" unsets)
 *   src synthetic <description...> | src xml <path> | src xmlbuf <path> | src fsroot <dir> | src cpuid <dir> | src native
 * and parsing of sets written as <inf>:<hex> (the dump format). */
#ifndef HWV_LOAD_H
#define HWV_LOAD_H
#include <hwloc.h>
#include <stdio.h>
#include <stdlib.h>
#include <string.h>
#include <errno.h>

static const char *hwv_errno_class(int e)
{
  switch (e) {
  case 0: return "0";
  case EINVAL: return "EINVAL"; case ENOMEM: return "ENOMEM"; case ENOSYS: return "ENOSYS";
  case ENOENT: return "ENOENT"; case EEXIST: return "EEXIST"; case EBUSY: return "EBUSY";
  case EPERM: return "EPERM"; case EXDEV: return "EXDEV"; case E2BIG: return "E2BIG"; case EACCES: return "EACCES";
  case EFAULT: return "EFAULT"; case EINTR: return "EINTR"; case EDOM: return "EDOM"; case ERANGE: return "ERANGE";
  default: return "EOTHER";
  }
}

static char *hwv_xmlbuf; static size_t hwv_xmlbuflen;

/* returns 1 if the line was a configuration line (handled), 0 otherwise, -1 on error */
static int hwv_config_line(hwloc_topology_t t, char *line)
{
  char *p = line;
  size_t n = strlen(p);
  while (n && (p[n-1] == '\n' || p[n-1] == '\r')) p[--n] = 0;
  if (!strncmp(p, "filter ", 7)) {
    char what[32]; int f;
    if (sscanf(p + 7, "%31s %d", what, &f) != 2) return -1;
    if (!strcmp(what, "all")) return hwloc_topology_set_all_types_filter(t, (enum hwloc_type_filter_e)f) < 0 ? 2 : 1;
    if (!strcmp(what, "io")) return hwloc_topology_set_io_types_filter(t, (enum hwloc_type_filter_e)f) < 0 ? 2 : 1;
    if (!strcmp(what, "cache")) return hwloc_topology_set_cache_types_filter(t, (enum hwloc_type_filter_e)f) < 0 ? 2 : 1;
    if (!strcmp(what, "icache")) return hwloc_topology_set_icache_types_filter(t, (enum hwloc_type_filter_e)f) < 0 ? 2 : 1;
    return hwloc_topology_set_type_filter(t, (hwloc_obj_type_t)atoi(what), (enum hwloc_type_filter_e)f) < 0 ? 2 : 1;
  }
  if (!strncmp(p, "flags ", 6)) return hwloc_topology_set_flags(t, strtoul(p + 6, NULL, 0)) < 0 ? 2 : 1;
  if (!strncmp(p, "env ", 4)) {
    char *name = p + 4, *sp = strchr(name, ' ');
    if (sp) { *sp = 0; setenv(name, sp + 1, 1); } else unsetenv(name);
    return 1;
  }
  if (!strncmp(p, "src ", 4)) {
    char *k = p + 4;
    if (!strncmp(k, "synthetic ", 10)) return hwloc_topology_set_synthetic(t, k + 10) < 0 ? 2 : 1;
    if (!strcmp(k, "synthetic")) return hwloc_topology_set_synthetic(t, "") < 0 ? 2 : 1;
    if (!strncmp(k, "xml ", 4)) return hwloc_topology_set_xml(t, k + 4) < 0 ? 2 : 1;
    if (!strncmp(k, "xmlbuf ", 7)) {
      FILE *f = fopen(k + 7, "rb"); long len;
      if (!f) return -1;
      fseek(f, 0, SEEK_END); len = ftell(f); fseek(f, 0, SEEK_SET);
      free(hwv_xmlbuf);
      /* exactly-sized block (plus the terminating NUL the API requires) so that ASan sees any over-read */
      hwv_xmlbuf = malloc((size_t)len + 1); hwv_xmlbuflen = (size_t)len + 1;
      if (fread(hwv_xmlbuf, 1, (size_t)len, f) != (size_t)len) { fclose(f); return -1; }
      hwv_xmlbuf[len] = 0; fclose(f);
      return hwloc_topology_set_xmlbuffer(t, hwv_xmlbuf, (int)hwv_xmlbuflen) < 0 ? 2 : 1;
    }
    if (!strncmp(k, "fsroot ", 7)) { setenv("HWLOC_FSROOT", k + 7, 1); setenv("HWLOC_DUMPED_HWDATA_DIR", "/nonexistent", 0); return 1; }
    if (!strncmp(k, "cpuid ", 6)) { setenv("HWLOC_CPUID_PATH", k + 6, 1); return 1; }
    if (!strcmp(k, "native")) return 1;
    return -1;
  }
  return 0;
}

/* set syntax <inf>:<hex...> ; returns NULL on '-' or parse error */
static hwloc_bitmap_t hwv_parse_set(const char *s)
{
  hwloc_bitmap_t b; size_t n, i; int inf;
  if (!s || s[0] == '-' || (s[0] != '0' && s[0] != '1') || s[1] != ':') return NULL;
  inf = s[0] == '1'; s += 2; n = strlen(s);
  while (n && (s[n-1] == '\n' || s[n-1] == ' ')) n--;
  b = hwloc_bitmap_alloc();
  if (inf) hwloc_bitmap_fill(b);
  /* the hex string covers ceil(n/16) words; bits above follow the infinite flag */
  for (i = 0; i < n; i++) {
    char c = s[n - 1 - i]; unsigned v = (c >= '0' && c <= '9') ? (unsigned)(c - '0') : (c >= 'a' && c <= 'f') ? (unsigned)(c - 'a' + 10) : (c >= 'A' && c <= 'F') ? (unsigned)(c - 'A' + 10) : 0;
    unsigned k;
    for (k = 0; k < 4; k++) { if (v & (1u << k)) hwloc_bitmap_set(b, (unsigned)(4 * i + k)); else hwloc_bitmap_clr(b, (unsigned)(4 * i + k)); }
  }
  if (inf) { /* pad up to the word boundary with the raw bits given (already done), above: set */ }
  return b;
}
#endif
