/* C14 harness: memory attributes (hwloc/memattrs.c) driven by a case script on
 * stdin; prints one canonical "R ..." line per operation (same lines as
 * ocaml/drv_c14.ml prints from the extracted model), "T ..." topology tables
 * and "P ..." progress lines that are not compared.
 *
 * Script (see checks/c14.py / gen/memattrs_gen.py for the full grammar):
 *   case <name> / synth <desc> / pre_restrict <set> <flags> / misc <gp> <name> /
 *   mem <numaidx> <bytes> / subtype <numaidx> <word> / info <numaidx> <name> <value> / osindex <gp> <os> /
 *   env HWLOC_MEMTIERS...=<value> (before synth) / include_disallowed (before synth) /
 *   topoflag no_memattrs|no_distances|no_cpukinds ... (before synth) /
 *   xmlfile <path> (instead of synth; "@REPO@" = $HWV_REPO) / show / start / <ops> / end
 *   extra op: allow <cpuset|-> <nodeset|-> <flags>  (hwloc_topology_allow)
 *   extra op: xmlt [HWLOC_MEMTIERS...=<value>]...  (XML round trip with these variables set during the reload);
 *   "M tiers nr=.." / "M node <gp> tier=.." lines report MemoryTiersNr / MemoryTier after start and after xmlt
 * Harness-only extras: "show" (header: print the T table) and "sync" (print "S",
 * lets an interactive driver know that everything before was processed).
 * Sets are 0x<hex>, parsed and printed bit by bit here (never through
 * hwloc_bitmap_sscanf/snprintf).  stdout is flushed after every line. */
#include "private/autogen/config.h"
#include "hwloc.h"
#include "private/private.h"
#include <stdio.h>
#include <ctype.h>
#include <stdlib.h>
#include <string.h>
#include <errno.h>
#include <stdint.h>

#define MAXTOK 16
#define MAXNR 4096u

static hwloc_topology_t topo;
static int started;
static unsigned long extra_topoflags; /* header line topoflag no_memattrs|no_distances|no_cpukinds ... */
static int incl_disallowed;   /* header line include_disallowed: HWLOC_TOPOLOGY_FLAG_INCLUDE_DISALLOWED on every load of this case */
static char casename[256];

static struct hwloc_obj sentinel_obj;
#define SENT_OBJ (&sentinel_obj)
#define SENT_VAL 0xDEADBEEFCAFEF00DULL
#define SENT_LOCTYPE ((enum hwloc_location_type_e)0x5a5a5a)

#define OUT(...) do { printf(__VA_ARGS__); fflush(stdout); } while (0)

static const int special_depths[] = { HWLOC_TYPE_DEPTH_NUMANODE, HWLOC_TYPE_DEPTH_MEMCACHE, HWLOC_TYPE_DEPTH_BRIDGE,
                                      HWLOC_TYPE_DEPTH_PCI_DEVICE, HWLOC_TYPE_DEPTH_OS_DEVICE, HWLOC_TYPE_DEPTH_MISC };
#define NSPECIAL ((int)(sizeof(special_depths) / sizeof(special_depths[0])))

/* ---------- sets ---------- */

static void fmt_set(char *buf, size_t n, hwloc_const_bitmap_t b)
{
  int last, nd, d, k;
  size_t pos;
  if (!b) { snprintf(buf, n, "NULLSET"); return; }
  last = hwloc_bitmap_last(b);
  if (last < 0) { snprintf(buf, n, hwloc_bitmap_first(b) < 0 ? "0x0" : "INF"); return; }
  nd = last / 4 + 1;
  if ((size_t)nd + 3 > n) { snprintf(buf, n, "TOOBIG"); return; }
  buf[0] = '0'; buf[1] = 'x'; pos = 2;
  for (d = nd - 1; d >= 0; d--) {
    unsigned v = 0;
    for (k = 0; k < 4; k++) if (hwloc_bitmap_isset(b, (unsigned)(4 * d + k))) v |= 1u << k;
    buf[pos++] = "0123456789abcdef"[v];
  }
  buf[pos] = 0;
}

static hwloc_bitmap_t parse_set(const char *s)
{
  hwloc_bitmap_t b;
  size_t n, i;
  if (s[0] != '0' || s[1] != 'x' || !s[2]) return NULL;
  s += 2; n = strlen(s);
  if (n > 64) return NULL;
  b = hwloc_bitmap_alloc();
  if (!b) return NULL;
  for (i = 0; i < n; i++) {
    char c = s[n - 1 - i]; int v, k;
    if (c >= '0' && c <= '9') v = c - '0';
    else if (c >= 'a' && c <= 'f') v = c - 'a' + 10;
    else if (c >= 'A' && c <= 'F') v = c - 'A' + 10;
    else { hwloc_bitmap_free(b); return NULL; }
    for (k = 0; k < 4; k++) if (v & (1 << k)) hwloc_bitmap_set(b, (unsigned)(4 * i + k));
  }
  return b;
}

/* ---------- objects ---------- */

static hwloc_obj_t find_gp(uint64_t gp)
{
  int d, depth, s;
  unsigned i, n;
  if (!topo) return NULL;
  depth = hwloc_topology_get_depth(topo);
  for (d = 0; d < depth + NSPECIAL; d++) {
    int dd = d < depth ? d : special_depths[d - depth];
    n = hwloc_get_nbobjs_by_depth(topo, dd);
    for (i = 0; i < n; i++) {
      hwloc_obj_t o = hwloc_get_obj_by_depth(topo, dd, i);
      if (o && o->gp_index == gp) return o;
    }
  }
  (void)s;
  return NULL;
}

static void print_obj(hwloc_obj_t o)
{
  char sb[80], os[24], st[128];
  hwloc_obj_t e = o;
  unsigned long long mem = 0;
  size_t i;
  while (e && !e->cpuset) e = e->parent;
  fmt_set(sb, sizeof sb, e ? e->cpuset : NULL);
  if (o->os_index == (unsigned)-1) snprintf(os, sizeof os, "-1"); else snprintf(os, sizeof os, "%u", o->os_index);
  if (o->type == HWLOC_OBJ_NUMANODE && o->attr) mem = (unsigned long long)o->attr->numanode.local_memory;
  if (o->subtype && o->subtype[0]) {
    snprintf(st, sizeof st, "%s", o->subtype);
    for (i = 0; st[i]; i++) if (st[i] == ' ' || st[i] == '\n' || st[i] == '\t') st[i] = '_';
  } else snprintf(st, sizeof st, "-");
  OUT("T obj %d %llu %s %d %s %llu %s\n", (int)o->type, (unsigned long long)o->gp_index, os, o->cpuset ? 1 : 0, sb, mem, st);
}

static void print_table(void)
{
  char sb[80];
  int d, depth;
  unsigned i, n;
  OUT("T begin\n");
  if (topo) {
    fmt_set(sb, sizeof sb, hwloc_get_root_obj(topo)->cpuset);
    OUT("T root %s\n", sb);
    depth = hwloc_topology_get_depth(topo);
    for (d = 0; d < depth + NSPECIAL; d++) {
      int dd = d < depth ? d : special_depths[d - depth];
      n = hwloc_get_nbobjs_by_depth(topo, dd);
      for (i = 0; i < n; i++) {
        hwloc_obj_t o = hwloc_get_obj_by_depth(topo, dd, i);
        if (o) print_obj(o);
      }
    }
  }
  OUT("T end\n");
}

/* ---------- results ---------- */

static const char *errname(int e)
{
  static char buf[32];
  switch (e) {
  case EINVAL: return "EINVAL";
  case EBUSY: return "EBUSY";
  case ENOENT: return "ENOENT";
  case ENOMEM: return "ENOMEM";
  default: snprintf(buf, sizeof buf, "E%d", e); return buf;
  }
}

static void res_fail(const char *op, int e) { OUT("R %s rc=-1 err=%s\n", op, errname(e)); }
static void res_bad(const char *op) { OUT("R %s rc=-1 err=BADCASE\n", op); }

/* ---------- argument parsing ---------- */

static int parse_u64(const char *s, unsigned long long *v)
{
  char *end;
  if (!s || !*s || *s == '-' || *s == '+') return -1;
  errno = 0;
  *v = strtoull(s, &end, 10);
  if (*end || errno) return -1;
  return 0;
}
static int parse_ul(const char *s, unsigned long *v)
{
  unsigned long long x;
  if (parse_u64(s, &x) < 0) return -1;
  *v = (unsigned long)x;
  return 0;
}
static int parse_id(const char *s, hwloc_memattr_id_t *id)
{
  unsigned long long x;
  if (parse_u64(s, &x) < 0 || x > 0xffffffffULL) return -1;
  *id = (hwloc_memattr_id_t)x;
  return 0;
}
/* <tgt>: gp or '-' */
static int parse_tgt(const char *s, hwloc_obj_t *o)
{
  unsigned long long gp;
  if (!strcmp(s, "-")) { *o = NULL; return 0; }
  if (parse_u64(s, &gp) < 0) return -1;
  *o = find_gp(gp);
  return *o ? 0 : -1;
}

struct locarg { struct hwloc_location loc; struct hwloc_location *p; hwloc_bitmap_t tofree; };

static int parse_loc(const char *s, struct locarg *a)
{
  memset(a, 0, sizeof *a);
  a->p = &a->loc;
  if (!strcmp(s, "-")) { a->p = NULL; return 0; }
  if (!strcmp(s, "n")) { a->loc.type = HWLOC_LOCATION_TYPE_CPUSET; a->loc.location.cpuset = NULL; return 0; }
  if (!strcmp(s, "b")) { a->loc.type = (enum hwloc_location_type_e)7; a->loc.location.cpuset = NULL; return 0; }
  if (!strcmp(s, "on")) { a->loc.type = HWLOC_LOCATION_TYPE_OBJECT; a->loc.location.object = NULL; return 0; }
  if (s[0] == 'c' && s[1] == ':') {
    a->tofree = parse_set(s + 2);
    if (!a->tofree) return -1;
    a->loc.type = HWLOC_LOCATION_TYPE_CPUSET; a->loc.location.cpuset = a->tofree;
    return 0;
  }
  if (s[0] == 'o' && s[1] == ':') {
    unsigned long long gp; hwloc_obj_t o;
    if (parse_u64(s + 2, &gp) < 0 || !(o = find_gp(gp))) return -1;
    a->loc.type = HWLOC_LOCATION_TYPE_OBJECT; a->loc.location.object = o;
    return 0;
  }
  return -1;
}
static void free_loc(struct locarg *a) { if (a->tofree) hwloc_bitmap_free(a->tofree); a->tofree = NULL; }

static void fmt_loc(char *buf, size_t n, const struct hwloc_location *l)
{
  if (l->type == HWLOC_LOCATION_TYPE_CPUSET) {
    char sb[80];
    if ((void *)l->location.cpuset == (void *)SENT_OBJ) { snprintf(buf, n, "c:UNSET"); return; }
    fmt_set(sb, sizeof sb, l->location.cpuset);
    snprintf(buf, n, "c:%s", sb);
  } else if (l->type == HWLOC_LOCATION_TYPE_OBJECT) {
    hwloc_obj_t o = l->location.object;
    if (!o) snprintf(buf, n, "o:NULL");
    else if (o == SENT_OBJ) snprintf(buf, n, "o:UNSET");
    else snprintf(buf, n, "o:%d:%llu", (int)o->type, (unsigned long long)o->gp_index); /* a garbage pointer crashes here: wanted */
  } else if (l->type == SENT_LOCTYPE) snprintf(buf, n, "UNSET");
  else snprintf(buf, n, "badtype:%d", (int)l->type);
}

/* attribute names in scripts: bytes other than [A-Za-z0-9_.+-] are written %XX, "@empty" is the empty name */
static char *decode_name(const char *tok)
{
  size_t n = strlen(tok), i, j = 0; char *out = malloc(n + 1);
  if (!out) return NULL;
  if (!strcmp(tok, "@empty")) { out[0] = 0; return out; }
  for (i = 0; i < n; i++) {
    if (tok[i] == '%' && i + 2 < n && isxdigit((unsigned char)tok[i + 1]) && isxdigit((unsigned char)tok[i + 2])) {
      char h[3] = { tok[i + 1], tok[i + 2], 0 };
      out[j++] = (char)strtoul(h, NULL, 16);
      i += 2;
    } else out[j++] = tok[i];
  }
  out[j] = 0;
  return out;
}
static void print_name(const char *nm)
{
  const unsigned char *p = (const unsigned char *)nm;
  if (!*p) { OUT("@empty"); return; }
  for (; *p; p++) {
    if (isalnum(*p) || *p == '_' || *p == '.' || *p == '+' || *p == '-') OUT("%c", *p);
    else OUT("%%%02X", *p);
  }
}

/* ---------- operations ---------- */

static void op_targets(char **t, int nt)
{
  hwloc_memattr_id_t id; struct locarg la; unsigned long flags, max, tnull, wantv;
  hwloc_obj_t *tarr = NULL; hwloc_uint64_t *varr = NULL; unsigned nr, i, lim; int rc, e, over = 0;
  if (nt != 7 || parse_id(t[1], &id) < 0 || parse_ul(t[3], &flags) < 0 || parse_ul(t[4], &max) < 0 || max > MAXNR
      || parse_ul(t[5], &tnull) < 0 || parse_ul(t[6], &wantv) < 0 || parse_loc(t[2], &la) < 0) { res_bad("targets"); return; }
  if (!tnull) { tarr = malloc((max + 2) * sizeof *tarr); for (i = 0; i < max + 2; i++) tarr[i] = SENT_OBJ; }
  if (wantv) { varr = malloc((max + 2) * sizeof *varr); for (i = 0; i < max + 2; i++) varr[i] = SENT_VAL; }
  nr = (unsigned)max; errno = 0;
  rc = hwloc_memattr_get_targets(topo, id, la.p, flags, &nr, tarr, varr);
  e = errno;
  lim = rc == 0 ? (nr < max ? nr : (unsigned)max) : 0;
  for (i = lim; i < max + 2; i++) { if (tarr && tarr[i] != SENT_OBJ) over = 1; if (varr && varr[i] != SENT_VAL) over = 1; }
  if (rc < 0) { printf("R targets rc=-1 err=%s", errname(e)); }
  else {
    printf("R targets rc=0 err=OK nr=%u [", nr);
    for (i = 0; i < lim; i++) {
      if (i) printf(" ");
      if (!tarr) printf("NULLARR");
      else if (tarr[i] == SENT_OBJ) printf("UNSET");
      else if (!tarr[i]) printf("NULL");
      else printf("%llu", (unsigned long long)tarr[i]->gp_index);
      if (varr) printf(":%llu", (unsigned long long)varr[i]); else printf(":-");
    }
    printf("]");
  }
  OUT("%s\n", over ? " OVERWRITE" : "");
  free(tarr); free(varr); free_loc(&la);
}

static void op_inits(char **t, int nt)
{
  hwloc_memattr_id_t id; hwloc_obj_t tgt; unsigned long flags, max, inull, wantv;
  struct hwloc_location *iarr = NULL; hwloc_uint64_t *varr = NULL; unsigned nr, i, lim; int rc, e, over = 0;
  if (nt != 7 || parse_id(t[1], &id) < 0 || parse_tgt(t[2], &tgt) < 0 || parse_ul(t[3], &flags) < 0 || parse_ul(t[4], &max) < 0
      || max > MAXNR || parse_ul(t[5], &inull) < 0 || parse_ul(t[6], &wantv) < 0) { res_bad("inits"); return; }
  if (!inull) {
    iarr = malloc((max + 2) * sizeof *iarr);
    for (i = 0; i < max + 2; i++) { iarr[i].type = SENT_LOCTYPE; iarr[i].location.object = SENT_OBJ; }
  }
  if (wantv) { varr = malloc((max + 2) * sizeof *varr); for (i = 0; i < max + 2; i++) varr[i] = SENT_VAL; }
  nr = (unsigned)max; errno = 0;
  rc = hwloc_memattr_get_initiators(topo, id, tgt, flags, &nr, iarr, varr);
  e = errno;
  lim = rc == 0 ? (nr < max ? nr : (unsigned)max) : 0;
  for (i = lim; i < max + 2; i++) {
    if (iarr && (iarr[i].type != SENT_LOCTYPE || iarr[i].location.object != SENT_OBJ)) over = 1;
    if (varr && varr[i] != SENT_VAL) over = 1;
  }
  if (rc < 0) { printf("R inits rc=-1 err=%s", errname(e)); }
  else {
    printf("R inits rc=0 err=OK nr=%u [", nr);
    fflush(stdout);
    for (i = 0; i < lim; i++) {
      char lb[128];
      if (iarr) fmt_loc(lb, sizeof lb, &iarr[i]); else snprintf(lb, sizeof lb, "NULLARR");
      printf("%s%s", i ? " " : "", lb);
      if (varr) printf("=%llu", (unsigned long long)varr[i]); else printf("=-");
    }
    printf("]");
  }
  OUT("%s\n", over ? " OVERWRITE" : "");
  free(iarr); free(varr);
}

static void op_local(char **t, int nt)
{
  struct locarg la; unsigned long flags, max, nnull; hwloc_obj_t *narr = NULL; unsigned nr, i, lim; int rc, e, over = 0;
  if (nt != 5 || parse_ul(t[2], &flags) < 0 || parse_ul(t[3], &max) < 0 || max > MAXNR || parse_ul(t[4], &nnull) < 0
      || parse_loc(t[1], &la) < 0) { res_bad("local"); return; }
  if (!nnull) { narr = malloc((max + 2) * sizeof *narr); for (i = 0; i < max + 2; i++) narr[i] = SENT_OBJ; }
  nr = (unsigned)max; errno = 0;
  rc = hwloc_get_local_numanode_objs(topo, la.p, &nr, narr, flags);
  e = errno;
  lim = rc == 0 ? (nr < max ? nr : (unsigned)max) : 0;
  for (i = lim; i < max + 2; i++) if (narr && narr[i] != SENT_OBJ) over = 1;
  if (rc < 0) { printf("R local rc=-1 err=%s", errname(e)); }
  else {
    printf("R local rc=0 err=OK nr=%u [", nr);
    for (i = 0; i < lim; i++) {
      if (i) printf(" ");
      if (!narr) printf("NULLARR");
      else if (narr[i] == SENT_OBJ) printf("UNSET");
      else if (!narr[i]) printf("NULL");
      else printf("%llu", (unsigned long long)narr[i]->gp_index);
    }
    printf("]");
  }
  OUT("%s\n", over ? " OVERWRITE" : "");
  free(narr); free_loc(&la);
}

static void op_iset(char **t, int nt)
{
  hwloc_memattr_id_t id; unsigned long long type, gp = 0, os = 0, value; uint64_t gpv; unsigned osv;
  struct hwloc_internal_location_s il, *ilp = &il; hwloc_bitmap_t tofree = NULL; int rc, e;
  if (nt != 7 || parse_id(t[1], &id) < 0 || parse_u64(t[2], &type) < 0 || parse_u64(t[6], &value) < 0) { res_bad("iset"); return; }
  if (!strcmp(t[3], "-1")) gpv = (uint64_t)-1; else { if (parse_u64(t[3], &gp) < 0) { res_bad("iset"); return; } gpv = gp; }
  if (!strcmp(t[4], "-1")) osv = (unsigned)-1; else { if (parse_u64(t[4], &os) < 0) { res_bad("iset"); return; } osv = (unsigned)os; }
  memset(&il, 0, sizeof il);
  if (!strcmp(t[5], "-")) ilp = NULL;
  else if (t[5][0] == 'c' && t[5][1] == ':') {
    tofree = parse_set(t[5] + 2);
    if (!tofree) { res_bad("iset"); return; }
    il.type = HWLOC_LOCATION_TYPE_CPUSET; il.location.cpuset = tofree;
  } else if (!strncmp(t[5], "oi:", 3)) {
    unsigned long long ity, igp; char *c = strchr(t[5] + 3, ':');
    if (!c) { res_bad("iset"); return; }
    *c = 0;
    if (parse_u64(t[5] + 3, &ity) < 0 || parse_u64(c + 1, &igp) < 0) { res_bad("iset"); return; }
    il.type = HWLOC_LOCATION_TYPE_OBJECT; il.location.object.obj = NULL;
    il.location.object.type = (hwloc_obj_type_t)ity; il.location.object.gp_index = igp;
  } else { res_bad("iset"); return; }
  if (id == HWLOC_MEMATTR_ID_CAPACITY || id == HWLOC_MEMATTR_ID_LOCALITY) {
    /* the function asserts on these */
    res_fail("iset", EINVAL);
  } else {
    errno = 0;
    rc = hwloc_internal_memattr_set_value(topo, id, (hwloc_obj_type_t)type, gpv, osv, ilp, value);
    e = errno;
    if (rc < 0) res_fail("iset", e); else OUT("R iset rc=0 err=OK\n");
  }
  if (tofree) hwloc_bitmap_free(tofree);
}

/* memory tiers as left by hwloc_internal_memattrs_guess_memory_tiers(): the MemoryTiersNr info of the
 * topology and the MemoryTier info of every NUMA node (subtypes are in the T table) */
static void print_tiers(void)
{
  const char *nr; hwloc_obj_t n = NULL;
  if (!topo) return;
  nr = hwloc_get_info_by_name(hwloc_topology_get_infos(topo), "MemoryTiersNr");
  OUT("M tiers nr=%s\n", nr ? nr : "-");
  while ((n = hwloc_get_next_obj_by_type(topo, HWLOC_OBJ_NUMANODE, n)) != NULL) {
    const char *t = hwloc_obj_get_info_by_name(n, "MemoryTier");
    OUT("M node %llu tier=%s\n", (unsigned long long)n->gp_index, t ? t : "-");
  }
}

#define MAXENV 16
static char envnames[MAXENV][64]; static int nenv;
static int push_env(const char *assign)
{
  const char *eq = strchr(assign, '='); size_t l;
  if (!eq || nenv >= MAXENV) return -1;
  l = (size_t)(eq - assign);
  if (!l || l >= sizeof envnames[0] || strncmp(assign, "HWLOC_MEMTIERS", 14)) return -1;   /* only the memory-tier knobs */
  memcpy(envnames[nenv], assign, l); envnames[nenv][l] = 0;
  if (setenv(envnames[nenv], eq + 1, 1) < 0) return -1;
  nenv++;
  return 0;
}
static void pop_env(int keep) { while (nenv > keep) unsetenv(envnames[--nenv]); }

static void op_xml_named(const char *name);
static void op_xml(void) { op_xml_named("xml"); }
static void op_xml_named(const char *name)
{
  char *buf = NULL; int len = 0, rc, e; hwloc_topology_t nt = NULL;
  errno = 0;
  rc = hwloc_topology_export_xmlbuffer(topo, &buf, &len, 0);
  e = errno;
  if (rc < 0) { res_fail(name, e); print_table(); return; }
  errno = 0;
  rc = hwloc_topology_init(&nt);
  if (rc == 0) {
    rc = hwloc_topology_set_type_filter(nt, HWLOC_OBJ_MISC, HWLOC_TYPE_FILTER_KEEP_ALL);
    if (rc == 0) rc = hwloc_topology_set_flags(nt, hwloc_topology_get_flags(topo) & ~(!strcmp(name, "xmlnf") ? HWLOC_TOPOLOGY_FLAG_NO_MEMATTRS : 0UL));
    if (rc == 0) rc = hwloc_topology_set_xmlbuffer(nt, buf, len);
    if (rc == 0) rc = hwloc_topology_load(nt);
    e = errno;
    if (rc < 0) hwloc_topology_destroy(nt);
  } else e = errno;
  if (rc < 0) { hwloc_free_xmlbuffer(topo, buf); res_fail(name, e); print_table(); return; }
  hwloc_free_xmlbuffer(topo, buf);
  hwloc_topology_destroy(topo);
  topo = nt;
  OUT("R %s rc=0 err=OK\n", name);
  if (!strcmp(name, "xmlt")) print_tiers();
  print_table();
}

/* xmlt NAME=VALUE ...: XML round trip with memory-tier environment variables set during the reload */
static void op_xmlt(char **t, int nt)
{
  int keep = nenv, i;
  for (i = 1; i < nt; i++)
    if (push_env(t[i]) < 0) { pop_env(keep); res_bad("xmlt"); print_table(); return; }
  op_xml_named("xmlt");
  pop_env(keep);
}

static void do_op(char *line)
{
  char *t[MAXTOK]; int nt = 0; char *p = line, *op;
  char copy[64];
  /* split on single spaces */
  while (nt < MAXTOK) {
    char *sp;
    t[nt++] = p;
    sp = strchr(p, ' ');
    if (!sp) break;
    *sp = 0; p = sp + 1;
  }
  snprintf(copy, sizeof copy, "%s", t[0]);
  for (p = copy; *p; p++) if (*p == ' ') *p = '_';
  op = copy;
  if (!topo) { res_bad(op); if (!strcmp(op, "restrict") || !strcmp(op, "dup") || !strcmp(op, "xml") || !strcmp(op, "xmlt") || !strcmp(op, "xmlnf")) print_table(); return; }

  if (!strcmp(op, "reg")) {
    unsigned long flags; hwloc_memattr_id_t id = (hwloc_memattr_id_t)-1; int rc, e;
    if (nt != 3 || parse_ul(t[2], &flags) < 0) { res_bad(op); return; }
    { char *nm = strcmp(t[1], "@null") ? decode_name(t[1]) : NULL;
      errno = 0; rc = hwloc_memattr_register(topo, nm, flags, &id); e = errno;
      free(nm); }
    if (rc < 0) res_fail(op, e); else OUT("R reg rc=0 err=OK id=%u\n", id);
  } else if (!strcmp(op, "getbyname")) {
    hwloc_memattr_id_t id = (hwloc_memattr_id_t)-1; int rc, e;
    if (nt != 2) { res_bad(op); return; }
    { char *nm = decode_name(t[1]);
      errno = 0; rc = hwloc_memattr_get_by_name(topo, nm ? nm : "", &id); e = errno;
      free(nm); }
    if (rc < 0) res_fail(op, e); else OUT("R getbyname rc=0 err=OK id=%u\n", id);
  } else if (!strcmp(op, "getflags")) {
    hwloc_memattr_id_t id; unsigned long fl = 0xdead; int rc, e;
    if (nt != 2 || parse_id(t[1], &id) < 0) { res_bad(op); return; }
    errno = 0; rc = hwloc_memattr_get_flags(topo, id, &fl); e = errno;
    if (rc < 0) res_fail(op, e); else OUT("R getflags rc=0 err=OK flags=%lu\n", fl);
  } else if (!strcmp(op, "getname")) {
    hwloc_memattr_id_t id; const char *nm = NULL; int rc, e;
    if (nt != 2 || parse_id(t[1], &id) < 0) { res_bad(op); return; }
    errno = 0; rc = hwloc_memattr_get_name(topo, id, &nm); e = errno;
    if (rc < 0) res_fail(op, e); else { OUT("R getname rc=0 err=OK name="); print_name(nm ? nm : "(null)"); OUT("\n"); }
  } else if (!strcmp(op, "set")) {
    hwloc_memattr_id_t id; hwloc_obj_t tgt; struct locarg la; unsigned long flags; unsigned long long v; int rc, e;
    if (nt != 6 || parse_id(t[1], &id) < 0 || parse_tgt(t[2], &tgt) < 0 || parse_ul(t[4], &flags) < 0 || parse_u64(t[5], &v) < 0
        || parse_loc(t[3], &la) < 0) { res_bad(op); return; }
    errno = 0; rc = hwloc_memattr_set_value(topo, id, tgt, la.p, flags, (hwloc_uint64_t)v); e = errno;
    free_loc(&la);
    if (rc < 0) res_fail(op, e); else OUT("R set rc=0 err=OK\n");
  } else if (!strcmp(op, "iset")) {
    op_iset(t, nt);
  } else if (!strcmp(op, "get")) {
    hwloc_memattr_id_t id; hwloc_obj_t tgt; struct locarg la; unsigned long flags; hwloc_uint64_t v = SENT_VAL; int rc, e;
    if (nt != 5 || parse_id(t[1], &id) < 0 || parse_tgt(t[2], &tgt) < 0 || parse_ul(t[4], &flags) < 0
        || parse_loc(t[3], &la) < 0) { res_bad(op); return; }
    errno = 0; rc = hwloc_memattr_get_value(topo, id, tgt, la.p, flags, &v); e = errno;
    free_loc(&la);
    if (rc < 0) res_fail(op, e); else OUT("R get rc=0 err=OK v=%llu\n", (unsigned long long)v);
  } else if (!strcmp(op, "targets")) {
    op_targets(t, nt);
  } else if (!strcmp(op, "inits")) {
    op_inits(t, nt);
  } else if (!strcmp(op, "bestt")) {
    hwloc_memattr_id_t id; struct locarg la; unsigned long flags; hwloc_obj_t best = SENT_OBJ; hwloc_uint64_t v = SENT_VAL; int rc, e;
    if (nt != 4 || parse_id(t[1], &id) < 0 || parse_ul(t[3], &flags) < 0 || parse_loc(t[2], &la) < 0) { res_bad(op); return; }
    errno = 0; rc = hwloc_memattr_get_best_target(topo, id, la.p, flags, &best, &v); e = errno;
    free_loc(&la);
    if (rc < 0) res_fail(op, e);
    else if (best == SENT_OBJ || !best) OUT("R bestt rc=0 err=OK gp=UNSET v=%llu\n", (unsigned long long)v);
    else OUT("R bestt rc=0 err=OK gp=%llu v=%llu\n", (unsigned long long)best->gp_index, (unsigned long long)v);
  } else if (!strcmp(op, "besti")) {
    hwloc_memattr_id_t id; hwloc_obj_t tgt; unsigned long flags; struct hwloc_location best; hwloc_uint64_t v = SENT_VAL; int rc, e;
    char lb[128];
    if (nt != 4 || parse_id(t[1], &id) < 0 || parse_tgt(t[2], &tgt) < 0 || parse_ul(t[3], &flags) < 0) { res_bad(op); return; }
    best.type = SENT_LOCTYPE; best.location.object = SENT_OBJ;
    errno = 0; rc = hwloc_memattr_get_best_initiator(topo, id, tgt, flags, &best, &v); e = errno;
    if (rc < 0) res_fail(op, e);
    else { printf("R besti rc=0 err=OK "); fflush(stdout); fmt_loc(lb, sizeof lb, &best); OUT("i=%s v=%llu\n", lb, (unsigned long long)v); }
  } else if (!strcmp(op, "local")) {
    op_local(t, nt);
  } else if (!strcmp(op, "defnodes")) {
    unsigned long flags; hwloc_bitmap_t ns; int rc, e; char sb[80];
    if (nt != 2 || parse_ul(t[1], &flags) < 0) { res_bad(op); return; }
    ns = hwloc_bitmap_alloc();
    errno = 0; rc = hwloc_topology_get_default_nodeset(topo, ns, flags); e = errno;
    if (rc < 0) res_fail(op, e); else { fmt_set(sb, sizeof sb, ns); OUT("R defnodes rc=0 err=OK set=%s\n", sb); }
    hwloc_bitmap_free(ns);
  } else if (!strcmp(op, "restrict")) {
    unsigned long flags; hwloc_bitmap_t set; int rc, e;
    if (nt != 3 || parse_ul(t[2], &flags) < 0 || !(set = parse_set(t[1]))) { res_bad(op); print_table(); return; }
    errno = 0; rc = hwloc_topology_restrict(topo, set, flags); e = errno;
    hwloc_bitmap_free(set);
    if (rc < 0) res_fail(op, e); else OUT("R restrict rc=0 err=OK\n");
    print_table();
  } else if (!strcmp(op, "dup")) {
    hwloc_topology_t nt2 = NULL; int rc, e;
    errno = 0; rc = hwloc_topology_dup(&nt2, topo); e = errno;
    if (rc < 0) res_fail(op, e);
    else { hwloc_topology_destroy(topo); topo = nt2; OUT("R dup rc=0 err=OK\n"); }
    print_table();
  } else if (!strcmp(op, "xml")) {
    op_xml();
  } else if (!strcmp(op, "xmlnf")) {
    /* XML round trip where the reload drops HWLOC_TOPOLOGY_FLAG_NO_MEMATTRS: the attributes registered by the
     * application on a NO_MEMATTRS topology must arrive in an ordinary topology */
    op_xml_named("xmlnf");
    extra_topoflags &= ~HWLOC_TOPOLOGY_FLAG_NO_MEMATTRS;
  } else if (!strcmp(op, "xmlt")) {
    op_xmlt(t, nt);
  } else if (!strcmp(op, "allow")) {
    /* allow <cpuset|-> <nodeset|-> <flags>: hwloc_topology_allow() */
    hwloc_bitmap_t c = NULL, n = NULL; unsigned long flags; int rc, e;
    if (nt != 4 || parse_ul(t[3], &flags) < 0 || (strcmp(t[1], "-") && !(c = parse_set(t[1]))) || (strcmp(t[2], "-") && !(n = parse_set(t[2])))) {
      if (c) hwloc_bitmap_free(c);
      res_bad(op); return;
    }
    errno = 0; rc = hwloc_topology_allow(topo, c, n, flags); e = errno;
    if (rc < 0) res_fail(op, e); else OUT("R allow rc=0 err=OK\n");
    if (c) hwloc_bitmap_free(c);
    if (n) hwloc_bitmap_free(n);
  } else {
    res_bad(op);
  }
}

static void header_line(char *line)
{
  if (!strncmp(line, "synth ", 6)) {
    int rc;
    if (topo) { hwloc_topology_destroy(topo); topo = NULL; }
    rc = hwloc_topology_init(&topo);
    if (rc == 0) {
      rc = hwloc_topology_set_type_filter(topo, HWLOC_OBJ_MISC, HWLOC_TYPE_FILTER_KEEP_ALL);
      if (rc == 0 && (incl_disallowed || extra_topoflags)) rc = hwloc_topology_set_flags(topo, (incl_disallowed ? HWLOC_TOPOLOGY_FLAG_INCLUDE_DISALLOWED : 0) | extra_topoflags);
      if (rc == 0) rc = hwloc_topology_set_synthetic(topo, line + 6);
      if (rc == 0) rc = hwloc_topology_load(topo);
      if (rc < 0) { hwloc_topology_destroy(topo); topo = NULL; }
    } else topo = NULL;
    OUT("P synth rc=%d\n", rc < 0 ? -1 : 0);
  } else if (!strncmp(line, "topoflag ", 9)) {
    int ok = 1; char *w = line + 9;
    while (w && *w) {
      char *sp = strchr(w, ' ');
      if (sp) *sp = 0;
      if (!strcmp(w, "no_memattrs")) extra_topoflags |= HWLOC_TOPOLOGY_FLAG_NO_MEMATTRS;
      else if (!strcmp(w, "no_distances")) extra_topoflags |= HWLOC_TOPOLOGY_FLAG_NO_DISTANCES;
      else if (!strcmp(w, "no_cpukinds")) extra_topoflags |= HWLOC_TOPOLOGY_FLAG_NO_CPUKINDS;
      else ok = 0;
      w = sp ? sp + 1 : NULL;
    }
    OUT("P topoflag rc=%d\n", ok ? 0 : -1);
  } else if (!strcmp(line, "include_disallowed")) {
    incl_disallowed = 1;
    OUT("P include_disallowed rc=0\n");
  } else if (!strncmp(line, "xmlfile ", 8)) {
    /* an XML file of the source tree instead of a synthetic description; "@REPO@" = $HWV_REPO */
    char path[1024]; const char *arg = line + 8, *repo = getenv("HWV_REPO"); int rc;
    if (!strncmp(arg, "@REPO@", 6) && repo) snprintf(path, sizeof path, "%s%s", repo, arg + 6);
    else snprintf(path, sizeof path, "%s", arg);
    if (topo) { hwloc_topology_destroy(topo); topo = NULL; }
    rc = hwloc_topology_init(&topo);
    if (rc == 0) {
      rc = hwloc_topology_set_type_filter(topo, HWLOC_OBJ_MISC, HWLOC_TYPE_FILTER_KEEP_ALL);
      if (rc == 0 && (incl_disallowed || extra_topoflags)) rc = hwloc_topology_set_flags(topo, (incl_disallowed ? HWLOC_TOPOLOGY_FLAG_INCLUDE_DISALLOWED : 0) | extra_topoflags);
      if (rc == 0) rc = hwloc_topology_set_xml(topo, path);
      if (rc == 0) rc = hwloc_topology_load(topo);
      if (rc < 0) { hwloc_topology_destroy(topo); topo = NULL; }
    } else topo = NULL;
    OUT("P synth rc=%d\n", rc < 0 ? -1 : 0);
  } else if (!strncmp(line, "pre_restrict ", 13)) {
    char sb[80]; unsigned long flags; hwloc_bitmap_t set; int rc = -1;
    if (topo && sscanf(line + 13, "%79s %lu", sb, &flags) == 2 && (set = parse_set(sb))) {
      rc = hwloc_topology_restrict(topo, set, flags);
      hwloc_bitmap_free(set);
    }
    OUT("P pre_restrict rc=%d\n", rc < 0 ? -1 : 0);
  } else if (!strncmp(line, "misc ", 5)) {
    unsigned long long gp; char name[128]; hwloc_obj_t par, o = NULL;
    if (topo && sscanf(line + 5, "%llu %127s", &gp, name) == 2 && (par = find_gp(gp)))
      o = hwloc_topology_insert_misc_object(topo, par, name);
    if (o) OUT("P misc rc=0 gp=%llu\n", (unsigned long long)o->gp_index); else OUT("P misc rc=-1 gp=-\n");
  } else if (!strncmp(line, "mem ", 4)) {
    unsigned idx; unsigned long long bytes; hwloc_obj_t o = NULL;
    if (topo && sscanf(line + 4, "%u %llu", &idx, &bytes) == 2 && (o = hwloc_get_obj_by_type(topo, HWLOC_OBJ_NUMANODE, idx)))
      o->attr->numanode.local_memory = bytes;
    OUT("P mem rc=%d\n", o ? 0 : -1);
  } else if (!strncmp(line, "subtype ", 8)) {
    unsigned idx; char word[128]; hwloc_obj_t o = NULL;
    if (topo && sscanf(line + 8, "%u %127s", &idx, word) == 2 && (o = hwloc_get_obj_by_type(topo, HWLOC_OBJ_NUMANODE, idx))) {
      free(o->subtype); o->subtype = strdup(word);
    }
    OUT("P subtype rc=%d\n", o ? 0 : -1);
  } else if (!strncmp(line, "osindex ", 8)) {
    /* renumber one object: lets a synthetic machine have the per-package core numbering of real Linux
     * machines (two cores with the same os_index), which the synthetic syntax does not accept */
    unsigned long long gp; unsigned os; hwloc_obj_t o = NULL;
    if (topo && sscanf(line + 8, "%llu %u", &gp, &os) == 2 && (o = find_gp(gp)) && o->type != HWLOC_OBJ_NUMANODE && o->type != HWLOC_OBJ_PU)
      o->os_index = os;
    else o = NULL;
    OUT("P osindex rc=%d\n", o ? 0 : -1);
  } else if (!strncmp(line, "info ", 5)) {
    unsigned idx; char name[64], value[128]; hwloc_obj_t o = NULL; int rc = -1;
    if (topo && sscanf(line + 5, "%u %63s %127s", &idx, name, value) == 3 && (o = hwloc_get_obj_by_type(topo, HWLOC_OBJ_NUMANODE, idx)))
      rc = hwloc_obj_add_info(o, name, value);
    OUT("P info rc=%d\n", rc < 0 ? -1 : 0);
  } else if (!strncmp(line, "env ", 4)) {
    /* before synth: memory-tier knobs seen by hwloc_topology_load() of the synthetic topology */
    OUT("P env rc=%d\n", push_env(line + 4) < 0 ? -1 : 0);
  } else if (!strcmp(line, "show")) {
    print_table();
  } else if (!strcmp(line, "start")) {
    started = 1;
    pop_env(0);
    print_tiers();
    print_table();
  } else {
    OUT("P badheader\n");
  }
}

int main(void)
{
  static char line[8192];
  int incase = 0;
  OUT("P types machine=%d package=%d die=%d core=%d pu=%d group=%d numa=%d misc=%d idmax=%d\n", (int)HWLOC_OBJ_MACHINE,
      (int)HWLOC_OBJ_PACKAGE, (int)HWLOC_OBJ_DIE, (int)HWLOC_OBJ_CORE, (int)HWLOC_OBJ_PU, (int)HWLOC_OBJ_GROUP,
      (int)HWLOC_OBJ_NUMANODE, (int)HWLOC_OBJ_MISC, (int)HWLOC_MEMATTR_ID_MAX);
  while (fgets(line, sizeof line, stdin)) {
    size_t n = strlen(line);
    while (n && (line[n - 1] == '\n' || line[n - 1] == '\r')) line[--n] = 0;
    if (!n || line[0] == '#') continue;
    if (!strcmp(line, "sync")) { OUT("S\n"); continue; }
    if (!strncmp(line, "case ", 5)) {
      if (topo) { hwloc_topology_destroy(topo); topo = NULL; }
      pop_env(0);
      incl_disallowed = 0; extra_topoflags = 0;
      snprintf(casename, sizeof casename, "%s", line + 5);
      incase = 1; started = 0;
      OUT("P case %s\n", casename);
      continue;
    }
    if (!incase) continue;
    if (!strcmp(line, "end")) {
      if (topo) { hwloc_topology_destroy(topo); topo = NULL; }
      incase = 0; started = 0;
      OUT("E %s\n", casename);
      continue;
    }
    if (!started) header_line(line); else do_op(line);
  }
  if (topo) hwloc_topology_destroy(topo);
  return 0;
}
