/* C02 harness: histories of modifying calls on the REAL library.
 *
 * Script on stdin, several cases per process:
 *   echo <text>
 *   new / <config lines of hwv_load.h> / load / <calls> / destroy
 * After `load` and after EVERY call the harness prints
 *   CALL <canonical, fully resolved call>         (object references become dump-local ids of the BEFORE dump,
 *                                                  set expressions become <inf>:<hex> literals)
 *   RES <rc / errno class / call-specific result>
 *   the canonical dump (hwv_dump.h), or the single line "SAME" when it is byte-identical to the previous dump
 *   check ok | check abort <failed assertion>     (hwloc_topology_check() in a forked child)
 *
 * Object references  #t<type>.<k> = k-th object of that type (mod their number);  #k  = k-th object (mod the number of objects) of the DFS pre-order of the current tree
 * (normal, memory, io, misc children: the order of the dump ids).
 * Set expressions: terms combined left to right with + (or), & (and), \ (andnot); a leading ~ complements the result.
 *   term = <inf>:<hex> | cs#k | ccs#k | ns#k | cns#k | b<i> | acpu | anode | empty | full      ("-" alone = NULL pointer)
 *
 * Calls:
 *   ud #k                                   set obj->userdata (user action, not an hwloc call)
 *   restrict <set> <flags>
 *   misc #k <name|->
 *   group [cs=<set>] [ccs=<set>] [ns=<set>] [cns=<set>] [dm=<0|1>] [kind=<n>] [sub=<n>] [ud=1] [st=<s>] [free]
 *   allow <flags> <cpuset|-> <nodeset|->
 *   dist name=<s|-> kind=<n> flags=<n> objs=<type:T|depth:D|list:#a,#b,...> [max=<n>] [nullat=<i>] vals=<blk:B:SELF:NEAR:FAR|rnd:SEED|const:V>
 *   distrm all | depth <d> | type <t> | nth <i>
 *   memattr_reg <name> <flags>
 *   memattr_set <id> #k <-|cs:<set>|obj:#k> <value>
 *   cpukind <set|-> <efficiency> <n=v;...|-> <flags>
 *   info_add #k <name> <value>
 *   info_mod #k <op> <name|-> <value|->        tinfo_mod <op> <name|-> <value|->   (topology infos)
 *   subtype #k <s|->
 *   refresh
 *   reload <flags>                           export to an XML buffer, destroy, load the buffer into a fresh topology with these
 *                                            topology flags and the same type filters (e.g. after allow(CUSTOM): reload 0 drops
 *                                            the disallowed PUs / NUMA nodes at load)
 *   touch                                    read accessors that refresh the lazy caches (distances, memattrs, cpukinds)
 */
#include "hwv_dump.h"
#include "hwv_load.h"
#include <hwloc/distances.h>
#include <hwloc/memattrs.h>
#include <hwloc/cpukinds.h>
#include <unistd.h>
#include <sys/wait.h>
#include <signal.h>
#include <ctype.h>

static hwloc_topology_t topo;
static int loaded;
static char *prevdump; static size_t prevlen;
static int userdata_token;

/* ---------- object enumeration (same order as hwv_enum) ---------- */
static hwloc_obj_t *objv; static unsigned objn, objcap;
static void enum_rec(hwloc_obj_t o)
{
  hwloc_obj_t c;
  if (objn == objcap) { objcap = objcap ? 2 * objcap : 256; objv = realloc(objv, objcap * sizeof(*objv)); }
  objv[objn++] = o;
  for (c = o->first_child; c; c = c->next_sibling) enum_rec(c);
  for (c = o->memory_first_child; c; c = c->next_sibling) enum_rec(c);
  for (c = o->io_first_child; c; c = c->next_sibling) enum_rec(c);
  for (c = o->misc_first_child; c; c = c->next_sibling) enum_rec(c);
}
static void enum_objs(void) { objn = 0; enum_rec(hwloc_get_root_obj(topo)); }
static int obj_id(hwloc_obj_t o) { unsigned i; for (i = 0; i < objn; i++) if (objv[i] == o) return (int)i; return -1; }
/* "#k" -> object; NULL on syntax error */
static hwloc_obj_t obj_ref(const char *s)
{
  if (s && s[0] == '#' && s[1] == 't' && isdigit((unsigned char)s[2])) {
    /* #t<type>.<k> : k-th object (mod their number) of that type in DFS order; NULL when there is none */
    char *end; unsigned long ty = strtoul(s + 2, &end, 10), k = *end == '.' ? strtoul(end + 1, NULL, 10) : 0; unsigned i, n = 0;
    for (i = 0; i < objn; i++) if ((unsigned long)objv[i]->type == ty) n++;
    if (!n) return NULL;
    k %= n;
    for (i = 0; i < objn; i++) if ((unsigned long)objv[i]->type == ty && !k--) return objv[i];
    return NULL;
  }
  if (!s || s[0] != '#' || !isdigit((unsigned char)s[1])) return NULL;
  return objv[strtoul(s + 1, NULL, 10) % objn];
}

/* ---------- set expressions ---------- */
static hwloc_bitmap_t set_term(const char *s, size_t n)
{
  char buf[600]; hwloc_bitmap_t b; hwloc_obj_t o; const char *h;
  if (n >= sizeof(buf)) return NULL;
  memcpy(buf, s, n); buf[n] = 0;
  if ((buf[0] == '0' || buf[0] == '1') && buf[1] == ':') return hwv_parse_set(buf);
  b = hwloc_bitmap_alloc();
  if (!strcmp(buf, "empty")) return b;
  if (!strcmp(buf, "full")) { hwloc_bitmap_fill(b); return b; }
  if (!strcmp(buf, "acpu")) { hwloc_bitmap_copy(b, hwloc_topology_get_allowed_cpuset(topo)); return b; }
  if (!strcmp(buf, "anode")) { hwloc_bitmap_copy(b, hwloc_topology_get_allowed_nodeset(topo)); return b; }
  if (buf[0] == 'b' && isdigit((unsigned char)buf[1])) { hwloc_bitmap_set(b, (unsigned)strtoul(buf + 1, NULL, 10) % 4096u); return b; }
  h = strchr(buf, '#');
  if (h && (o = obj_ref(h)) != NULL) {
    hwloc_const_bitmap_t src = NULL;
    if (!strncmp(buf, "cs#", 3)) src = o->cpuset;
    else if (!strncmp(buf, "ccs#", 4)) src = o->complete_cpuset;
    else if (!strncmp(buf, "ns#", 3)) src = o->nodeset;
    else if (!strncmp(buf, "cns#", 4)) src = o->complete_nodeset;
    else { hwloc_bitmap_free(b); return NULL; }
    if (src) hwloc_bitmap_copy(b, src);
    return b;
  }
  hwloc_bitmap_free(b);
  return NULL;
}
/* returns NULL for "-" (NULL pointer) and sets *bad on a syntax error */
static hwloc_bitmap_t set_expr(const char *s, int *bad)
{
  hwloc_bitmap_t acc = NULL; int neg = 0; char op = '+';
  *bad = 0;
  if (!s || !strcmp(s, "-")) return NULL;
  if (*s == '~') { neg = 1; s++; }
  while (*s) {
    size_t n = strcspn(s, "+&\\");
    hwloc_bitmap_t t = set_term(s, n);
    if (!t) { *bad = 1; hwloc_bitmap_free(acc); return NULL; }
    if (!acc) acc = t;
    else {
      if (op == '+') hwloc_bitmap_or(acc, acc, t); else if (op == '&') hwloc_bitmap_and(acc, acc, t); else hwloc_bitmap_andnot(acc, acc, t);
      hwloc_bitmap_free(t);
    }
    s += n;
    if (*s) op = *s++;
  }
  if (!acc) { *bad = 1; return NULL; }
  if (neg) hwloc_bitmap_not(acc, acc);
  return acc;
}

/* ---------- output after each step ---------- */
static void run_check(void)
{
  int fd[2]; pid_t pid; int st = 0; char buf[4096]; ssize_t n, tot = 0;
  fflush(stdout);
  if (pipe(fd) < 0) { printf("check nopipe\n"); return; }
  pid = fork();
  if (!pid) {
    close(fd[0]); dup2(fd[1], 2); close(fd[1]);
    if (loaded) hwloc_topology_check(topo);
    _exit(0);
  }
  close(fd[1]);
  while (tot < (ssize_t)sizeof(buf) - 1 && (n = read(fd[0], buf + tot, sizeof(buf) - 1 - (size_t)tot)) > 0) tot += n;
  buf[tot] = 0; close(fd[0]);
  waitpid(pid, &st, 0);
  if (WIFEXITED(st) && WEXITSTATUS(st) == 0) printf("check ok\n");
  else {
    char *a = strstr(buf, "Assertion `"), *e; char *p;
    if (a) { a += 11; e = strstr(a, "' failed"); if (e) *e = 0; } else a = WIFSIGNALED(st) ? "signal" : "exit";
    for (p = a; *p; p++) if (*p == ' ' || *p == '\n') *p = '_';
    printf("check abort %s\n", a);
  }
}

static void after_step(void)
{
  char *txt = NULL; size_t len = 0; FILE *f;
  if (!loaded) { printf("nodump\n"); fflush(stdout); return; }
  f = open_memstream(&txt, &len);
  hwv_dump_topology(f, topo, 0);
  fclose(f);
  if (prevdump && len == prevlen && !memcmp(txt, prevdump, len)) { printf("SAME\n"); free(txt); }
  else { fwrite(txt, 1, len, stdout); free(prevdump); prevdump = txt; prevlen = len; }
  run_check();
  enum_objs();
  fflush(stdout);
}

/* ---------- tokens ---------- */
#define MAXTOK 24
static int split(char *line, char **tok) { int n = 0; char *p = strtok(line, " "); while (p && n < MAXTOK) { tok[n++] = p; p = strtok(NULL, " "); } return n; }
static const char *kv(char **tok, int n, const char *key)
{
  size_t k = strlen(key); int i;
  for (i = 1; i < n; i++) if (!strncmp(tok[i], key, k) && tok[i][k] == '=') return tok[i] + k + 1;
  return NULL;
}
static int has_word(char **tok, int n, const char *w) { int i; for (i = 1; i < n; i++) if (!strcmp(tok[i], w)) return 1; return 0; }
static const char *ornull(const char *s) { return (!s || !strcmp(s, "-")) ? NULL : s; }
static void pset_or_dash(hwloc_const_bitmap_t b) { hwv_pset(stdout, b); }
#define ERR() hwv_errno_class(errno)

/* ---------- calls ---------- */
/* filter lines given before load, re-applied by reload */
static char *saved_filters[64]; static unsigned nsaved;
static void forget_filters(void) { while (nsaved) free(saved_filters[--nsaved]); }

static void do_reload(char **tok, int n)
{
  unsigned long flags = n > 1 ? strtoul(tok[1], NULL, 0) : 0; unsigned i;
  char *xml = NULL; int len = 0, rc; hwloc_topology_t nt = NULL;
  printf("CALL reload flags=%lu\n", flags);
  if (hwloc_topology_export_xmlbuffer(topo, &xml, &len, 0) < 0) { printf("RES export rc=-1 errno=%s\n", ERR()); return; }
  if (hwloc_topology_init(&nt) < 0) { hwloc_free_xmlbuffer(topo, xml); printf("RES init rc=-1\n"); return; }
  hwloc_topology_set_flags(nt, flags);
  for (i = 0; i < nsaved; i++) { char *c = strdup(saved_filters[i]); hwv_config_line(nt, c); free(c); }
  errno = 0; rc = hwloc_topology_set_xmlbuffer(nt, xml, len);
  if (rc == 0) { errno = 0; rc = hwloc_topology_load(nt); }
  printf("RES rc=%d errno=%s\n", rc, rc < 0 ? ERR() : "0");
  hwloc_free_xmlbuffer(topo, xml);
  if (rc < 0) { hwloc_topology_destroy(nt); return; }   /* keep the old topology */
  hwloc_topology_destroy(topo);
  topo = nt;
}

static void do_restrict(char **tok, int n)
{
  int bad, rc; hwloc_bitmap_t s; unsigned long flags;
  if (n < 3) { printf("CALL bad\nRES syntax\n"); return; }
  s = set_expr(tok[1], &bad); flags = strtoul(tok[2], NULL, 0);
  if (bad || !s) { printf("CALL bad\nRES syntax\n"); hwloc_bitmap_free(s); return; }
  printf("CALL restrict set="); pset_or_dash(s); printf(" flags=%lu\n", flags);
  errno = 0; rc = hwloc_topology_restrict(topo, s, flags);
  printf("RES rc=%d errno=%s\n", rc, rc < 0 ? ERR() : "0");
  hwloc_bitmap_free(s);
}

static void do_misc(char **tok, int n)
{
  hwloc_obj_t p, r; const char *name;
  if (n < 3 || !(p = obj_ref(tok[1]))) { printf("CALL bad\nRES syntax\n"); return; }
  name = ornull(tok[2]);
  printf("CALL misc parent=%d name=", obj_id(p)); hwv_pstr(stdout, name); printf("\n");
  errno = 0; r = hwloc_topology_insert_misc_object(topo, p, name);
  if (r) printf("RES ok gp=%llu\n", (unsigned long long)r->gp_index); else printf("RES null errno=%s\n", ERR());
}

static void do_group(char **tok, int n)
{
  static const char *keys[4] = { "cs", "ccs", "ns", "cns" };
  hwloc_bitmap_t sets[4] = { NULL, NULL, NULL, NULL }; int i, bad = 0;
  hwloc_obj_t g, r; unsigned long long gp; const char *v;
  for (i = 0; i < 4; i++) { int b; v = kv(tok, n, keys[i]); sets[i] = v ? set_expr(v, &b) : NULL; if (v && b) bad = 1; }
  if (bad) { for (i = 0; i < 4; i++) hwloc_bitmap_free(sets[i]); printf("CALL bad\nRES syntax\n"); return; }
  errno = 0; g = hwloc_topology_alloc_group_object(topo);
  printf("CALL group");
  for (i = 0; i < 4; i++) { printf(" %s=", keys[i]); pset_or_dash(sets[i]); }
  if (!g) { printf(" alloc=null\nRES allocnull errno=%s\n", ERR()); for (i = 0; i < 4; i++) hwloc_bitmap_free(sets[i]); return; }
  g->cpuset = sets[0]; g->complete_cpuset = sets[1]; g->nodeset = sets[2]; g->complete_nodeset = sets[3];
  if ((v = kv(tok, n, "dm"))) g->attr->group.dont_merge = (unsigned char)atoi(v);
  if ((v = kv(tok, n, "kind"))) g->attr->group.kind = (unsigned)strtoul(v, NULL, 0);
  if ((v = kv(tok, n, "sub"))) g->attr->group.subkind = (unsigned)strtoul(v, NULL, 0);
  if (kv(tok, n, "ud")) g->userdata = &userdata_token;
  if ((v = kv(tok, n, "st"))) hwloc_obj_set_subtype(topo, g, v);
  gp = g->gp_index;
  printf(" dm=%u kind=%u sub=%u ud=%d st=", (unsigned)g->attr->group.dont_merge, g->attr->group.kind, g->attr->group.subkind, g->userdata ? 1 : 0);
  hwv_pstr(stdout, g->subtype);
  printf(" gp=%llu%s\n", gp, has_word(tok, n, "free") ? " free" : "");
  if (has_word(tok, n, "free")) {
    int rc; errno = 0; rc = hwloc_topology_free_group_object(topo, g);
    printf("RES freed rc=%d errno=%s\n", rc, rc < 0 ? ERR() : "0");
    return;
  }
  errno = 0; r = hwloc_topology_insert_group_object(topo, g);
  if (!r) printf("RES null errno=%s\n", ERR());
  else if (r == g) printf("RES inserted gp=%llu\n", (unsigned long long)r->gp_index);
  else printf("RES merged ty=%d gp=%llu newgp=%llu\n", (int)r->type, (unsigned long long)r->gp_index, gp);
}

static void do_allow(char **tok, int n)
{
  int b1, b2, rc; hwloc_bitmap_t c, nd; unsigned long flags;
  if (n < 4) { printf("CALL bad\nRES syntax\n"); return; }
  flags = strtoul(tok[1], NULL, 0); c = set_expr(tok[2], &b1); nd = set_expr(tok[3], &b2);
  if (b1 || b2) { printf("CALL bad\nRES syntax\n"); hwloc_bitmap_free(c); hwloc_bitmap_free(nd); return; }
  printf("CALL allow flags=%lu cpuset=", flags); pset_or_dash(c); printf(" nodeset="); pset_or_dash(nd); printf("\n");
  errno = 0; rc = hwloc_topology_allow(topo, c, nd, flags);
  printf("RES rc=%d errno=%s\n", rc, rc < 0 ? ERR() : "0");
  hwloc_bitmap_free(c); hwloc_bitmap_free(nd);
}

static void do_dist(char **tok, int n)
{
  const char *name = ornull(kv(tok, n, "name")), *sel = kv(tok, n, "objs"), *vals = kv(tok, n, "vals"), *v;
  unsigned long kind = (v = kv(tok, n, "kind")) ? strtoul(v, NULL, 0) : 0, flags = (v = kv(tok, n, "flags")) ? strtoul(v, NULL, 0) : 0;
  unsigned max = (v = kv(tok, n, "max")) ? (unsigned)atoi(v) : 64, nb = 0, i, j; int nullat = (v = kv(tok, n, "nullat")) ? atoi(v) : -1;
  hwloc_obj_t objs[64]; hwloc_uint64_t *values; hwloc_distances_add_handle_t h; int rc;
  if (max > 64) max = 64;
  if (!sel || !vals) { printf("CALL bad\nRES syntax\n"); return; }
  if (!strncmp(sel, "type:", 5)) { hwloc_obj_t o = NULL; while (nb < max && (o = hwloc_get_next_obj_by_type(topo, (hwloc_obj_type_t)atoi(sel + 5), o)) != NULL) objs[nb++] = o; }
  else if (!strncmp(sel, "depth:", 6)) { hwloc_obj_t o = NULL; while (nb < max && (o = hwloc_get_next_obj_by_depth(topo, atoi(sel + 6), o)) != NULL) objs[nb++] = o; }
  else if (!strncmp(sel, "list:", 5)) { const char *p = sel + 5; while (nb < max && *p == '#') { objs[nb++] = obj_ref(p); p += strcspn(p, ","); if (*p == ',') p++; } }
  else { printf("CALL bad\nRES syntax\n"); return; }
  if (nullat >= 1 && (unsigned)nullat < nb) objs[nullat] = NULL;
  values = calloc(nb * nb + 1, sizeof(*values));
  if (!strncmp(vals, "blk:", 4)) {
    unsigned long long B = 2, self = 10, nearv = 20, farv = 40; sscanf(vals + 4, "%llu:%llu:%llu:%llu", &B, &self, &nearv, &farv); if (!B) B = 1;
    for (i = 0; i < nb; i++) for (j = 0; j < nb; j++) values[i * nb + j] = i == j ? self : (i / B == j / B ? nearv : farv);
  } else if (!strncmp(vals, "rnd:", 4)) {
    unsigned long long x = strtoull(vals + 4, NULL, 0) * 2862933555777941757ull + 3037000493ull;
    for (i = 0; i < nb * nb; i++) { x = x * 6364136223846793005ull + 1442695040888963407ull; values[i] = (x >> 33) % 100; }
  } else { unsigned long long c = strtoull(strchr(vals, ':') ? strchr(vals, ':') + 1 : "0", NULL, 0); for (i = 0; i < nb * nb; i++) values[i] = c; }
  printf("CALL dist name="); hwv_pstr(stdout, name); printf(" kind=%lu flags=%lu nb=%u objs=", kind, flags, nb);
  for (i = 0; i < nb; i++) { if (i) putchar(','); if (objs[i]) printf("%d", obj_id(objs[i])); else putchar('-'); }
  if (!nb) putchar('-');
  printf(" vals=%s\n", vals);
  errno = 0; h = hwloc_distances_add_create(topo, name, kind, 0);
  if (!h) { printf("RES create-null errno=%s\n", ERR()); free(values); return; }
  errno = 0; rc = hwloc_distances_add_values(topo, h, nb, objs, values, 0);
  free(values);
  if (rc < 0) { printf("RES values rc=-1 errno=%s\n", ERR()); return; }
  errno = 0; rc = hwloc_distances_add_commit(topo, h, flags);
  printf("RES commit rc=%d errno=%s\n", rc, rc < 0 ? ERR() : "0");
}

static void do_distrm(char **tok, int n)
{
  int rc = -2;
  if (n < 2) { printf("CALL bad\nRES syntax\n"); return; }
  printf("CALL distrm %s %s\n", tok[1], n > 2 ? tok[2] : "");
  errno = 0;
  if (!strcmp(tok[1], "all")) rc = hwloc_distances_remove(topo);
  else if (!strcmp(tok[1], "depth") && n > 2) rc = hwloc_distances_remove_by_depth(topo, atoi(tok[2]));
  else if (!strcmp(tok[1], "type") && n > 2) rc = hwloc_distances_remove_by_type(topo, (hwloc_obj_type_t)atoi(tok[2]));
  else if (!strcmp(tok[1], "nth") && n > 2) {
    struct hwloc_distances_s *ds[32]; unsigned nr = 32, i, k = (unsigned)atoi(tok[2]);
    if (hwloc_distances_get(topo, &nr, ds, 0, 0) < 0) nr = 0;
    if (nr > 32) nr = 32;
    rc = 1;
    for (i = 0; i < nr; i++) { if (i == k % nr) rc = hwloc_distances_release_remove(topo, ds[i]); else hwloc_distances_release(topo, ds[i]); }
  }
  printf("RES rc=%d errno=%s\n", rc, rc < 0 ? ERR() : "0");
}

static void do_touch(void)
{
  struct hwloc_distances_s *ds[32]; unsigned nr = 32, i; int rc, nk; hwloc_memattr_id_t id; unsigned long fl; unsigned nattr = 0;
  printf("CALL touch\n");
  rc = hwloc_distances_get(topo, &nr, ds, 0, 0);
  printf("RES dist rc=%d nr=%u [", rc, nr);
  for (i = 0; rc == 0 && i < nr && i < 32; i++) {
    unsigned j, nulls = 0; for (j = 0; j < ds[i]->nbobjs; j++) if (!ds[i]->objs[j]) nulls++;
    printf("%s%u/%u", i ? "," : "", ds[i]->nbobjs, nulls); hwloc_distances_release(topo, ds[i]);
  }
  nk = hwloc_cpukinds_get_nr(topo, 0);
  for (id = 0; id < 64 && hwloc_memattr_get_flags(topo, id, &fl) == 0; id++) {
    hwloc_obj_t best = NULL; hwloc_uint64_t val = 0; struct hwloc_location loc;
    loc.type = HWLOC_LOCATION_TYPE_CPUSET; loc.location.cpuset = (hwloc_cpuset_t)hwloc_topology_get_topology_cpuset(topo);
    hwloc_memattr_get_best_target(topo, id, &loc, 0, &best, &val);
    nattr++;
  }
  printf("] cpukinds=%d memattrs=%u\n", nk, nattr);
}

static void do_memattr_reg(char **tok, int n)
{
  hwloc_memattr_id_t id = 0; int rc;
  if (n < 3) { printf("CALL bad\nRES syntax\n"); return; }
  printf("CALL memattr_reg %s %s\n", tok[1], tok[2]);
  errno = 0; rc = hwloc_memattr_register(topo, tok[1], strtoul(tok[2], NULL, 0), &id);
  printf("RES rc=%d errno=%s id=%u\n", rc, rc < 0 ? ERR() : "0", rc < 0 ? 0 : id);
}

static void do_memattr_set(char **tok, int n)
{
  hwloc_obj_t tg, io = NULL; struct hwloc_location loc, *lp = NULL; hwloc_bitmap_t cs = NULL; int bad = 0, rc;
  if (n < 5 || !(tg = obj_ref(tok[2]))) { printf("CALL bad\nRES syntax\n"); return; }
  if (!strncmp(tok[3], "cs:", 3)) { cs = set_expr(tok[3] + 3, &bad); loc.type = HWLOC_LOCATION_TYPE_CPUSET; loc.location.cpuset = cs; lp = &loc; }
  else if (!strncmp(tok[3], "obj:", 4)) { io = obj_ref(tok[3] + 4); if (!io) bad = 1; loc.type = HWLOC_LOCATION_TYPE_OBJECT; loc.location.object = io; lp = &loc; }
  if (bad || (lp && loc.type == HWLOC_LOCATION_TYPE_CPUSET && !cs)) { printf("CALL bad\nRES syntax\n"); hwloc_bitmap_free(cs); return; }
  printf("CALL memattr_set id=%s target=%d init=", tok[1], obj_id(tg));
  if (!lp) putchar('-'); else if (cs) { printf("cs:"); pset_or_dash(cs); } else printf("obj:%d", obj_id(io));
  printf(" value=%s\n", tok[4]);
  errno = 0; rc = hwloc_memattr_set_value(topo, (hwloc_memattr_id_t)strtoul(tok[1], NULL, 0), tg, lp, 0, strtoull(tok[4], NULL, 0));
  printf("RES rc=%d errno=%s\n", rc, rc < 0 ? ERR() : "0");
  hwloc_bitmap_free(cs);
}

static void do_cpukind(char **tok, int n)
{
  int bad, rc; hwloc_bitmap_t s; struct hwloc_infos_s infos; struct hwloc_info_s arr[8]; char *copy = NULL;
  if (n < 5) { printf("CALL bad\nRES syntax\n"); return; }
  s = set_expr(tok[1], &bad);
  if (bad) { printf("CALL bad\nRES syntax\n"); return; }
  memset(&infos, 0, sizeof(infos)); infos.array = arr;
  if (strcmp(tok[3], "-")) {
    char *p; copy = strdup(tok[3]);
    for (p = strtok(copy, ";"); p && infos.count < 8; p = strtok(NULL, ";")) {
      char *eq = strchr(p, '='); if (!eq) continue; *eq = 0;
      arr[infos.count].name = p; arr[infos.count].value = eq + 1; infos.count++;
    }
  }
  printf("CALL cpukind set="); pset_or_dash(s); printf(" eff=%s infos=%s flags=%s\n", tok[2], tok[3], tok[4]);
  errno = 0; rc = hwloc_cpukinds_register(topo, s, atoi(tok[2]), infos.count ? &infos : NULL, strtoul(tok[4], NULL, 0));
  printf("RES rc=%d errno=%s\n", rc, rc < 0 ? ERR() : "0");
  hwloc_bitmap_free(s); free(copy);
}

static void do_info(char **tok, int n)
{
  hwloc_obj_t o; int rc;
  if (!strcmp(tok[0], "info_add")) {
    if (n < 4 || !(o = obj_ref(tok[1]))) { printf("CALL bad\nRES syntax\n"); return; }
    printf("CALL info_add obj=%d name=", obj_id(o)); hwv_pstr(stdout, tok[2]); printf(" value="); hwv_pstr(stdout, tok[3]); printf("\n");
    errno = 0; rc = hwloc_obj_add_info(o, tok[2], tok[3]);
  } else if (!strcmp(tok[0], "info_mod")) {
    if (n < 5 || !(o = obj_ref(tok[1]))) { printf("CALL bad\nRES syntax\n"); return; }
    printf("CALL info_mod obj=%d op=%lu name=", obj_id(o), strtoul(tok[2], NULL, 0)); hwv_pstr(stdout, ornull(tok[3])); printf(" value="); hwv_pstr(stdout, ornull(tok[4])); printf("\n");
    errno = 0; rc = hwloc_modify_infos(&o->infos, strtoul(tok[2], NULL, 0), ornull(tok[3]), ornull(tok[4]));
  } else if (!strcmp(tok[0], "tinfo_mod")) {
    if (n < 4) { printf("CALL bad\nRES syntax\n"); return; }
    printf("CALL tinfo_mod op=%lu name=", strtoul(tok[1], NULL, 0)); hwv_pstr(stdout, ornull(tok[2])); printf(" value="); hwv_pstr(stdout, ornull(tok[3])); printf("\n");
    errno = 0; rc = hwloc_modify_infos(hwloc_topology_get_infos(topo), strtoul(tok[1], NULL, 0), ornull(tok[2]), ornull(tok[3]));
  } else {
    if (n < 3 || !(o = obj_ref(tok[1]))) { printf("CALL bad\nRES syntax\n"); return; }
    printf("CALL subtype obj=%d st=", obj_id(o)); hwv_pstr(stdout, ornull(tok[2])); printf("\n");
    errno = 0; rc = hwloc_obj_set_subtype(topo, o, ornull(tok[2]));
  }
  printf("RES rc=%d errno=%s\n", rc, rc < 0 ? ERR() : "0");
}

int main(void)
{
  char *line = NULL; size_t cap = 0;
  while (getline(&line, &cap, stdin) > 0) {
    char *tok[MAXTOK]; int n; char *copy;
    size_t len = strlen(line);
    while (len && (line[len-1] == '\n' || line[len-1] == '\r')) line[--len] = 0;
    if (!len || line[0] == '#') continue;
    if (!strcmp(line, "new")) {
      if (topo) hwloc_topology_destroy(topo);
      loaded = 0; free(prevdump); prevdump = NULL; prevlen = 0; forget_filters();
      printf("new rc=%d\n", hwloc_topology_init(&topo));
    } else if (!strncmp(line, "echo ", 5)) {
      printf("%s\n", line);
    } else if (!strcmp(line, "load")) {
      int rc; errno = 0;
      if (!topo) { printf("load rc=-1 errno=notopo\n"); continue; }
      rc = hwloc_topology_load(topo);
      printf("CALL load\nRES rc=%d errno=%s\n", rc, rc < 0 ? hwv_errno_class(errno) : "0");
      loaded = (rc == 0);
      if (loaded) enum_objs();
      after_step();
    } else if (!strcmp(line, "destroy")) {
      if (topo) hwloc_topology_destroy(topo);
      topo = NULL; loaded = 0;
      printf("destroy\n");
    } else if (topo && !loaded) {
      int r;
      if (!strncmp(line, "filter ", 7) && nsaved < 64) saved_filters[nsaved++] = strdup(line);
      r = hwv_config_line(topo, line);
      if (r == 0) printf("unknown-command %s\n", line);
      else if (r == 2) printf("config rc=-1 errno=%s\n", hwv_errno_class(errno));
      else if (r < 0) printf("config bad-line\n");
      else printf("config rc=0\n");
    } else if (topo && loaded) {
      copy = strdup(line);
      n = split(copy, tok);
      if (!n) { free(copy); continue; }
      if (!strcmp(tok[0], "ud")) {
        hwloc_obj_t o = n > 1 ? obj_ref(tok[1]) : NULL;
        if (o) { o->userdata = &userdata_token; printf("CALL ud obj=%d\nRES ok\n", obj_id(o)); } else printf("CALL bad\nRES syntax\n");
      }
      else if (!strcmp(tok[0], "reload")) do_reload(tok, n);
      else if (!strcmp(tok[0], "restrict")) do_restrict(tok, n);
      else if (!strcmp(tok[0], "misc")) do_misc(tok, n);
      else if (!strcmp(tok[0], "group")) do_group(tok, n);
      else if (!strcmp(tok[0], "allow")) do_allow(tok, n);
      else if (!strcmp(tok[0], "dist")) do_dist(tok, n);
      else if (!strcmp(tok[0], "distrm")) do_distrm(tok, n);
      else if (!strcmp(tok[0], "touch")) do_touch();
      else if (!strcmp(tok[0], "memattr_reg")) do_memattr_reg(tok, n);
      else if (!strcmp(tok[0], "memattr_set")) do_memattr_set(tok, n);
      else if (!strcmp(tok[0], "cpukind")) do_cpukind(tok, n);
      else if (!strcmp(tok[0], "info_add") || !strcmp(tok[0], "info_mod") || !strcmp(tok[0], "tinfo_mod") || !strcmp(tok[0], "subtype")) do_info(tok, n);
      else if (!strcmp(tok[0], "refresh")) { int rc = hwloc_topology_refresh(topo); printf("CALL refresh\nRES rc=%d errno=0\n", rc); }
      else { printf("CALL bad\nRES unknown %s\n", tok[0]); }
      free(copy);
      after_step();
    }
    fflush(stdout);
  }
  if (topo) hwloc_topology_destroy(topo);
  free(hwv_xmlbuf); free(prevdump); free(objv); forget_filters();
  free(line);
  return 0;
}
