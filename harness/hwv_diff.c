/* C16 harness: topology diffs on the REAL library.
 *
 * stdin: a sequence of cases
 *   case <name>
 *   xmlbackend <export 0|1> [<import 0|1>]  HWLOC_LIBXML_EXPORT / HWLOC_LIBXML_IMPORT for the diff XML round trip
 *                                    (hwloc caches the choice on first use: every case is its own process)
 *   refname <string|->               refname given to the diff export (default: a file name with XML specials)
 *   xmlhand <n>                      followed by n "D ..." lines: XML round trip (buffer and file) of that list
 *                                    strings may be written @<len>[:e] = generated string of that length (e: with &<>"')
 *   topo synthetic <description> | topo xml <path>
 *   topo [f<type>=<filter>]... synthetic|xml ...     type filters (numbers) applied after KEEP_ALL
 *   topob [noio] [f<type>=<filter>]... synthetic <description> | xml <path>   B loaded on its own instead of dup(A)
 *   b cut <depth> <idx> <kind 0..3> <k> / b cutmid <depth> <idx> <kind> <pos>   B only: hide the last k children / the
 *                                    child at <pos> of one child list (normal, memory, I/O, Misc) from the tree walk
 *   a <edit...>                      edit applied to A (before B is duplicated from it)
 *   b <edit...>                      edit applied to B = dup(A)
 *   build                            diff_build(A,B), apply to a dup of A, rebuild, reverse, XML round trip
 *   hand <flags> <n>                 followed by n "D ..." lines: hand-built list applied to a dup of A
 *   misuse                           build/apply on an unloaded topology, with invalid flags, on an adopted topology
 *   xmlload <n> <hex document>       load_xmlbuffer of an arbitrary document; if it loads: re-export and reload
 *   end
 * Every case runs in a forked child so that a crash of the library is an
 * observation ("X sig=11" / "X exit=97"), not the end of the run.
 *
 * stdout, per case: the tables of A and B for the model side (O/T* lines), the
 * result lines (build/D/xml/apply/S/SI/rebuild/unapply/hand) that the extracted
 * model prints identically, then "X ok" or "X ...".
 */
#define _GNU_SOURCE
#include "private/autogen/config.h"
#include "hwloc.h"
#include "hwloc/diff.h"
#include "private/private.h"
#include "private/misc.h"
#include <stdio.h>
#include <stdlib.h>
#include <string.h>
#include <errno.h>
#include <unistd.h>
#include <sys/wait.h>

static void hx(const char *s)
{
  if (!s) { putchar('-'); return; }
  putchar('s');
  for (; *s; s++) printf("%02x", (unsigned char)*s);
}

static char *unhx(const char *s)
{
  size_t n, i; char *r;
  if (s && s[0] == '@') {
    static const char plain[] = "abcdefghijklmnopqrstuvwxyz0123456789 _-";
    static const char esc[] = "ab&cd<ef>gh\"ij'kl mn";
    const char *pat = strchr(s, ':') ? esc : plain; size_t pl = strchr(s, ':') ? sizeof(esc) - 1 : sizeof(plain) - 1;
    n = strtoul(s + 1, NULL, 10); r = malloc(n + 1);
    for (i = 0; i < n; i++) r[i] = pat[i % pl];
    r[n] = 0; return r;
  }
  if (!s || s[0] != 's') return NULL;
  s++; n = strlen(s) / 2; r = malloc(n + 1);
  for (i = 0; i < n; i++) { unsigned v; sscanf(s + 2 * i, "%2x", &v); r[i] = (char)v; }
  r[n] = 0;
  return r;
}

/* canonical rendering of a set from its raw words (not through the printers) */
static void pset(hwloc_const_bitmap_t b)
{
  int inf, last, n, i;
  if (!b) { putchar('-'); return; }
  inf = (hwloc_bitmap_last(b) == -1 && !hwloc_bitmap_iszero(b));
  last = inf ? hwloc_bitmap_last_unset(b) : hwloc_bitmap_last(b);
  n = last < 0 ? 0 : last / (int)(8 * sizeof(unsigned long)) + 1;
  printf("s%d", inf);
  for (i = 0; i < n; i++) printf("%016lx", hwloc_bitmap_to_ith_ulong(b, (unsigned)i));
  /* only required to be an injective rendering: "s<inf>" then fixed-width raw hex words, trailing fill words trimmed */
}

static void pbytes(const void *p, size_t n)
{
  size_t i;
  putchar('s');
  for (i = 0; i < n; i++) printf("%02x", ((const unsigned char *)p)[i]);
}

static size_t tattr_size(hwloc_obj_t o)
{
  switch (o->type) {
  case HWLOC_OBJ_L1CACHE: case HWLOC_OBJ_L2CACHE: case HWLOC_OBJ_L3CACHE: case HWLOC_OBJ_L4CACHE: case HWLOC_OBJ_L5CACHE:
  case HWLOC_OBJ_L1ICACHE: case HWLOC_OBJ_L2ICACHE: case HWLOC_OBJ_L3ICACHE:
  case HWLOC_OBJ_MEMCACHE:      /* every type that has attributes, whatever diff.c's switch lists (NUMA page_types: documented as ignored) */
    return sizeof(o->attr->cache);
  case HWLOC_OBJ_GROUP: return sizeof(o->attr->group);
  case HWLOC_OBJ_PCI_DEVICE: return sizeof(o->attr->pcidev);
  case HWLOC_OBJ_BRIDGE: return sizeof(o->attr->bridge);
  case HWLOC_OBJ_OS_DEVICE: return sizeof(o->attr->osdev);
  default: return 0;
  }
}

static int wferr;

static void dump_obj(const char *tag, hwloc_topology_t t, hwloc_obj_t o, hwloc_obj_t parent, int nest, int list, int full)
{
  hwloc_obj_t c; unsigned k;
  if (hwloc_get_obj_by_depth(t, o->depth, o->logical_index) != o || o->parent != parent) wferr++;
  if (full) {
    printf("O %s %d %d %d %u %d ", tag, nest, list, o->depth, o->logical_index, (int)o->type);
    hx(o->subtype); printf(" %u ", o->os_index);
    pset(o->cpuset); putchar(' '); pset(o->complete_cpuset); putchar(' '); pset(o->nodeset); putchar(' '); pset(o->complete_nodeset);
    putchar(' '); hx(o->name); putchar(' ');
    pbytes(o->attr, tattr_size(o));
  } else {
    printf("S %s %d %u ", tag, o->depth, o->logical_index);
    hx(o->name);
  }
  printf(" %llu %llu %u", (unsigned long long)(o->type == HWLOC_OBJ_NUMANODE ? o->attr->numanode.local_memory : 0),
         (unsigned long long)o->total_memory, o->infos.count);
  for (k = 0; k < o->infos.count; k++) { putchar(' '); hx(o->infos.array[k].name); putchar(' '); hx(o->infos.array[k].value); }
  putchar('\n');
  for (c = o->first_child; c; c = c->next_sibling) dump_obj(tag, t, c, o, nest + 1, 0, full);
  for (c = o->memory_first_child; c; c = c->next_sibling) dump_obj(tag, t, c, o, nest + 1, 1, full);
  for (c = o->io_first_child; c; c = c->next_sibling) dump_obj(tag, t, c, o, nest + 1, 2, full);
  for (c = o->misc_first_child; c; c = c->next_sibling) dump_obj(tag, t, c, o, nest + 1, 3, full);
}

static void dump_tinfos(const char *pfx, const char *tag, hwloc_topology_t t)
{
  unsigned k;
  for (k = 0; k < t->infos.count; k++) {
    printf("%s %s ", pfx, tag); hx(t->infos.array[k].name); putchar(' '); hx(t->infos.array[k].value); putchar('\n');
  }
}

/* full dump for the model side */
static void dump_full(const char *tag, hwloc_topology_t t)
{
  struct hwloc_internal_distances_s *dist;
  unsigned i, j, k;
  printf("T %s %u ", tag, t->nb_levels); pset(t->allowed_cpuset); putchar(' '); pset(t->allowed_nodeset); putchar('\n');
  dump_tinfos("TI", tag, t);
  hwloc_internal_distances_refresh(t);
  for (dist = t->first_dist; dist; dist = dist->next) {
    /* exactly what hwloc_topology_diff_build compares */
    printf("TD %s %d s", tag, dist->different_types ? 1 : 0);
    printf("%x.%u.%lx", (unsigned)dist->unique_type, dist->nbobjs, dist->kind);
    for (i = 0; i < dist->nbobjs * dist->nbobjs; i++) printf(".%llx", (unsigned long long)dist->values[i]);
    for (i = 0; i < dist->nbobjs; i++) printf(".%x", dist->objs[i] ? dist->objs[i]->logical_index : 0xffffffffu);
    putchar('\n');
  }
  hwloc_internal_memattrs_refresh(t);
  for (i = 0; i < t->nr_memattrs; i++) {
    struct hwloc_internal_memattr_s *m = &t->memattrs[i];
    printf("TM %s ", tag); hx(m->name); printf("2e%lx %d %u\n", m->flags, (m->flags & HWLOC_MEMATTR_FLAG_NEED_INITIATOR) ? 1 : 0, m->nr_targets);
    for (j = 0; j < m->nr_targets; j++) {
      struct hwloc_internal_memattr_target_s *g = &m->targets[j];
      printf("TMT %s s%x.%x s%llx %u", tag, (unsigned)g->type, g->obj ? g->obj->logical_index : 0xffffffffu,
             (unsigned long long)g->noinitiator_value, (m->flags & HWLOC_MEMATTR_FLAG_NEED_INITIATOR) ? g->nr_initiators : 0);
      if (m->flags & HWLOC_MEMATTR_FLAG_NEED_INITIATOR)
        for (k = 0; k < g->nr_initiators; k++) {
          struct hwloc_internal_memattr_initiator_s *in = &g->initiators[k];
          printf(" s%llx.%x.", (unsigned long long)in->value, (unsigned)in->initiator.type);
          if (in->initiator.type == HWLOC_LOCATION_TYPE_CPUSET) pset(in->initiator.location.cpuset);
          else printf("%x.%x", (unsigned)in->initiator.location.object.type,
                      in->initiator.location.object.obj ? in->initiator.location.object.obj->logical_index : 0xffffffffu);
        }
      putchar('\n');
    }
  }
  for (i = 0; i < t->nr_cpukinds; i++) {
    struct hwloc_internal_cpukind_s *c = &t->cpukinds[i];
    printf("TK %s ", tag); pset(c->cpuset); printf("2e%x.%x.%llx.%u", (unsigned)c->efficiency, (unsigned)c->forced_efficiency,
                                                     (unsigned long long)c->ranking_value, c->infos.count);
    for (k = 0; k < c->infos.count; k++) { putchar('.'); hx(c->infos.array[k].name); putchar('.'); hx(c->infos.array[k].value); }
    putchar('\n');
  }
  wferr = 0;
  dump_obj(tag, t, hwloc_get_root_obj(t), NULL, 0, 0, 1);
  printf("E %s %d\n", tag, wferr);
}

static void dump_state(const char *tag, hwloc_topology_t t)
{
  dump_obj(tag, t, hwloc_get_root_obj(t), NULL, 0, 0, 0);
  dump_tinfos("SI", tag, t);
}

/* ---- diff lists ---- */
static unsigned print_diff(hwloc_topology_diff_t d)
{
  unsigned n = 0;
  for (; d; d = d->generic.next, n++) {
    switch ((int)d->generic.type) {
    case HWLOC_TOPOLOGY_DIFF_TOO_COMPLEX: printf("D tc %d %u\n", d->too_complex.obj_depth, d->too_complex.obj_index); break;
    case HWLOC_TOPOLOGY_DIFF_OBJ_ATTR:
      printf("D a %d %u ", d->obj_attr.obj_depth, d->obj_attr.obj_index);
      switch ((int)d->obj_attr.diff.generic.type) {
      case HWLOC_TOPOLOGY_DIFF_OBJ_ATTR_SIZE:
        printf("size %llu %llu %llu\n", (unsigned long long)d->obj_attr.diff.uint64.index,
               (unsigned long long)d->obj_attr.diff.uint64.oldvalue, (unsigned long long)d->obj_attr.diff.uint64.newvalue);
        break;
      case HWLOC_TOPOLOGY_DIFF_OBJ_ATTR_NAME:
        printf("name "); hx(d->obj_attr.diff.string.name); putchar(' ');
        hx(d->obj_attr.diff.string.oldvalue); putchar(' '); hx(d->obj_attr.diff.string.newvalue); putchar('\n');
        break;
      case HWLOC_TOPOLOGY_DIFF_OBJ_ATTR_INFO:
        printf("info "); hx(d->obj_attr.diff.string.name); putchar(' ');
        hx(d->obj_attr.diff.string.oldvalue); putchar(' '); hx(d->obj_attr.diff.string.newvalue); putchar('\n');
        break;
      default: printf("other %d\n", (int)d->obj_attr.diff.generic.type);
      }
      break;
    default: printf("D other %d\n", (int)d->generic.type);
    }
  }
  return n;
}

static unsigned diff_len(hwloc_topology_diff_t d) { unsigned n = 0; for (; d; d = d->generic.next) n++; return n; }

static int streq(const char *a, const char *b) { return (!a && !b) || (a && b && !strcmp(a, b)); }

static int diff_same(hwloc_topology_diff_t a, hwloc_topology_diff_t b)
{
  for (; a && b; a = a->generic.next, b = b->generic.next) {
    if (a->generic.type != b->generic.type) return 0;
    if (a->generic.type != HWLOC_TOPOLOGY_DIFF_OBJ_ATTR) continue;
    if (a->obj_attr.obj_depth != b->obj_attr.obj_depth || a->obj_attr.obj_index != b->obj_attr.obj_index
        || a->obj_attr.diff.generic.type != b->obj_attr.diff.generic.type) return 0;
    if (a->obj_attr.diff.generic.type == HWLOC_TOPOLOGY_DIFF_OBJ_ATTR_SIZE) {
      if (a->obj_attr.diff.uint64.oldvalue != b->obj_attr.diff.uint64.oldvalue
          || a->obj_attr.diff.uint64.newvalue != b->obj_attr.diff.uint64.newvalue) return 0;
    } else {
      if (!streq(a->obj_attr.diff.string.name, b->obj_attr.diff.string.name)
          || !streq(a->obj_attr.diff.string.oldvalue, b->obj_attr.diff.string.oldvalue)
          || !streq(a->obj_attr.diff.string.newvalue, b->obj_attr.diff.string.newvalue)) return 0;
    }
  }
  return !a && !b;
}

/* parse one "D ..." line into a malloc'ed entry (strings owned by the entry) */
static hwloc_topology_diff_t parse_entry(char *line)
{
  hwloc_topology_diff_t d = calloc(1, sizeof(*d));
  char kind[16], s1[1024], s2[1024], s3[1024]; int dep; unsigned idx; unsigned long long a, b, c; int t;
  if (sscanf(line, "D tc %d %u", &dep, &idx) == 2) {
    d->too_complex.type = HWLOC_TOPOLOGY_DIFF_TOO_COMPLEX; d->too_complex.obj_depth = dep; d->too_complex.obj_index = idx;
  } else if (sscanf(line, "D other %d", &t) == 1) {
    d->generic.type = (hwloc_topology_diff_type_t)t;
  } else if (sscanf(line, "D a %d %u %15s", &dep, &idx, kind) == 3) {
    char *rest = strstr(line, kind) + strlen(kind);
    d->obj_attr.type = HWLOC_TOPOLOGY_DIFF_OBJ_ATTR; d->obj_attr.obj_depth = dep; d->obj_attr.obj_index = idx;
    if (!strcmp(kind, "size") && sscanf(rest, "%llu %llu %llu", &a, &b, &c) == 3) {
      d->obj_attr.diff.uint64.type = HWLOC_TOPOLOGY_DIFF_OBJ_ATTR_SIZE;
      d->obj_attr.diff.uint64.index = a; d->obj_attr.diff.uint64.oldvalue = b; d->obj_attr.diff.uint64.newvalue = c;
    } else if ((!strcmp(kind, "name") || !strcmp(kind, "info")) && sscanf(rest, "%1023s %1023s %1023s", s1, s2, s3) == 3) {
      d->obj_attr.diff.string.type = !strcmp(kind, "name") ? HWLOC_TOPOLOGY_DIFF_OBJ_ATTR_NAME : HWLOC_TOPOLOGY_DIFF_OBJ_ATTR_INFO;
      d->obj_attr.diff.string.name = unhx(s1); d->obj_attr.diff.string.oldvalue = unhx(s2); d->obj_attr.diff.string.newvalue = unhx(s3);
    } else if (!strcmp(kind, "other") && sscanf(rest, "%d", &t) == 1) {
      d->obj_attr.diff.generic.type = (hwloc_topology_diff_obj_attr_type_t)t;
    } else { free(d); return NULL; }
  } else { free(d); return NULL; }
  return d;
}

/* hwloc_topology_diff_destroy frees strings only for NAME/INFO entries: entries
   of other types never own strings here */

/* "f<type>=<filter>" tokens in front of a source specification */
static char *apply_filters(hwloc_topology_t t, char *spec)
{
  int ty, fl, n;
  while (sscanf(spec, "f%d=%d %n", &ty, &fl, &n) == 2) {
    hwloc_topology_set_type_filter(t, (hwloc_obj_type_t)ty, (enum hwloc_type_filter_e)fl);
    spec += n;
  }
  return spec;
}

/* pointer surgery on child lists (cut / cutmid), undone before the topology is destroyed */
static struct { hwloc_obj_t *slot; hwloc_obj_t old; } undo[64];
static unsigned nundo;
static hwloc_obj_t *list_head(hwloc_obj_t o, unsigned kind)
{
  return kind == 0 ? &o->first_child : kind == 1 ? &o->memory_first_child : kind == 2 ? &o->io_first_child : &o->misc_first_child;
}
static int cut_list(hwloc_obj_t o, unsigned kind, unsigned keep, int one)
{
  hwloc_obj_t *slot = list_head(o, kind); unsigned n;
  if (kind > 3 || nundo >= 64) return -1;
  for (n = 0; n < keep; n++) { if (!*slot) return -1; slot = &(*slot)->next_sibling; }
  if (!*slot) return -1;
  undo[nundo].slot = slot; undo[nundo].old = *slot; nundo++;
  *slot = one ? (*slot)->next_sibling : NULL;
  return 0;
}
static void undo_cuts(void) { while (nundo) { nundo--; *undo[nundo].slot = undo[nundo].old; } }

/* ---- edits ---- */
static void set_str(char **p, char *v) { free(*p); *p = v; }

static int do_edit(hwloc_topology_t t, char *line)
{
  char op[32], s1[1024], s2[1024]; int d; unsigned i, k; unsigned long long v; hwloc_obj_t o;
  if (sscanf(line, "%31s", op) != 1) return -1;
  line += strlen(op);
  if (!strcmp(op, "tinfoadd") && sscanf(line, "%1023s %1023s", s1, s2) == 2) {
    char *n = unhx(s1), *val = unhx(s2);
    int r = hwloc_modify_infos(hwloc_topology_get_infos(t), HWLOC_MODIFY_INFOS_OP_ADD, n, val); free(n); free(val); return r < 0 ? -1 : 0;
  }
  if (!strcmp(op, "tinfoset") && sscanf(line, "%u %1023s", &k, s1) == 2) {
    if (k >= t->infos.count) return -1;
    set_str(&t->infos.array[k].value, unhx(s1)); return 0;
  }
  if (!strcmp(op, "tinfodel") && sscanf(line, "%u", &k) == 1) {
    if (k >= t->infos.count) return -1;
    free(t->infos.array[k].name); free(t->infos.array[k].value);
    memmove(&t->infos.array[k], &t->infos.array[k + 1], (t->infos.count - k - 1) * sizeof(*t->infos.array)); t->infos.count--; return 0;
  }
  if (!strcmp(op, "restrict")) {     /* restrict <hex cpuset> [<flags>] */
    unsigned long long fl = 0; hwloc_bitmap_t b; int r;
    if (sscanf(line, "%llx %llu", &v, &fl) < 1) return -1;
    b = hwloc_bitmap_alloc(); hwloc_bitmap_from_ulong(b, (unsigned long)v);
    r = hwloc_topology_restrict(t, b, (unsigned long)fl); hwloc_bitmap_free(b); return r;
  }
  if (!strcmp(op, "allowclr") && sscanf(line, "%u", &k) == 1) { hwloc_bitmap_clr(t->allowed_cpuset, k); return 0; }
  if (!strcmp(op, "allownodeclr") && sscanf(line, "%u", &k) == 1) { hwloc_bitmap_clr(t->allowed_nodeset, k); return 0; }
  if (!strcmp(op, "cpukind") && sscanf(line, "%llx %d", &v, &d) == 2) {
    hwloc_bitmap_t b = hwloc_bitmap_alloc(); int r; hwloc_bitmap_from_ulong(b, (unsigned long)v);
    r = hwloc_cpukinds_register(t, b, d, NULL, 0); hwloc_bitmap_free(b); return r;
  }
  if ((!strcmp(op, "dist") || !strcmp(op, "disthet")) ) {
    int d1, d2 = 0; unsigned long kind; unsigned seed, n1, n2 = 0, n, x, y; hwloc_obj_t *objs; hwloc_uint64_t *vals; int r;
    hwloc_distances_add_handle_t h;
    if (!strcmp(op, "dist")) { if (sscanf(line, "%d %lu %u", &d1, &kind, &seed) != 3) return -1; }
    else if (sscanf(line, "%d %d %lu %u", &d1, &d2, &kind, &seed) != 4) return -1;
    n1 = hwloc_get_nbobjs_by_depth(t, d1); if (!strcmp(op, "disthet")) n2 = hwloc_get_nbobjs_by_depth(t, d2);
    n = n1 + n2; if (n < 2 || n > 16) return -1;
    objs = malloc(n * sizeof(*objs)); vals = malloc(n * n * sizeof(*vals));
    for (x = 0; x < n1; x++) objs[x] = hwloc_get_obj_by_depth(t, d1, x);
    for (x = 0; x < n2; x++) objs[n1 + x] = hwloc_get_obj_by_depth(t, d2, x);
    for (x = 0; x < n; x++) for (y = 0; y < n; y++) vals[x * n + y] = x == y ? 10 : 20 + ((x * 7 + y * 3 + seed) % 5);
    h = hwloc_distances_add_create(t, NULL, kind, 0);
    r = h ? hwloc_distances_add_values(t, h, n, objs, vals, 0) : -1;
    if (!r) r = hwloc_distances_add_commit(t, h, 0);
    free(objs); free(vals); return r;
  }
  if (!strcmp(op, "mattr")) {
    unsigned id, tgt; int idep; unsigned iidx; struct hwloc_location loc; hwloc_obj_t node, ini;
    if (sscanf(line, "%u %u %d %u %llu", &id, &tgt, &idep, &iidx, &v) != 5) return -1;
    node = hwloc_get_obj_by_type(t, HWLOC_OBJ_NUMANODE, tgt); if (!node) return -1;
    if (idep == -100) return hwloc_memattr_set_value(t, id, node, NULL, 0, v);
    ini = hwloc_get_obj_by_depth(t, idep, iidx); if (!ini) return -1;
    loc.type = HWLOC_LOCATION_TYPE_CPUSET; loc.location.cpuset = ini->cpuset;
    return hwloc_memattr_set_value(t, id, node, &loc, 0, v);
  }
  if (!strcmp(op, "tinfoname") && sscanf(line, "%u %1023s", &k, s1) == 2) {
    if (k >= t->infos.count) return -1;
    set_str(&t->infos.array[k].name, unhx(s1)); return 0;
  }
  if (!strcmp(op, "cpukindi")) {   /* cpukindi <mask> <eff> <name> <value>: with one info */
    struct hwloc_infos_s infos; struct hwloc_info_s one; hwloc_bitmap_t b; int r;
    if (sscanf(line, "%llx %d %1023s %1023s", &v, &d, s1, s2) != 4) return -1;
    one.name = unhx(s1); one.value = unhx(s2); infos.array = &one; infos.count = 1; infos.allocated = 1;
    b = hwloc_bitmap_alloc(); hwloc_bitmap_from_ulong(b, (unsigned long)v);
    r = hwloc_cpukinds_register(t, b, d, &infos, 0); hwloc_bitmap_free(b); free(one.name); free(one.value); return r;
  }
  if (!strcmp(op, "distsub")) {    /* distsub <depth> <kind> <seed> <first> <count>: matrix over a sub-range of a level */
    int d1; unsigned long kind; unsigned seed, first, n, x, y; hwloc_obj_t *objs; hwloc_uint64_t *vals; int r; hwloc_distances_add_handle_t h;
    if (sscanf(line, "%d %lu %u %u %u", &d1, &kind, &seed, &first, &n) != 5) return -1;
    if (n < 2 || n > 16 || first + n > hwloc_get_nbobjs_by_depth(t, d1)) return -1;
    objs = malloc(n * sizeof(*objs)); vals = malloc(n * n * sizeof(*vals));
    for (x = 0; x < n; x++) objs[x] = hwloc_get_obj_by_depth(t, d1, first + x);
    for (x = 0; x < n; x++) for (y = 0; y < n; y++) vals[x * n + y] = x == y ? 10 : 20 + ((x * 7 + y * 3 + seed) % 5);
    h = hwloc_distances_add_create(t, NULL, kind, 0);
    r = h ? hwloc_distances_add_values(t, h, n, objs, vals, 0) : -1;
    if (!r) r = hwloc_distances_add_commit(t, h, 0);
    free(objs); free(vals); return r;
  }
  if (!strcmp(op, "mattrreg") && sscanf(line, "%1023s %llu", s1, &v) == 2) {
    char *n = unhx(s1); hwloc_memattr_id_t id; int r = hwloc_memattr_register(t, n, (unsigned long)v, &id); free(n); return r;
  }
  if (!strcmp(op, "mattrt")) {     /* mattrt <attr> <target depth> <target idx> <value>: any object as target, no initiator */
    unsigned id; int tdep; unsigned tidx; hwloc_obj_t tg;
    if (sscanf(line, "%u %d %u %llu", &id, &tdep, &tidx, &v) != 4) return -1;
    tg = hwloc_get_obj_by_depth(t, tdep, tidx); if (!tg) return -1;
    return hwloc_memattr_set_value(t, id, tg, NULL, 0, v);
  }
  if (!strcmp(op, "mattro")) {     /* mattro <attr> <numa idx> <initiator depth> <initiator idx> <value>: object initiator */
    unsigned id, tgt; int idep; unsigned iidx; struct hwloc_location loc; hwloc_obj_t node, ini;
    if (sscanf(line, "%u %u %d %u %llu", &id, &tgt, &idep, &iidx, &v) != 5) return -1;
    node = hwloc_get_obj_by_type(t, HWLOC_OBJ_NUMANODE, tgt); ini = hwloc_get_obj_by_depth(t, idep, iidx);
    if (!node || !ini) return -1;
    loc.type = HWLOC_LOCATION_TYPE_OBJECT; loc.location.object = ini;
    return hwloc_memattr_set_value(t, id, node, &loc, 0, v);
  }
  /* object edits: <depth> <index> ... */
  if (sscanf(line, "%d %u", &d, &i) != 2) return -1;
  o = hwloc_get_obj_by_depth(t, d, i);
  if (!o) return -1;
  { int skip = 0; sscanf(line, "%*d %*u%n", &skip); line += skip; }
  if (!strcmp(op, "name") && sscanf(line, "%1023s", s1) == 1) { set_str(&o->name, unhx(s1)); return 0; }
  if (!strcmp(op, "subtype") && sscanf(line, "%1023s", s1) == 1) { set_str(&o->subtype, unhx(s1)); return 0; }
  if (!strcmp(op, "infoadd") && sscanf(line, "%1023s %1023s", s1, s2) == 2) {
    char *n = unhx(s1), *val = unhx(s2); int r = hwloc_obj_add_info(o, n, val); free(n); free(val); return r;
  }
  if (!strcmp(op, "infoset") && sscanf(line, "%u %1023s", &k, s1) == 2) {
    if (k >= o->infos.count) return -1;
    set_str(&o->infos.array[k].value, unhx(s1)); return 0;
  }
  if (!strcmp(op, "infoname") && sscanf(line, "%u %1023s", &k, s1) == 2) {
    if (k >= o->infos.count) return -1;
    set_str(&o->infos.array[k].name, unhx(s1)); return 0;
  }
  if (!strcmp(op, "infodel") && sscanf(line, "%u", &k) == 1) {
    if (k >= o->infos.count) return -1;
    free(o->infos.array[k].name); free(o->infos.array[k].value);
    memmove(&o->infos.array[k], &o->infos.array[k + 1], (o->infos.count - k - 1) * sizeof(*o->infos.array)); o->infos.count--; return 0;
  }
  if (!strcmp(op, "mem") && sscanf(line, "%llu", &v) == 1) {
    hwloc_obj_t p; hwloc_uint64_t delta;
    if (o->type != HWLOC_OBJ_NUMANODE) return -1;
    delta = (hwloc_uint64_t)v - o->attr->numanode.local_memory; o->attr->numanode.local_memory = v;
    for (p = o; p; p = p->parent) p->total_memory += delta;
    return 0;
  }
  if (!strcmp(op, "memraw") && sscanf(line, "%llu", &v) == 1) {
    if (o->type != HWLOC_OBJ_NUMANODE) return -1;
    o->attr->numanode.local_memory = v; return 0;
  }
  if (!strcmp(op, "tmemraw") && sscanf(line, "%llu", &v) == 1) { o->total_memory = v; return 0; }
  if (!strcmp(op, "misc") && sscanf(line, "%1023s", s1) == 1) {
    char *n = unhx(s1); hwloc_obj_t m = hwloc_topology_insert_misc_object(t, o, n); free(n); return m ? 0 : -1;
  }
  if (!strcmp(op, "osindex") && sscanf(line, "%u", &k) == 1) { o->os_index = k; return 0; }
  if (!strcmp(op, "cut") && sscanf(line, "%u %llu", &k, &v) == 2) {
    hwloc_obj_t c; unsigned len = 0;
    if (k > 3) return -1;
    for (c = *list_head(o, k); c; c = c->next_sibling) len++;
    if (v < 1 || v > len) return -1;
    return cut_list(o, k, len - (unsigned)v, 0);
  }
  if (!strcmp(op, "cutmid") && sscanf(line, "%u %llu", &k, &v) == 2) return cut_list(o, k, (unsigned)v, 1);
  if (!strcmp(op, "attrpoke") && sscanf(line, "%u %llu", &k, &v) == 2) {   /* one byte of the attribute union diff.c memcmp()s */
    if (k >= tattr_size(o)) return -1;
    ((unsigned char *)o->attr)[k] ^= (unsigned char)(v ? v : 1); return 0;
  }
  if (!strcmp(op, "cachesize") && sscanf(line, "%llu", &v) == 1) {
    if (!hwloc_obj_type_is_cache(o->type)) return -1;
    o->attr->cache.size = v; return 0;
  }
  return -1;
}

/* ---- one case ---- */


static hwloc_topology_t A, B;

static void need_B(void) { if (!B && A) hwloc_topology_dup(&B, A); }

/* refname given by the case ("refname -" = NULL); default: a file name with XML-special characters */
static char *g_refname; static int g_refname_set;

/* export/load of a list as XML: buffer and file variants, with a refname */
static void xml_roundtrip(hwloc_topology_diff_t diff, int with_apply)
{
  const char *refname = g_refname_set ? g_refname : "ref<&\"1>.xml";
  hwloc_topology_diff_t xd = NULL; char *buf = NULL, *ref = NULL; int len = 0, r;
  char path[] = "/tmp/hwv-diff-XXXXXX"; int fd;
  r = hwloc_topology_diff_export_xmlbuffer(diff, refname, &buf, &len);
  if (r < 0) {
    /* the file variant must refuse the list as well */
    fd = mkstemp(path); if (fd >= 0) close(fd);
    r = hwloc_topology_diff_export_xml(diff, refname, path); unlink(path);
    printf("xml export=-1 fexport=%d\n", r); return;
  }
  /* strnlen: a cut document may not be terminated inside the reported length */
  printf("xml export=0 refin="); hx(refname); printf(" len=%d strlen=%lu", len, (unsigned long)strnlen(buf, (size_t)(len > 0 ? len : 0)) + 1);
  r = hwloc_topology_diff_load_xmlbuffer(buf, len, &xd, &ref);
  printf(" load=%d same=%d n=%u ref=", r, r < 0 ? 0 : diff_same(diff, xd), r < 0 ? 0 : diff_len(xd)); hx(r < 0 ? NULL : ref);
  if (r == 0 && with_apply) {
    /* the reloaded list applied to a copy of A must give B, and A back in reverse */
    hwloc_topology_t P = NULL; hwloc_topology_diff_t d2 = NULL; int r2;
    hwloc_topology_dup(&P, A);
    r2 = hwloc_topology_diff_apply(P, xd, 0); printf(" xapply=%d", r2);
    r2 = hwloc_topology_diff_build(P, B, 0, &d2); printf(" xrebuild=%d/%u", r2, diff_len(d2)); hwloc_topology_diff_destroy(d2); d2 = NULL;
    r2 = hwloc_topology_diff_apply(P, xd, HWLOC_TOPOLOGY_DIFF_APPLY_REVERSE); printf(" xunapply=%d", r2);
    r2 = hwloc_topology_diff_build(P, A, 0, &d2); printf(" xback=%d/%u", r2, diff_len(d2)); hwloc_topology_diff_destroy(d2);
    hwloc_topology_destroy(P);
  }
  free(ref); ref = NULL; hwloc_topology_diff_destroy(xd); xd = NULL;
  fd = mkstemp(path);
  if (fd >= 0) {
    FILE *f; long fsize = -1; char *fbuf = NULL; int fsame = 0;
    close(fd);
    r = hwloc_topology_diff_export_xml(diff, refname, path);
    printf(" fexport=%d", r);
    f = fopen(path, "rb");
    if (f) {
      fseek(f, 0, SEEK_END); fsize = ftell(f); fseek(f, 0, SEEK_SET);
      fbuf = malloc((size_t)fsize + 1);
      if (fread(fbuf, 1, (size_t)fsize, f) == (size_t)fsize) fsame = (fsize == (long)len - 1) && !memcmp(fbuf, buf, (size_t)fsize);
      fclose(f); free(fbuf);
    }
    printf(" fsize=%ld fsame=%d", fsize, fsame);
    r = hwloc_topology_diff_load_xml(path, &xd, &ref);
    printf(" fload=%d fsamelist=%d fref=", r, r < 0 ? 0 : diff_same(diff, xd)); hx(r < 0 ? NULL : ref);
    free(ref); hwloc_topology_diff_destroy(xd);
    unlink(path);
  }
  { hwloc_topology_diff_t nd = NULL; char *nr = NULL;
    r = hwloc_topology_diff_export_xml(diff, refname, "/nonexistent-hwv-dir/diff.xml");
    printf(" fbad=%d", r);
    r = hwloc_topology_diff_load_xml("/nonexistent-hwv-dir/diff.xml", &nd, &nr);
    printf(" lbad=%d", r);
    if (r == 0) { free(nr); hwloc_topology_diff_destroy(nd); } }
  putchar('\n');
  hwloc_free_xmlbuffer(A, buf);
}

static void do_build(void)
{
  hwloc_topology_diff_t diff = NULL, d2 = NULL; hwloc_topology_t P = NULL; int rc, r2;
  need_B();
  dump_full("A", A); dump_full("B", B);
  dump_state("A", A); dump_state("B", B);
  printf("dobuild\n");
  fflush(stdout);
  rc = hwloc_topology_diff_build(A, B, 0, &diff);
  printf("build %d %u\n", rc, diff_len(diff)); print_diff(diff); fflush(stdout);
  { hwloc_topology_diff_t rd = NULL, e; int rrc, tc = 0;
    rrc = hwloc_topology_diff_build(B, A, 0, &rd);
    for (e = rd; e; e = e->generic.next) if (e->generic.type == HWLOC_TOPOLOGY_DIFF_TOO_COMPLEX) tc = 1;
    printf("revbuild %d %u tc=%d\n", rrc, diff_len(rd), tc); fflush(stdout);
    hwloc_topology_diff_destroy(rd); }
  if (rc == 0) {
    hwloc_topology_dup(&P, A);
    r2 = hwloc_topology_diff_apply(P, diff, 0);
    printf("apply %d\n", r2); dump_state("P1", P); fflush(stdout);
    r2 = hwloc_topology_diff_build(P, B, 0, &d2);
    printf("rebuild %d %u\n", r2, diff_len(d2)); fflush(stdout);
    hwloc_topology_diff_destroy(d2);
    r2 = hwloc_topology_diff_apply(P, diff, HWLOC_TOPOLOGY_DIFF_APPLY_REVERSE);
    printf("unapply %d\n", r2); dump_state("P2", P); fflush(stdout);
    hwloc_topology_destroy(P);
    xml_roundtrip(diff, 1);
    fflush(stdout);
  }
  hwloc_topology_diff_destroy(diff);
}

static void do_hand(unsigned long flags, hwloc_topology_diff_t diff)
{
  hwloc_topology_t P = NULL; int rc;
  hwloc_topology_dup(&P, A);
  rc = hwloc_topology_diff_apply(P, diff, flags);
  printf("hand %d\n", rc); dump_state("H", P); fflush(stdout);
  hwloc_topology_destroy(P);
}

static void free_hand(hwloc_topology_diff_t d)
{
  /* entries whose type is not OBJ_ATTR NAME/INFO own no strings; destroy handles the rest */
  hwloc_topology_diff_destroy(d);
}

static const char *errname(int e) { return e == EINVAL ? "EINVAL" : e == EPERM ? "EPERM" : e == 0 ? "0" : "other"; }

/* the argument checks of build and apply */
static void do_misuse(void)
{
  hwloc_topology_t U = NULL, P = NULL; hwloc_topology_diff_t d = (hwloc_topology_diff_t)(void *)&d, keep; int r, e;
  need_B();
  dump_full("A", A); dump_full("B", B); dump_state("A", A);
  hwloc_topology_init(&U);
  keep = d; errno = 0; r = hwloc_topology_diff_build(U, B, 0, &d); e = errno;
  printf("misuse build-unloaded-first %d %s untouched=%d\n", r, errname(e), d == keep);
  errno = 0; r = hwloc_topology_diff_build(A, U, 0, &d); e = errno;
  printf("misuse build-unloaded-second %d %s untouched=%d\n", r, errname(e), d == keep);
  errno = 0; r = hwloc_topology_diff_build(A, B, 1, &d); e = errno;
  printf("misuse build-flags %d %s untouched=%d\n", r, errname(e), d == keep);
  errno = 0; r = hwloc_topology_diff_apply(U, NULL, 0); e = errno;
  printf("misuse apply-unloaded %d %s\n", r, errname(e));
  hwloc_topology_destroy(U);
  hwloc_topology_dup(&P, A);
  P->adopted_shmem_addr = (void *)P;     /* what hwloc_shmem_topology_adopt() sets; nothing else is read before the check */
  errno = 0; r = hwloc_topology_diff_apply(P, NULL, 0); e = errno;
  P->adopted_shmem_addr = NULL;
  printf("misuse apply-adopted %d %s\n", r, errname(e));
  dump_state("M", P);
  hwloc_topology_destroy(P);
  fflush(stdout);
}

/* an arbitrary document given to the diff importer */
static void do_xmlload(char *arg)
{
  hwloc_topology_diff_t xd = NULL, xd2 = NULL; char *ref = NULL, *ref2 = NULL, *doc, *buf = NULL; int r, len = 0; size_t n;
  { char *sp = strchr(arg, ' '); doc = unhx(sp ? sp + 1 : arg); }
  if (!doc) { printf("xmlload bad\n"); return; }
  n = strlen(doc);
  { char *exact = malloc(n + 1); memcpy(exact, doc, n + 1); free(doc); doc = exact; }   /* exactly sized: ASan sees over-reads */
  r = hwloc_topology_diff_load_xmlbuffer(doc, (int)n + 1, &xd, &ref);
  printf("xmlload %d n=%u ref=", r, r < 0 ? 0 : diff_len(xd)); hx(r < 0 ? NULL : ref); putchar('\n');
  if (r == 0) {
    r = hwloc_topology_diff_export_xmlbuffer(xd, ref, &buf, &len);
    if (r == 0) {
      r = hwloc_topology_diff_load_xmlbuffer(buf, len, &xd2, &ref2);
      printf("xmlreload %d same=%d refsame=%d\n", r, r < 0 ? 0 : diff_same(xd, xd2), r < 0 ? 0 : streq(ref, ref2));
      hwloc_free_xmlbuffer(A, buf); free(ref2); hwloc_topology_diff_destroy(xd2);
    } else printf("xmlreload export=-1\n");
  }
  free(ref); hwloc_topology_diff_destroy(xd); free(doc);
  fflush(stdout);
}

static int run_case(FILE *in)
{
  char line[8192]; int dumped = 0;
  while (fgets(line, sizeof line, in)) {
    size_t n = strlen(line);
    while (n && (line[n - 1] == '\n' || line[n - 1] == '\r')) line[--n] = 0;
    if (!strcmp(line, "end")) break;
    if (!strncmp(line, "xmlbackend ", 11)) {
      char e[8] = "1", im[8] = ""; sscanf(line + 11, "%7s %7s", e, im);
      setenv("HWLOC_LIBXML_EXPORT", e, 1); setenv("HWLOC_LIBXML_IMPORT", im[0] ? im : e, 1);
    }
    else if (!strncmp(line, "refname ", 8)) { free(g_refname); g_refname = unhx(line + 8); g_refname_set = 1; }
    else if (!strcmp(line, "xmlverbose")) setenv("HWLOC_XML_VERBOSE", "1", 1);
    else if (!strncmp(line, "xmlhand ", 8)) {
      unsigned cnt = 0, k; hwloc_topology_diff_t first = NULL, last = NULL, e2;
      sscanf(line + 8, "%u", &cnt);
      for (k = 0; k < cnt; k++) {
        if (!fgets(line, sizeof line, in)) break;
        e2 = parse_entry(line);
        if (!e2) { printf("badentry %s", line); continue; }
        if (first) last->generic.next = e2; else first = e2;
        last = e2; e2->generic.next = NULL;
      }
      printf("xmlhand %u\n", cnt);
      fflush(stdout);
      xml_roundtrip(first, 0);
      hwloc_topology_diff_destroy(first);
    }
    else if (!strncmp(line, "topo ", 5)) {
      hwloc_topology_init(&A);
      hwloc_topology_set_all_types_filter(A, HWLOC_TYPE_FILTER_KEEP_ALL);
      { char *spec = apply_filters(A, line + 5);
        if (!strncmp(spec, "synthetic ", 10)) { if (hwloc_topology_set_synthetic(A, spec + 10) < 0) { printf("topo error\n"); return 0; } }
        else if (!strncmp(spec, "xml ", 4)) { if (hwloc_topology_set_xml(A, spec + 4) < 0) { printf("topo error\n"); return 0; } } }
      if (hwloc_topology_load(A) < 0) { printf("topo error\n"); return 0; }
    } else if (!A) { printf("notopo\n"); return 0; }
    else if (!strncmp(line, "topob ", 6)) {
      char *spec = line + 6; int noio = 0;
      if (!strncmp(spec, "noio ", 5)) { noio = 1; spec += 5; }
      if (B) hwloc_topology_destroy(B);
      hwloc_topology_init(&B);
      hwloc_topology_set_all_types_filter(B, HWLOC_TYPE_FILTER_KEEP_ALL);
      if (noio) hwloc_topology_set_io_types_filter(B, HWLOC_TYPE_FILTER_KEEP_NONE);
      spec = apply_filters(B, spec);
      if (!strncmp(spec, "synthetic ", 10)) { if (hwloc_topology_set_synthetic(B, spec + 10) < 0) { printf("topo error\n"); return 0; } }
      else if (!strncmp(spec, "xml ", 4)) { if (hwloc_topology_set_xml(B, spec + 4) < 0) { printf("topo error\n"); return 0; } }
      if (hwloc_topology_load(B) < 0) { printf("topo error\n"); return 0; }
    }
    else if (!strcmp(line, "misuse")) do_misuse();
    else if (!strncmp(line, "xmlload ", 8)) do_xmlload(line + 8);
    else if (!strncmp(line, "a ", 2)) { if (do_edit(A, line + 2) < 0) printf("editfail %s\n", line); }
    else if (!strncmp(line, "b ", 2)) { need_B(); if (do_edit(B, line + 2) < 0) printf("editfail %s\n", line); }
    else if (!strcmp(line, "build")) { do_build(); dumped = 1; }
    else if (!strncmp(line, "hand ", 5)) {
      unsigned long flags; unsigned cnt, k; hwloc_topology_diff_t first = NULL, last = NULL, e;
      if (sscanf(line + 5, "%lu %u", &flags, &cnt) != 2) { printf("badhand\n"); return 0; }
      if (!dumped) { dump_full("A", A); dump_state("A", A); dumped = 1; }
      printf("%s\n", line);
      for (k = 0; k < cnt; k++) {
        if (!fgets(line, sizeof line, in)) break;
        e = parse_entry(line);
        if (!e) { printf("badentry %s", line); continue; }
        fputs(line, stdout);
        if (first) last->generic.next = e; else first = e;
        last = e; e->generic.next = NULL;
      }
      fflush(stdout);
      do_hand(flags, first);
      free_hand(first);
    }
    fflush(stdout);
  }
  undo_cuts();
  free(g_refname);
  if (B) hwloc_topology_destroy(B);
  if (A) hwloc_topology_destroy(A);
  return 0;
}

int main(void)
{
  char line[8192];
  setvbuf(stdout, NULL, _IOFBF, 1 << 16);
  while (fgets(line, sizeof line, stdin)) {
    pid_t pid; int st; char *buf = NULL; size_t len = 0, cap = 0;
    if (strncmp(line, "case ", 5)) continue;
    fputs(line, stdout); fflush(stdout);
    /* the parent reads the whole case; the child runs it from memory */
    while (fgets(line, sizeof line, stdin)) {
      size_t n = strlen(line);
      if (len + n + 1 > cap) { cap = (len + n + 1) * 2; buf = realloc(buf, cap); }
      memcpy(buf + len, line, n + 1); len += n;
      if (!strcmp(line, "end\n")) break;
    }
    pid = fork();
    if (pid == 0) {
      FILE *f = fmemopen(buf, len, "r");
      run_case(f);
      fclose(f); free(buf);
      fflush(stdout);
      exit(0);   /* runs the leak check */
    }
    free(buf);
    waitpid(pid, &st, 0);
    if (WIFSIGNALED(st)) printf("X sig=%d\n", WTERMSIG(st));
    else if (WEXITSTATUS(st)) printf("X exit=%d\n", WEXITSTATUS(st));
    else printf("X ok\n");
    fflush(stdout);
  }
  return 0;
}
