/* C15 harness: executes a case script on the real cpukinds code.
 * Same script and same canonical output lines as ocaml/drv_c15.ml.
 *
 * script lines
 *   case <name> <nbpus | synthetic description with '_' for ' '> [model-side layout tokens, ignored here]
 *                                 new topology "pu:<nbpus>" or the given description, HWLOC_CPUKINDS_RANKING unset
 *   flagcase <name> ...           like case, but the topology (and every XML reload of it) is loaded with
 *                                 HWLOC_TOPOLOGY_FLAG_NO_CPUKINDS: kinds from the OS / XML are ignored, the application's are not
 *   env <hexstring|->             setenv/unsetenv HWLOC_CPUKINDS_RANKING
 *   reg <set> <forced> <flags> <NULL | n name value ...>     hwloc_cpukinds_register
 *   restrict <set> [flags]        hwloc_topology_restrict(set, flags) (a nodeset with HWLOC_RESTRICT_FLAG_BYNODESET)
 *   getby <set> <flags> / getnr <flags> / getinfo <id> <flags>
 *   rank                          hwloc_topology_refresh
 *   dup                           hwloc_topology_dup, continue on the copy
 *   xml                           export to an XML buffer, reload from it
 *   ireg <set> <forced> <flags> <NULL | n name value ...>    hwloc_internal_cpukinds_register called the way
 *                                 the backends do (any flags, no ranking afterwards)
 *   adopt                         hwloc_shmem_topology_write to a temporary file + hwloc_shmem_topology_adopt,
 *                                 continue on the adopted (read-only) topology
 *   caseroot <name> <dir> <homogeneous|-> <ranking|-> [maxfreq|-]   new topology from a Linux sysfs snapshot (HWLOC_FSROOT),
 *                                 with HWLOC_CPUKINDS_HOMOGENEOUS / HWLOC_CPUKINDS_RANKING / HWLOC_CPUKINDS_MAXFREQ set as given;
 *                                 the kinds are those the Linux backend registers
 * sets:  NULL | f:<hex> (finite) | i:<hex> (infinite; hex = the *unset* bits)
 * strings are hex-encoded bytes, "-" is the empty string.
 * Sets are read and printed through raw words only (set_ith_ulong /
 * to_ith_ulong), never through the bitmap printers. */
#include "private/autogen/config.h"
#include "hwloc.h"
#include "private/private.h"
#include "hwloc/shmem.h"
#include <stdio.h>
#include <unistd.h>
#include <sys/mman.h>
#include <stdlib.h>
#include <string.h>
#include <errno.h>

#define MAXTOK 600
static char *tok[MAXTOK];
static int ntok;

static hwloc_topology_t topo;
static unsigned long topo_flags;

static int hexval(int c) { return c >= '0' && c <= '9' ? c - '0' : c >= 'a' && c <= 'f' ? c - 'a' + 10 : c >= 'A' && c <= 'F' ? c - 'A' + 10 : -1; }

static char *unhex(const char *h)
{
  size_t n, i;
  char *s;
  if (!strcmp(h, "-")) return strdup("");
  n = strlen(h) / 2;
  s = malloc(n + 1);
  for (i = 0; i < n; i++) s[i] = (char)(hexval(h[2*i]) * 16 + hexval(h[2*i+1]));
  s[n] = 0;
  return s;
}

static void puthex(const char *s)
{
  if (!*s) { putchar('-'); return; }
  for (; *s; s++) printf("%02x", (unsigned char)*s);
}

/* parse NULL | f:<hex> | i:<hex> */
static hwloc_bitmap_t parse_set(const char *t)
{
  hwloc_bitmap_t b;
  int inf;
  const char *h;
  size_t len, w, nw;
  if (!strcmp(t, "NULL")) return NULL;
  inf = (t[0] == 'i');
  h = t + 2;
  len = strlen(h);
  b = hwloc_bitmap_alloc();
  if (inf) hwloc_bitmap_fill(b);
  nw = (len + 15) / 16;
  for (w = 0; w < nw; w++) {
    unsigned long v = 0;
    size_t hi = len - 16 * w, lo = hi >= 16 ? hi - 16 : 0, i;
    for (i = lo; i < hi; i++) v = (v << 4) | (unsigned long) hexval(h[i]);
    if (inf) v = ~v;
    hwloc_bitmap_set_ith_ulong(b, (unsigned) w, v);
  }
  return b;
}

static void print_set(hwloc_const_bitmap_t b)
{
  int inf, last, w, started = 0;
  if (!b) { printf("NULL"); return; }
  inf = hwloc_bitmap_last(b) == -1 && !hwloc_bitmap_iszero(b);
  last = inf ? hwloc_bitmap_last_unset(b) : hwloc_bitmap_last(b);
  printf(inf ? "i:" : "f:");
  for (w = last < 0 ? -1 : last / (int)(8 * sizeof(unsigned long)); w >= 0; w--) {
    unsigned long v = hwloc_bitmap_to_ith_ulong(b, (unsigned) w);
    if (inf) v = ~v;
    if (!started) { if (v) { printf("%lx", v); started = 1; } }
    else printf("%016lx", v);
  }
  if (!started) putchar('0');
}

static const char *errclass(int rc)
{
  if (rc >= 0) return "OK";
  switch (errno) {
  case EINVAL: return "EINVAL";
  case ENOENT: return "ENOENT";
  case EXDEV: return "EXDEV";
  case ENOMEM: return "ENOMEM";
  case EPERM: return "EPERM";
  default: return "EOTHER";
  }
}

static void dump(void)
{
  int n = hwloc_cpukinds_get_nr(topo, 0), i;
  unsigned j;
  printf("nr=%d topo=", n);
  print_set(hwloc_get_root_obj(topo)->cpuset);
  {
    /* NUMA nodes by os index (their order in the level is not this property's business) */
    int nn = hwloc_get_nbobjs_by_type(topo, HWLOC_OBJ_NUMANODE), a, b2, first = 1;
    unsigned last = 0;
    printf(" nodes=");
    for (a = 0; a < nn; a++) {
      hwloc_obj_t best = NULL;
      for (b2 = 0; b2 < nn; b2++) {
        hwloc_obj_t o = hwloc_get_obj_by_type(topo, HWLOC_OBJ_NUMANODE, (unsigned) b2);
        if ((first || o->os_index > last) && (!best || o->os_index < best->os_index)) best = o;
      }
      if (!best) break;
      printf("%s%u=", first ? "" : ",", best->os_index);
      print_set(best->cpuset);
      last = best->os_index;
      first = 0;
    }
    if (first) putchar('-');
  }
  putchar('\n');
  for (i = 0; i < n; i++) {
    hwloc_bitmap_t s = hwloc_bitmap_alloc();
    int eff = -12345;
    struct hwloc_infos_s *inf = NULL;
    int rc = hwloc_cpukinds_get_info(topo, (unsigned) i, s, &eff, &inf, 0);
    printf("k %d rc=%d ", i, rc);
    print_set(s);
    printf(" eff=%d infos=", eff);
    for (j = 0; inf && j < inf->count; j++) {
      if (j) putchar(',');
      puthex(inf->array[j].name); putchar('='); puthex(inf->array[j].value);
    }
    putchar('\n');
    hwloc_bitmap_free(s);
  }
  /* representation level (private fields) */
  printf("p alloc=%u", topo->nr_cpukinds_allocated);
  for (i = 0; i < (int) topo->nr_cpukinds; i++)
    printf(" %d:forced=%d:rank=%llx:arr=%d", i, topo->cpukinds[i].forced_efficiency,
           (unsigned long long) topo->cpukinds[i].ranking_value, topo->cpukinds[i].infos.array != NULL);
  putchar('\n');
  fflush(stdout);
}

static void new_topology(const char *what)
{
  char desc[256], *p;
  if (topo) hwloc_topology_destroy(topo);
  unsetenv("HWLOC_CPUKINDS_RANKING");
  if (what[0] >= '0' && what[0] <= '9') snprintf(desc, sizeof desc, "pu:%s", what);
  else snprintf(desc, sizeof desc, "%s", what);
  for (p = desc; *p; p++) if (*p == '_') *p = ' ';
  hwloc_topology_init(&topo);
  hwloc_topology_set_flags(topo, topo_flags);
  if (hwloc_topology_set_synthetic(topo, desc) < 0) { printf("bad synthetic description %s\n", desc); exit(3); }
  if (hwloc_topology_load(topo) < 0) { printf("load failed\n"); exit(3); }
}

int main(int argc, char *argv[])
{
  static char line[1 << 16];
  FILE *in = argc > 1 ? fopen(argv[1], "r") : stdin;
  if (!in) return 2;
  while (fgets(line, sizeof line, in)) {
    char *p;
    ntok = 0;
    for (p = strtok(line, " \n"); p && ntok < MAXTOK; p = strtok(NULL, " \n")) tok[ntok++] = p;
    if (!ntok) continue;
    if (!strcmp(tok[0], "case") || !strcmp(tok[0], "flagcase")) {
      topo_flags = tok[0][0] == 'f' ? HWLOC_TOPOLOGY_FLAG_NO_CPUKINDS : 0;
      new_topology(tok[2]);
      printf("case %s\n", tok[1]);
      dump();
      continue;
    }
    if (!strcmp(tok[0], "caseroot")) {
      if (topo) hwloc_topology_destroy(topo);
      topo = NULL;
      topo_flags = 0;
      setenv("HWLOC_FSROOT", tok[2], 1);
      setenv("HWLOC_COMPONENTS", "linux,stop", 1);
      setenv("HWLOC_THISSYSTEM", "0", 1);
      if (strcmp(tok[3], "-")) setenv("HWLOC_CPUKINDS_HOMOGENEOUS", tok[3], 1); else unsetenv("HWLOC_CPUKINDS_HOMOGENEOUS");
      if (strcmp(tok[4], "-")) { char *v = unhex(tok[4]); setenv("HWLOC_CPUKINDS_RANKING", v, 1); free(v); } else unsetenv("HWLOC_CPUKINDS_RANKING");
      if (ntok > 5 && strcmp(tok[5], "-")) setenv("HWLOC_CPUKINDS_MAXFREQ", tok[5], 1); else unsetenv("HWLOC_CPUKINDS_MAXFREQ");
      hwloc_topology_init(&topo);
      if (hwloc_topology_load(topo) < 0) { printf("case %s\nload failed\n", tok[1]); hwloc_topology_destroy(topo); topo = NULL; }
      else { printf("case %s\n", tok[1]); dump(); }
      unsetenv("HWLOC_FSROOT"); unsetenv("HWLOC_COMPONENTS"); unsetenv("HWLOC_THISSYSTEM"); unsetenv("HWLOC_CPUKINDS_HOMOGENEOUS"); unsetenv("HWLOC_CPUKINDS_MAXFREQ");
      continue;
    }
    if (!topo) continue;
    if (!strcmp(tok[0], "env")) {
      if (!strcmp(tok[1], "-") ) unsetenv("HWLOC_CPUKINDS_RANKING");
      else { char *v = unhex(tok[1]); setenv("HWLOC_CPUKINDS_RANKING", v, 1); free(v); }
      printf("env\n");
      fflush(stdout);
    } else if (!strcmp(tok[0], "reg") || !strcmp(tok[0], "ireg")) {
      int internal = tok[0][0] == 'i';
      hwloc_bitmap_t s = parse_set(tok[1]);
      int forced = atoi(tok[2]);
      unsigned long flags = strtoul(tok[3], NULL, 10);
      struct hwloc_infos_s infos, *ip = NULL;
      int rc;
      unsigned i;
      memset(&infos, 0, sizeof infos);
      if (strcmp(tok[4], "NULL")) {
        unsigned n = (unsigned) atoi(tok[4]);
        infos.array = calloc(n ? n : 1, sizeof(*infos.array));
        infos.count = infos.allocated = n;
        for (i = 0; i < n; i++) {
          infos.array[i].name = unhex(tok[5 + 2*i]);
          infos.array[i].value = unhex(tok[6 + 2*i]);
        }
        ip = &infos;
      }
      errno = 0;
      if (internal) {
        /* the callee owns the cpuset, except when it rejects the flags (it then returns without freeing it) */
        int keep = s && !hwloc_bitmap_iszero(s) && (flags & ~HWLOC_CPUKINDS_REGISTER_FLAG_OVERWRITE_FORCED_EFFICIENCY);
        rc = hwloc_internal_cpukinds_register(topo, s, forced, ip, flags);
        if (!keep) s = NULL;
      } else
        rc = hwloc_cpukinds_register(topo, s, forced, ip, flags);
      printf("%s rc=%d err=%s\n", tok[0], rc, errclass(rc));
      for (i = 0; i < infos.count; i++) { free(infos.array[i].name); free(infos.array[i].value); }
      free(infos.array);
      hwloc_bitmap_free(s);
      dump();
    } else if (!strcmp(tok[0], "restrict")) {
      hwloc_bitmap_t s = parse_set(tok[1]);
      int rc;
      errno = 0;
      rc = hwloc_topology_restrict(topo, s, ntok > 2 ? strtoul(tok[2], NULL, 10) : 0);
      printf("restrict rc=%d err=%s\n", rc, errclass(rc));
      hwloc_bitmap_free(s);
      dump();
    } else if (!strcmp(tok[0], "getby")) {
      hwloc_bitmap_t s = parse_set(tok[1]);
      int rc;
      errno = 0;
      rc = hwloc_cpukinds_get_by_cpuset(topo, s, strtoul(tok[2], NULL, 10));
      printf("getby rc=%d err=%s\n", rc, errclass(rc));
      hwloc_bitmap_free(s);
      fflush(stdout);
    } else if (!strcmp(tok[0], "getnr")) {
      int rc;
      errno = 0;
      rc = hwloc_cpukinds_get_nr(topo, strtoul(tok[1], NULL, 10));
      printf("getnr rc=%d err=%s\n", rc, errclass(rc));
      fflush(stdout);
    } else if (!strcmp(tok[0], "getinfo")) {
      hwloc_bitmap_t s = hwloc_bitmap_alloc();
      int eff = 0, rc;
      struct hwloc_infos_s *inf = NULL;
      errno = 0;
      rc = hwloc_cpukinds_get_info(topo, (unsigned) strtoul(tok[1], NULL, 10), s, &eff, &inf, strtoul(tok[2], NULL, 10));
      printf("getinfo rc=%d err=%s", rc, errclass(rc));
      if (!rc) { printf(" "); print_set(s); printf(" eff=%d ninfos=%u", eff, inf->count); }
      putchar('\n');
      hwloc_bitmap_free(s);
      fflush(stdout);
    } else if (!strcmp(tok[0], "rank")) {
      int rc = (errno = 0, hwloc_topology_refresh(topo));
      printf("rank rc=%d err=%s\n", rc, errclass(rc));
      dump();
    } else if (!strcmp(tok[0], "dup")) {
      hwloc_topology_t n = NULL;
      int rc = hwloc_topology_dup(&n, topo);
      if (!rc) { hwloc_topology_destroy(topo); topo = n; }
      printf("dup rc=%d err=%s\n", rc, errclass(rc));
      dump();
    } else if (!strcmp(tok[0], "adopt")) {
      size_t len = 0;
      int rc = hwloc_shmem_topology_get_length(topo, &len, 0);
      char path[] = "/tmp/hwv-c15-shm-XXXXXX";
      int fd = rc ? -1 : mkstemp(path);
      hwloc_topology_t n = NULL;
      if (fd >= 0) {
        void *addr;
        unlink(path);
        if (ftruncate(fd, (off_t) len) < 0) rc = -1;
        addr = mmap(NULL, len, PROT_NONE, MAP_PRIVATE | MAP_ANONYMOUS, -1, 0);
        if (addr == MAP_FAILED) rc = -1;
        else munmap(addr, len);
        if (!rc) rc = hwloc_shmem_topology_write(topo, fd, 0, addr, len, 0);
        if (!rc) rc = hwloc_shmem_topology_adopt(&n, fd, 0, addr, len, 0);
        if (!rc) { hwloc_topology_destroy(topo); topo = n; }
        close(fd);
      } else rc = -1;
      printf("adopt rc=%d err=%s\n", rc, errclass(rc));
      dump();
    } else if (!strcmp(tok[0], "xml")) {
      char *buf = NULL;
      int len = 0, rc;
      hwloc_topology_t n = NULL;
      rc = hwloc_topology_export_xmlbuffer(topo, &buf, &len, 0);
      if (!rc) {
        hwloc_topology_init(&n);
        hwloc_topology_set_flags(n, topo_flags);
        rc = hwloc_topology_set_xmlbuffer(n, buf, len);
        if (!rc) rc = hwloc_topology_load(n);
        if (!rc) { hwloc_topology_destroy(topo); topo = n; }
        else hwloc_topology_destroy(n);
        hwloc_free_xmlbuffer(topo, buf);
      }
      printf("xml rc=%d err=%s\n", rc, errclass(rc));
      dump();
    }
  }
  if (topo) hwloc_topology_destroy(topo);
  printf("end\n");
  return 0;
}
