/* C06 correspondence harness: the REAL nolibxml tokenizer (the static functions
 * of the current hwloc/topology-xml-nolibxml.c, included here) driven by a
 * generic client that visits a whole document and prints the token stream.
 * coq/Text/XmlLex.v defines the same client ([walk]) over the model; the two
 * outputs must be identical.
 *
 * kind b64: the file holds lines "<targsize> <text>"; hwloc_decode_from_base64(text, exactly-sized block, targsize)
 * is called for each and "B <rc> <hex of the rc decoded bytes>" printed (same lines from the model decode_mem).
 * stdin: one case per line "<id> <kind topo|diff|b64> <path>"; each case runs in a
 * forked child (an out-of-bounds access is an ASan report that kills only it).
 * stdout per case:  CASE <id> / events / ENDCASE
 *   I <major> <minor> | IFAIL | A <hexname> <hexvalue> | T <hextag> <closed> | FE | G <ret> <hextext> | C <1 ok|0>
 */
#include HV_NOLIBXML_C
#include <stdio.h>
#include <stdlib.h>
#include <sys/wait.h>
#include <sys/resource.h>

static void hex(const char *s)
{
  if (!*s) { putchar('-'); return; }
  for (; *s; s++) printf("%02x", (unsigned char)*s);
}

static int walk(struct hwloc__xml_import_state_s *state)
{
  hwloc__nolibxml_import_state_data_t nstate = (void*) state->data;
  char *name, *value; int have_len = 0, lenv = 0, r;
  (void)nstate;
  while (hwloc__nolibxml_import_next_attr(state, &name, &value) == 0) {
    printf("A "); hex(name); putchar(' '); hex(value); putchar('\n');
    if (!strcmp(name, "length")) { have_len = 1; lenv = atoi(value); }
  }
  if (have_len) {
    const char *buf = "";
    r = hwloc__nolibxml_import_get_content(state, &buf, (size_t) lenv);
    if (r < 0) { printf("G -1 -\n"); return -1; }
    printf("G %d ", r); hex(buf); putchar('\n');
    hwloc__nolibxml_import_close_content(state);
  }
  while (1) {
    struct hwloc__xml_import_state_s child; char *tag = NULL;
    hwloc__nolibxml_import_state_data_t nchild = (void*) child.data;
    r = hwloc__nolibxml_import_find_child(state, &child, &tag);
    if (r < 0) { printf("FE\n"); return -1; }
    if (!r) break;
    printf("T "); hex(tag); printf(" %d\n", nchild->closed);
    if (walk(&child) < 0) return -1;
    hwloc__nolibxml_import_close_child(&child);
  }
  r = hwloc__nolibxml_import_close_tag(state);
  printf("C %d\n", r == 0);
  return r == 0 ? 0 : -1;
}

static char *read_file(const char *path, size_t *lenp)
{
  FILE *f = fopen(path, "rb"); long len; char *b;
  if (!f) return NULL;
  fseek(f, 0, SEEK_END); len = ftell(f); fseek(f, 0, SEEK_SET);
  b = malloc((size_t)len + 1);
  if (len && fread(b, 1, (size_t)len, f) != (size_t)len) { fclose(f); free(b); return NULL; }
  b[len] = 0; fclose(f); *lenp = (size_t)len; return b;
}

static void do_b64(char *txt)
{
  char *l = txt;
  while (l && *l) {
    char *nl = strchr(l, '\n'), *sp; if (nl) *nl = 0;
    sp = strchr(l, ' ');
    if (sp) {
      size_t t = (size_t) atoi(l); char *block = malloc(t ? t : 1); int rc, i;
      char *src = strdup(sp + 1);                       /* exactly-sized source as well */
      rc = hwloc_decode_from_base64(src, t ? block : block, t);
      if (rc < 0) printf("B -1\n");
      else { printf("B %d ", rc); if (!rc) putchar('-'); for (i = 0; i < rc; i++) printf("%02x", (unsigned char) block[i]); putchar('\n'); }
      free(src); free(block);
    }
    l = nl ? nl + 1 : NULL;
  }
}

static void do_case(const char *kind, const char *path)
{
  size_t len = 0; char *txt = read_file(path, &len);
  struct hwloc_xml_backend_data_s bdata; struct hwloc__xml_import_state_s state;
  if (!txt) { printf("NOFILE\n"); return; }
  if (!strcmp(kind, "b64")) { do_b64(txt); free(txt); return; }
  memset(&bdata, 0, sizeof(bdata)); memset(&state, 0, sizeof(state));
  state.global = &bdata; bdata.msgprefix = (char *) "tok";
  if (!strcmp(kind, "topo")) {
    /* the real backend_init makes the exactly-sized copy (buflen = len+1, last byte NUL) */
    if (hwloc_nolibxml_backend_init(&bdata, NULL, txt, (int) len + 1) < 0) { printf("INITERR\n"); free(txt); return; }
    free(txt);
    if (hwloc_nolibxml_look_init(&bdata, &state) < 0) printf("IFAIL\n");
    else { printf("I %u %u\n", bdata.version_major, bdata.version_minor); walk(&state); }
    hwloc_nolibxml_backend_exit(&bdata);
  } else {
    /* prologue of hwloc_nolibxml_import_diff (inline there): exactly-sized copy, header skipping, root state */
    hwloc__nolibxml_import_state_data_t nstate = (void*) state.data;
    struct hwloc__xml_import_state_s child; char *tag = NULL; char *tmp; int r;
    char *buffer = malloc(len + 1); memcpy(buffer, txt, len + 1); buffer[len] = 0; free(txt);
    tmp = buffer;
    while (!strncmp(tmp, "<?xml ", 6) || !strncmp(tmp, "<!DOCTYPE ", 10)) {
      tmp = strchr(tmp, '\n');
      if (!tmp) { printf("IFAIL\n"); free(buffer); return; }
      tmp++;
    }
    state.parent = NULL; nstate->closed = 0; nstate->tagbuffer = tmp; nstate->tagname = NULL; nstate->attrbuffer = NULL;
    r = hwloc__nolibxml_import_find_child(&state, &child, &tag);
    if (r < 0) printf("FE\n");
    else if (!r) printf("IFAIL\n");
    else {
      hwloc__nolibxml_import_state_data_t nchild = (void*) child.data;
      printf("T "); hex(tag); printf(" %d\n", nchild->closed);
      walk(&child);
    }
    free(buffer);
  }
}

int main(void)
{
  char *line = NULL; size_t cap = 0;
  while (getline(&line, &cap, stdin) > 0) {
    char id[64], kind[16], path[4096]; pid_t pid; int st = 0;
    if (sscanf(line, "%63s %15s %4095[^\n]", id, kind, path) != 3) continue;
    fflush(stdout);
    pid = fork();
    if (!pid) {
      struct rlimit rl; rl.rlim_cur = 5; rl.rlim_max = 6; setrlimit(RLIMIT_CPU, &rl);
      printf("CASE %s\n", id);
      do_case(kind, path);
      printf("ENDCASE\n");
      fflush(stdout);
      _exit(0);
    }
    waitpid(pid, &st, 0);
    if (!(WIFEXITED(st) && WEXITSTATUS(st) == 0)) { printf("\nDIED %s\n", id); fflush(stdout); }
  }
  free(line);
  return 0;
}
