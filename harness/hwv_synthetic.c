/* C07 harness: synthetic descriptions on the REAL library.
 * stdin lines: "<id> <mode> <hex bytes of the description>"   mode p = hwloc_topology_set_synthetic only,
 *   l = + load, per-object lines, export contract for all 16 flag words x buffer lengths, re-import, re-export.
 * Output lines mirror ocaml/drv_c07.ml ("CASE", "set", "loaded", "O", "M"); "rt" lines are checked by checks/c07.py.
 * The description sits in an exactly-sized malloc block so that ASan sees any read past its terminator. */
#include "hwloc.h"
#include <stdio.h>
#include <stdlib.h>
#include <string.h>
#include <errno.h>
#include <unistd.h>
#if defined(__SANITIZE_ADDRESS__)
#include <sanitizer/lsan_interface.h>
#endif

static int hexv(int c) { return c <= '9' ? c - '0' : c - 'a' + 10; }

static void set_filters(hwloc_topology_t t)
{
  hwloc_topology_set_icache_types_filter(t, HWLOC_TYPE_FILTER_KEEP_ALL);
  hwloc_topology_set_type_filter(t, HWLOC_OBJ_MEMCACHE, HWLOC_TYPE_FILTER_KEEP_ALL);
}

static void print_pus(hwloc_obj_t o)
{
  int first = 1; unsigned i;
  hwloc_bitmap_foreach_begin(i, o->cpuset) { printf("%s%u", first ? "" : ",", i); first = 0; } hwloc_bitmap_foreach_end();
}

static void print_objects(hwloc_topology_t t)
{
  int depth = hwloc_topology_get_depth(t), d;
  hwloc_obj_t o;
  for (d = 1; d < depth; d++) {
    hwloc_obj_type_t ty = hwloc_get_depth_type(t, d);
    /* Group lines are compared one way only (model's kept groups must be present): the core adds / merges Groups */
    for (o = hwloc_get_obj_by_depth(t, d, 0); o; o = o->next_cousin) {
      printf("O %d %u %llu ", (int)ty, o->os_index, hwloc_obj_type_is_cache(ty) ? (unsigned long long)o->attr->cache.size : 0ULL);
      print_pus(o); printf("\n");
    }
  }
  for (o = hwloc_get_obj_by_type(t, HWLOC_OBJ_NUMANODE, 0); o; o = o->next_cousin) {
    unsigned long long msc = 0; hwloc_obj_t p = o->parent;
    while (p && p->type == HWLOC_OBJ_MEMCACHE) { msc += p->attr->cache.size; p = p->parent; }
    printf("M %u %llu %llu ", o->os_index, (unsigned long long)o->attr->numanode.local_memory, msc);
    print_pus(o); printf("\n");
  }
}

/* signature used by the round trip (what the property promises for this flag word) */
static char *sig(hwloc_topology_t t, unsigned long flags, int nomem)
{
  size_t cap = 1 << 16, len = 0; char *b = malloc(cap);
  int depth = hwloc_topology_get_depth(t), d; hwloc_obj_t o;
  int attrs = !(flags & HWLOC_TOPOLOGY_EXPORT_SYNTHETIC_FLAG_NO_ATTRS);
  int oldtypes = !!(flags & (HWLOC_TOPOLOGY_EXPORT_SYNTHETIC_FLAG_NO_EXTENDED_TYPES|HWLOC_TOPOLOGY_EXPORT_SYNTHETIC_FLAG_V1));
  int mem = !(flags & (HWLOC_TOPOLOGY_EXPORT_SYNTHETIC_FLAG_V1|HWLOC_TOPOLOGY_EXPORT_SYNTHETIC_FLAG_IGNORE_MEMORY));
#define ADD(...) do { if (len + 256 > cap) { cap *= 2; b = realloc(b, cap); } len += snprintf(b + len, cap - len, __VA_ARGS__); } while (0)
  for (d = 0; d < depth; d++) {
    hwloc_obj_type_t ty = hwloc_get_depth_type(t, d);
    if (ty == HWLOC_OBJ_GROUP || (oldtypes && ty == HWLOC_OBJ_DIE)) continue;
    ADD("|%d:%u", (int)ty, hwloc_get_nbobjs_by_depth(t, d));
    if (attrs && hwloc_obj_type_is_cache(ty)) {
      hwloc_obj_t c0 = hwloc_get_obj_by_depth(t, d, 0); unsigned long long sz = c0->attr->cache.size;
      if (!sz) sz = c0->attr->cache.depth == 1 ? 32768ULL : (256ULL * 1024) << (2 * c0->attr->cache.depth);   /* size 0 is not exported: synthetic default */
      ADD("s%llu", sz);
    }
    if (attrs && ty == HWLOC_OBJ_PU) for (o = hwloc_get_obj_by_depth(t, d, 0); o; o = o->next_cousin) ADD(",%u", o->os_index);
  }
  if (mem) {
    ADD("|N%u", hwloc_get_nbobjs_by_type(t, HWLOC_OBJ_NUMANODE));
    for (o = hwloc_get_obj_by_type(t, HWLOC_OBJ_NUMANODE, 0); o; o = o->next_cousin) {
      ADD(";w%d", hwloc_bitmap_weight(o->cpuset));
      if (attrs) ADD("i%um%llu", o->os_index, nomem ? 0ULL : o->attr->numanode.local_memory ? (unsigned long long)o->attr->numanode.local_memory : 1073741824ULL /* memory 0 is not exported: synthetic default */);
    }
  }
  return b;
}

static unsigned long rt_off = 0;   /* 1000*(k+1) while round-tripping the k-th zero-attribute variant */
static void roundtrip(hwloc_topology_t t)
{
  unsigned long flags;
  for (flags = 0; flags < 16; flags++) {
    int n = hwloc_topology_export_synthetic(t, NULL, 0, flags), r, bad = 0;
    char *full, *s1, *s2, *again; size_t bl; hwloc_topology_t t2;
    if (n < 0) { printf("rt f=%lu export-fails\n", flags + rt_off); continue; }
    full = malloc(n + 1); memset(full, 0x55, n + 1);
    r = hwloc_topology_export_synthetic(t, full, n + 1, flags);
    if (r != n || strlen(full) != (size_t)n) { printf("rt f=%lu FAIL contract-exact ret=%d n=%d\n", flags + rt_off, r, n); free(full); continue; }
    for (bl = 0; bl <= (size_t)n + 2 && !bad; bl++) {
      char *b; size_t k;
      if (n > 96 && bl > 4 && bl < (size_t)n - 2 && (bl * 7 + flags) % 13) continue;   /* long strings: a deterministic subset */
      b = bl ? malloc(bl) : NULL;
      if (bl) memset(b, 0x55, bl);
      r = hwloc_topology_export_synthetic(t, b, bl, flags);
      if (r != n) { printf("rt f=%lu FAIL contract-ret buflen=%zu ret=%d n=%d\n", flags + rt_off, bl, r, n); bad = 1; }
      else if (bl) {
        k = (size_t)n < bl - 1 ? (size_t)n : bl - 1;
        if (b[k] != 0) { printf("rt f=%lu FAIL contract-nul buflen=%zu\n", flags + rt_off, bl); bad = 1; }
        else if (memcmp(b, full, k)) { printf("rt f=%lu FAIL contract-prefix buflen=%zu\n", flags + rt_off, bl); bad = 1; }
        else { size_t z; for (z = k + 1; z < bl; z++) if ((unsigned char)b[z] != 0x55) { printf("rt f=%lu FAIL contract-tail-written buflen=%zu at=%zu\n", flags + rt_off, bl, z); bad = 1; break; } }
      }
      free(b);
    }
    if (bad) { free(full); continue; }
    hwloc_topology_init(&t2); set_filters(t2);
    if (hwloc_topology_set_synthetic(t2, full) < 0 || hwloc_topology_load(t2) < 0) {
      printf("rt f=%lu FAIL reimport-rejected %s\n", flags + rt_off, full);
      hwloc_topology_destroy(t2); free(full); continue;
    }
    /* partially zeroed variants have heterogeneous NUMA sizes, of which the export keeps the first parent's only (known limitation) */
    s1 = sig(t, flags, rt_off == 2000 || rt_off == 3000); s2 = sig(t2, flags, rt_off == 2000 || rt_off == 3000);
    if (strcmp(s1, s2)) {
      char *m1 = sig(t, flags, 1), *m2 = sig(t2, flags, 1);
      printf("rt f=%lu FAIL %s %s\n", flags + rt_off, strcmp(m1, m2) ? "structure" : "structure-numa-memory-pairing", full);
      free(m1); free(m2);
    }
    else {
      int n2 = hwloc_topology_export_synthetic(t2, NULL, 0, flags);
      again = malloc(n2 >= 0 ? n2 + 1 : 1); again[0] = 0;
      if (n2 >= 0) hwloc_topology_export_synthetic(t2, again, n2 + 1, flags);
      /* an attribute that is 0 is not written and comes back as the default: the second export then shows it */
      if (rt_off) printf("rt f=%lu ok n=%d\n", flags + rt_off, n);
      else if (n2 != n || strcmp(again, full)) printf("rt f=%lu FAIL not-fixpoint %s -> %s\n", flags + rt_off, full, again);
      else printf("rt f=%lu ok n=%d\n", flags + rt_off, n);
      free(again);
    }
    free(s1); free(s2); hwloc_topology_destroy(t2); free(full);
  }
}

/* "memory attached symmetrically", stated independently: all objects at the depth of a NUMA node's parent
 * have the same number of memory children */
static int mem_symmetric(hwloc_topology_t t)
{
  hwloc_obj_t n;
  for (n = hwloc_get_obj_by_type(t, HWLOC_OBJ_NUMANODE, 0); n; n = n->next_cousin) {
    int d = n->parent->depth; unsigned i, nb = hwloc_get_nbobjs_by_depth(t, d);
    for (i = 0; i < nb; i++) if (hwloc_get_obj_by_depth(t, d, i)->memory_arity != n->parent->memory_arity) return 0;
  }
  return 1;
}

/* export contract outside the symmetric case: -1/EINVAL and no memory error */
static void export_errors(hwloc_topology_t t)
{
  hwloc_topology_t t0, t3; unsigned long flags; int r, which;
  char small[8];
  /* not loaded */
  hwloc_topology_init(&t0); errno = 0;
  r = hwloc_topology_export_synthetic(t0, small, sizeof(small), 0);
  printf("rt f=100 %s\n", (r == -1 && errno == EINVAL) ? "ok notloaded" : "FAIL notloaded-accepted");
  hwloc_topology_destroy(t0);
  /* unknown flag bits */
  for (which = 0; which < 3; which++) {
    unsigned long bad = which == 0 ? 16UL : which == 1 ? (1UL << 40) | 2UL : ~0UL;
    errno = 0; r = hwloc_topology_export_synthetic(t, small, sizeof(small), bad);
    printf("rt f=%d %s\n", 101 + which, (r == -1 && errno == EINVAL) ? "ok badflags" : "FAIL badflags-accepted");
  }
  /* asymmetric variants: drop the last PU; drop the first NUMA node */
  for (which = 0; which < 2; which++) {
    int sym, msym, err, bad = 0;
    if (hwloc_topology_dup(&t3, t) < 0) continue;
    if (which == 0) {
      hwloc_bitmap_t set = hwloc_bitmap_dup(hwloc_topology_get_topology_cpuset(t3));
      if (hwloc_bitmap_weight(set) < 2) { hwloc_bitmap_free(set); hwloc_topology_destroy(t3); continue; }
      hwloc_bitmap_clr(set, hwloc_bitmap_last(set));
      err = hwloc_topology_restrict(t3, set, 0);
      hwloc_bitmap_free(set);
    } else {
      hwloc_bitmap_t set = hwloc_bitmap_dup(hwloc_topology_get_topology_nodeset(t3));
      if (hwloc_bitmap_weight(set) < 2) { hwloc_bitmap_free(set); hwloc_topology_destroy(t3); continue; }
      hwloc_bitmap_clr(set, hwloc_bitmap_first(set));
      err = hwloc_topology_restrict(t3, set, HWLOC_RESTRICT_FLAG_BYNODESET);
      hwloc_bitmap_free(set);
    }
    if (err < 0) { printf("rt f=%d ok restrict-refused\n", 110 + which); hwloc_topology_destroy(t3); continue; }
    sym = hwloc_get_root_obj(t3)->symmetric_subtree; msym = mem_symmetric(t3);
    for (flags = 0; flags < 16 && !bad; flags++) {
      int ignmem = !!(flags & HWLOC_TOPOLOGY_EXPORT_SYNTHETIC_FLAG_IGNORE_MEMORY), v1 = !!(flags & HWLOC_TOPOLOGY_EXPORT_SYNTHETIC_FLAG_V1);
      int n;
      errno = 0; n = hwloc_topology_export_synthetic(t3, NULL, 0, flags);
      if (n < 0 && errno != EINVAL) { printf("rt f=%lu FAIL asym%d-errno-%d\n", flags, which, errno); bad = 1; }
      else if ((!sym || (!ignmem && !msym)) && n >= 0) { printf("rt f=%lu FAIL asym%d-exported sym=%d msym=%d\n", flags, which, sym, msym); bad = 1; }
      else if (sym && !v1 && (ignmem || msym) && n < 0) { printf("rt f=%lu FAIL asym%d-refused sym=%d msym=%d\n", flags, which, sym, msym); bad = 1; }
      else if (n >= 0) {
        char *b = malloc(n + 1); int r2 = hwloc_topology_export_synthetic(t3, b, n + 1, flags);
        if (r2 != n || strlen(b) != (size_t)n) { printf("rt f=%lu FAIL asym%d-contract\n", flags, which); bad = 1; }
        free(b);
      }
    }
    if (!bad) printf("rt f=%d ok asym sym=%d msym=%d\n", 110 + which, sym, msym);
    hwloc_topology_destroy(t3);
  }
}

/* Topologies NOT built by the synthetic parser: export to XML, rewrite local_memory / cache_size attributes to 0
 * (values the parser can never produce), reload from the XML buffer, and round-trip the synthetic export of that. */
static void zero_variants(hwloc_topology_t t)
{
  char *xml; int len, which;
  if (hwloc_topology_export_xmlbuffer(t, &xml, &len, 0) < 0) { printf("rt f=900 FAIL xml-export\n"); return; }
  for (which = 0; which < 4; which++) {
    char *buf = malloc(len + 1), *w = buf; const char *r = xml; int occ = 0, changed = 0; hwloc_topology_t t4;
    while (*r) {
      const char *key = NULL; size_t kl = 0;
      if (!strncmp(r, "local_memory=\"", 14)) { key = "local_memory=\""; kl = 14; }
      else if (which == 3 && !strncmp(r, "cache_size=\"", 12)) { key = "cache_size=\""; kl = 12; }
      if (key) {
        int zero = which == 0 || which == 3 || (which == 1 && occ == 0) || (which == 2 && (occ & 1));
        if (kl == 14) occ++;
        memcpy(w, r, kl); w += kl; r += kl;
        if (zero) { *w++ = '0'; while (*r && *r != '"') r++; changed = 1; }
      } else *w++ = *r++;
    }
    *w = 0;
    if (!changed) { free(buf); continue; }
    hwloc_topology_init(&t4); set_filters(t4);
    if (hwloc_topology_set_xmlbuffer(t4, buf, (int)(w - buf) + 1) < 0 || hwloc_topology_load(t4) < 0)
      printf("rt f=%d FAIL xml-reload\n", 1000 * (which + 1));
    else { rt_off = 1000UL * (which + 1); roundtrip(t4); rt_off = 0; }
    hwloc_topology_destroy(t4); free(buf);
  }
  hwloc_free_xmlbuffer(t, xml);
}

int main(int argc, char **argv)
{
  int verbose = argc > 1 && !strcmp(argv[1], "--verbose");
  static char line[1 << 20];
  if (verbose) {   /* HWLOC_SYNTHETIC_VERBOSE messages interleaved with the case lines on stdout */
    setenv("HWLOC_SYNTHETIC_VERBOSE", "1", 1); dup2(1, 2); setvbuf(stdout, NULL, _IOLBF, 1 << 16);
  } else setvbuf(stdout, NULL, _IOFBF, 1 << 16);
  while (fgets(line, sizeof(line), stdin)) {
    char id[64], mode[64]; int off = 0; size_t n, i; char *hex, *desc; hwloc_topology_t t; int rc, e;
    if (sscanf(line, "%63s %63s %n", id, mode, &off) < 2) continue;
    hex = line + off; n = strcspn(hex, "\r\n ") / 2;
    desc = malloc(n + 1);
    for (i = 0; i < n; i++) desc[i] = (char)(hexv(hex[2*i]) * 16 + hexv(hex[2*i+1]));
    desc[n] = 0;
    printf("CASE %s\n", id); fflush(stdout);
    hwloc_topology_init(&t);
    /* type filters: "l" / "lA" = instruction caches and MemCache kept (set_filters); "lD" = the library defaults;
     * then optional N<t>.<t>... (KEEP_NONE) and S<t>.<t>... (KEEP_STRUCTURE), e.g. lDN10.6S1 */
    if (mode[0] == 'l' && mode[1] == 'D') ; else set_filters(t);
    if (mode[0] == 'l' && mode[1] && mode[1] != 'z') {
      const char *q = mode + 2; enum hwloc_type_filter_e f = HWLOC_TYPE_FILTER_KEEP_NONE;
      while (*q) {
        if (*q == 'N') { f = HWLOC_TYPE_FILTER_KEEP_NONE; q++; }
        else if (*q == 'S') { f = HWLOC_TYPE_FILTER_KEEP_STRUCTURE; q++; }
        else if (*q == '.') q++;
        else { char *end; long ty = strtol(q, &end, 10); if (end == q) break; hwloc_topology_set_type_filter(t, (hwloc_obj_type_t)ty, f); q = end; }
      }
    }
    errno = 0;
    if (mode[0] == 'e') {
      /* the documented alternative: HWLOC_COMPONENTS=synthetic + HWLOC_SYNTHETIC=<description>, no set_synthetic() */
      setenv("HWLOC_COMPONENTS", "synthetic,stop", 1);
      if (mode[1] != 'n') setenv("HWLOC_SYNTHETIC", desc, 1);
      rc = hwloc_topology_load(t); e = errno;
      printf("envload rc=%d\n", rc);
      if (rc == 0) {
        const char *b = hwloc_get_info_by_name(hwloc_topology_get_infos(t), "Backend");
        printf("backend %s\n", b ? b : "-");
        printf("loaded\n"); print_objects(t);
      }
      unsetenv("HWLOC_COMPONENTS"); unsetenv("HWLOC_SYNTHETIC");
      hwloc_topology_destroy(t); free(desc);
      printf("END %s\n", id); fflush(stdout);
      continue;
    }
    rc = hwloc_topology_set_synthetic(t, desc); e = errno;
    if (rc < 0 && e != EINVAL) printf("set rc=%d errno=%d\n", rc, e); else printf("set rc=%d\n", rc);
    fflush(stdout);
    if (rc == 0 && mode[0] == 'l') {
      if (hwloc_topology_load(t) < 0) printf("load-fails errno=%d\n", errno);
      else { printf("loaded\n"); print_objects(t); fflush(stdout); if (!mode[1] || mode[1] == 'z') { roundtrip(t); export_errors(t); if (mode[1] == 'z') zero_variants(t); } }
    }
    hwloc_topology_destroy(t);
    free(desc);
#if defined(__SANITIZE_ADDRESS__)
    if (__lsan_do_recoverable_leak_check()) { printf("LEAK\n"); fflush(stdout); _exit(95); }
#endif
    printf("END %s\n", id); fflush(stdout);
  }
  return 0;
}
