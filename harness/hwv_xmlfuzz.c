/* C06 harness: feed arbitrary bytes to the XML importers of the REAL library
 * (ASan/UBSan/LSan build) and, when a topology comes out, run the canonical
 * dump, hwloc_topology_check() (in a grandchild) and a fixed battery of
 * read-only public calls on it.
 *
 * stdin, one job per line:
 *     <id> <kind> <backend> <method> <tflags> <ud> <path>
 *   kind    topo | diff | synth (the file holds a synthetic description: load it and write its XML
 *           exports to <path>.v3.xml and <path>.v2.xml: the "valid export" seeds)
 *   backend 0 = nolibxml, 1 = libxml2 (HWLOC_LIBXML_IMPORT; the library caches
 *           it in a static on first use, hence one child process per job)
 *   method  buf  = set_xmlbuffer / diff_load_xmlbuffer on an exactly-sized
 *                  malloc block (len+1 with the NUL the API asks for),
 *           raw  = same but size = len, i.e. the last input byte is the one the
 *                  library overwrites with NUL,
 *           file = set_xml / diff_load_xml
 *           path = set_xml / diff_load_xml on the path written in the input file itself (missing files,
 *                  directories, /proc files whose size is not known in advance, "-")
 *   tflags  topology flags (decimal)
 *   ud      option bits: low two bits 0 no userdata callback, 1 import callback set, 2 callback + HWLOC_XML_USERDATA_NOT_DECODED;
 *           bit 2 (4): every type filter KEEP_ALL (I/O and Misc objects are kept)
 *           bit 3 (8): the XML exports of the battery go through the built-in (nolibxml) exporter
 *                      (HWLOC_LIBXML_EXPORT=0; cached by the library on first use, hence per process), else libxml2
 *           bit 5 (32): HWLOC_XML_VERBOSE=1 (the importer's diagnostics, which print document strings)
 *           bit 6 (64): HWLOC_HIDE_ERRORS=0 (critical-error reports such as the out-of-order XML message)
 *           bit 7 (128): the backend is selected through HWLOC_LIBXML instead of HWLOC_LIBXML_IMPORT/_EXPORT
 *           bit 8 (256): print "shape <canonical tree>" for the raw object tree the XML backend hands to the core
 *                      (phase-boundary hook of hwloc_discover, before any post-processing): types after
 *                      conversion, children of the four lists merged and sorted, for the import model
 *           bits 10-14 / 15-19: (object type + 1) of up to two types whose filter is set to the value in bits
 *                      20-21 (1 KEEP_NONE, 2 KEEP_STRUCTURE) after the bit-2 assignment; 0 = none
 *           bit 4 (16): after a failed load the topology is re-configured with a valid XML buffer (with cpukinds,
 *                      memattr, distances) instead of a synthetic description
 * Every job runs in a forked child limited to HWV_WATCHDOG (default 5) seconds of CPU time (SIGXCPU = 24)
 * and 12 times that of wall-clock time (SIGALRM = 14).
 * stdout:  BEGIN <id> / child lines ("phase <name>" before each step) / END <id> status=exit:<n>|signal:<n>
 * stderr:  @@BEGIN <id> ... sanitizer text ... @@END <id>
 */
#include "hwv_dump.h"
#include "hwv_load.h"
#include <hwloc/export.h>
#include <hwloc/diff.h>
#include <hwloc/distances.h>
#include <hwloc/memattrs.h>
#include <hwloc/cpukinds.h>
#include <unistd.h>
#include <signal.h>
#include <sys/wait.h>
#include <sys/resource.h>
#include <fcntl.h>
#if defined(__SANITIZE_ADDRESS__)
#include <sanitizer/lsan_interface.h>
#define HWV_LEAKS() __lsan_do_recoverable_leak_check()
#else
#define HWV_LEAKS() 0
#endif

#ifdef HWV_COV
extern void __gcov_dump(void);     /* coverage survey build: children leave through _exit, flush the counters first */
#define HWV_COVDUMP() __gcov_dump()
#else
#define HWV_COVDUMP() ((void)0)
#endif

static void phase(const char *p) { printf("phase %s\n", p); fflush(stdout); }

static unsigned long ud_calls, ud_bytes;
static void ud_cb(hwloc_topology_t t, hwloc_obj_t o, const char *name, const void *buffer, size_t length)
{
  /* touch what the contract hands us: name (C string or NULL) and length bytes (bounded: a length that
   * cannot be a real buffer is reported instead of being walked) */
  size_t i; unsigned s = 0;
  (void)t;
  ud_calls++;
  if (name) s += (unsigned)strlen(name);
  if (length > (1u << 28)) { printf("userdata-cb absurd-length %zu\n", length); fflush(stdout); return; }
  for (i = 0; i < length; i++) s += ((const unsigned char *)buffer)[i];
  ud_bytes += length;
  if (o && !o->userdata) o->userdata = (void *)(uintptr_t)(1 + (s & 0xff));
}

static void *read_file(const char *path, size_t *lenp)
{
  FILE *f = fopen(path, "rb"); long len; char *b;
  if (!f) return NULL;
  fseek(f, 0, SEEK_END); len = ftell(f); fseek(f, 0, SEEK_SET);
  b = malloc((size_t)len + 1);
  if (len && fread(b, 1, (size_t)len, f) != (size_t)len) { fclose(f); free(b); return NULL; }
  fclose(f); *lenp = (size_t)len; return b;
}

static void snprintf_battery(hwloc_obj_t o)
{
  static const unsigned long fl[] = { 0, 1, 2, 4, 8, 16, 32, 2|8, 4|8|16, 8|32, 1|8 };
  static const size_t sz[] = { 0, 1, 2, 7, 64, 600 };
  char buf[600]; unsigned i, j;
  for (i = 0; i < sizeof(fl)/sizeof(*fl); i++)
    for (j = 0; j < sizeof(sz)/sizeof(*sz); j++) {
      int r1, r2;
      memset(buf, 0x5a, sizeof(buf));
      r1 = hwloc_obj_type_snprintf(sz[j] ? buf : NULL, sz[j], o, fl[i]);
      if (sz[j] && strlen(buf) >= sz[j]) { printf("snprintf-unterminated type\n"); }
      r2 = hwloc_obj_attr_snprintf(sz[j] ? buf : NULL, sz[j], o, (i & 1) ? " " : "#", fl[i]);
      if (sz[j] && strlen(buf) >= sz[j]) { printf("snprintf-unterminated attr\n"); }
      if (r1 < 0 || r2 < 0) printf("snprintf-negative %d %d\n", r1, r2);
    }
}

static unsigned long walk_count;
static unsigned long walk(hwloc_topology_t t, hwloc_obj_t o, unsigned depth)
{
  unsigned long n = 1; hwloc_obj_t c; unsigned i;
  if (depth > 100000) return n;
  /* the full flag x size battery on the first 400 objects, then on a sample; one plain call on every object */
  if (walk_count < 400 || walk_count % 53 == 0) snprintf_battery(o);
  else { char b[64]; hwloc_obj_type_snprintf(b, sizeof(b), o, 0); hwloc_obj_attr_snprintf(b, sizeof(b), o, " ", 0); }
  walk_count++;
  (void)hwloc_obj_type_string(o->type);
  (void)hwloc_obj_get_info_by_name(o, "Backend");
  for (i = 0; i < o->infos.count; i++) n += strlen(o->infos.array[i].name) + strlen(o->infos.array[i].value);
  if (o->name) n += strlen(o->name);
  if (o->subtype) n += strlen(o->subtype);
  if (o->cpuset) {
    char *s = NULL; hwloc_obj_t cov;
    hwloc_bitmap_asprintf(&s, o->cpuset); free(s);
    cov = hwloc_get_obj_covering_cpuset(t, o->cpuset); (void)cov;
    (void)hwloc_get_nbobjs_inside_cpuset_by_type(t, o->cpuset, HWLOC_OBJ_PU);
  }
  if (o->parent) (void)hwloc_get_common_ancestor_obj(t, o, o->parent);
  (void)hwloc_get_ancestor_obj_by_type(t, HWLOC_OBJ_MACHINE, o);
  for (c = o->first_child; c; c = c->next_sibling) n += walk(t, c, depth + 1);
  for (c = o->memory_first_child; c; c = c->next_sibling) n += walk(t, c, depth + 1);
  for (c = o->io_first_child; c; c = c->next_sibling) n += walk(t, c, depth + 1);
  for (c = o->misc_first_child; c; c = c->next_sibling) n += walk(t, c, depth + 1);
  return n;
}

static void battery(hwloc_topology_t t)
{
  int depth, d; unsigned long n;
  phase("traverse");
  n = walk(t, hwloc_get_root_obj(t), 0);
  depth = hwloc_topology_get_depth(t);
  for (d = -8; d < depth + 1; d++) {
    hwloc_obj_t o = NULL; unsigned k = 0;
    while ((o = hwloc_get_next_obj_by_depth(t, d, o)) != NULL && k++ < HWV_MAXOBJ) ;
  }
  (void)hwloc_get_memory_parents_depth(t);
  (void)hwloc_topology_get_infos(t);
  (void)hwloc_topology_get_support(t);
  (void)hwloc_topology_is_thissystem(t);
  {
    hwloc_obj_t objs[8]; hwloc_obj_t pu = hwloc_get_obj_by_type(t, HWLOC_OBJ_PU, 0);
    if (pu) (void)hwloc_get_closest_objs(t, pu, objs, 8);
  }
  printf("traverse objs~%lu\n", n);

  phase("distances");
  {
    unsigned nr = 0, i;
    if (hwloc_distances_get(t, &nr, NULL, 0, 0) == 0 && nr) {
      struct hwloc_distances_s **ds = calloc(nr, sizeof(*ds));
      unsigned got = nr;
      if (hwloc_distances_get(t, &got, ds, 0, 0) == 0) {
        if (got > nr) got = nr;
        for (i = 0; i < got; i++) {
          struct hwloc_distances_s *dd = ds[i]; unsigned a, b; hwloc_uint64_t acc = 0, v1, v2;
          const char *nm = hwloc_distances_get_name(t, dd);
          for (a = 0; a < dd->nbobjs; a++) {
            if (dd->objs[a]) { (void)hwloc_distances_obj_index(dd, dd->objs[a]); acc += dd->objs[a]->gp_index; }
            for (b = 0; b < dd->nbobjs; b++) acc += dd->values[a * dd->nbobjs + b];
          }
          if (dd->nbobjs >= 2 && dd->objs[0] && dd->objs[1]) (void)hwloc_distances_obj_pair_values(dd, dd->objs[0], dd->objs[1], &v1, &v2);
          printf("distances %u nbobjs=%u kind=%lu name=%s acc=%llu\n", i, dd->nbobjs, dd->kind, nm ? "set" : "null", (unsigned long long)acc);
          if (nm) { unsigned n2 = 0; hwloc_distances_get_by_name(t, nm, &n2, NULL, 0); }
          hwloc_distances_release(t, dd);
        }
      }
      free(ds);
    }
    nr = 0; hwloc_distances_get_by_type(t, HWLOC_OBJ_NUMANODE, &nr, NULL, 0, 0);
    nr = 0; hwloc_distances_get_by_depth(t, 0, &nr, NULL, 0, 0);
  }

  phase("memattrs");
  {
    hwloc_memattr_id_t id; unsigned nnodes = hwloc_get_nbobjs_by_type(t, HWLOC_OBJ_NUMANODE) > 0 ? (unsigned)hwloc_get_nbobjs_by_type(t, HWLOC_OBJ_NUMANODE) : 0;
    for (id = 0; id < 64; id++) {
      const char *name = NULL; unsigned long fl = 0; unsigned nr, i;
      hwloc_memattr_id_t id2;
      if (hwloc_memattr_get_name(t, id, &name) < 0) break;
      hwloc_memattr_get_flags(t, id, &fl);
      hwloc_memattr_get_by_name(t, name, &id2);
      nr = 0; hwloc_memattr_get_targets(t, id, NULL, 0, &nr, NULL, NULL);
      if (nr) {
        hwloc_obj_t *tg = calloc(nr, sizeof(*tg)); hwloc_uint64_t *vals = calloc(nr, sizeof(*vals)); unsigned got = nr;
        hwloc_memattr_get_targets(t, id, NULL, 0, &got, tg, vals);
        if (got > nr) got = nr;
        for (i = 0; i < got; i++) {
          unsigned ni = 0; hwloc_uint64_t v;
          if (!tg[i]) continue;
          hwloc_memattr_get_initiators(t, id, tg[i], 0, &ni, NULL, NULL);
          if (ni) {
            struct hwloc_location *ins = calloc(ni, sizeof(*ins)); hwloc_uint64_t *iv = calloc(ni, sizeof(*iv)); unsigned gi = ni, k;
            hwloc_memattr_get_initiators(t, id, tg[i], 0, &gi, ins, iv);
            if (gi > ni) gi = ni;
            for (k = 0; k < gi; k++) {
              hwloc_obj_t best; struct hwloc_location bi;
              hwloc_memattr_get_value(t, id, tg[i], &ins[k], 0, &v);
              hwloc_memattr_get_best_target(t, id, &ins[k], 0, &best, &v);
              hwloc_memattr_get_best_initiator(t, id, tg[i], 0, &bi, &v);
            }
            free(ins); free(iv);
          } else {
            hwloc_memattr_get_value(t, id, tg[i], NULL, 0, &v);
          }
        }
        free(tg); free(vals);
      }
      {
        hwloc_obj_t best; hwloc_uint64_t v; struct hwloc_location loc;
        loc.type = HWLOC_LOCATION_TYPE_CPUSET; loc.location.cpuset = hwloc_get_root_obj(t)->cpuset;
        hwloc_memattr_get_best_target(t, id, &loc, 0, &best, &v);
      }
    }
    if (nnodes) {
      struct hwloc_location loc; unsigned nr = nnodes; hwloc_obj_t *nodes = calloc(nnodes, sizeof(*nodes)); unsigned long f;
      loc.type = HWLOC_LOCATION_TYPE_CPUSET; loc.location.cpuset = hwloc_get_root_obj(t)->cpuset;
      for (f = 0; f < 8; f++) { nr = nnodes; hwloc_get_local_numanode_objs(t, &loc, &nr, nodes, f); }
      loc.type = HWLOC_LOCATION_TYPE_OBJECT; loc.location.object = hwloc_get_obj_by_type(t, HWLOC_OBJ_PU, 0);
      if (loc.location.object) { nr = nnodes; hwloc_get_local_numanode_objs(t, &loc, &nr, nodes, 0); }
      free(nodes);
    }
  }

  phase("cpukinds");
  {
    int nr = hwloc_cpukinds_get_nr(t, 0), i;
    hwloc_bitmap_t set = hwloc_bitmap_alloc();
    for (i = 0; i < nr + 1 && i < 1000; i++) {
      int eff = 0; struct hwloc_infos_s *infos = NULL;
      if (hwloc_cpukinds_get_info(t, (unsigned)i, set, &eff, &infos, 0) == 0) {
        unsigned k; size_t s = 0;
        if (infos) for (k = 0; k < infos->count; k++) s += strlen(infos->array[k].name) + strlen(infos->array[k].value);
        (void)hwloc_cpukinds_get_by_cpuset(t, set, 0);
      }
    }
    (void)hwloc_cpukinds_get_by_cpuset(t, hwloc_get_root_obj(t)->cpuset, 0);
    hwloc_bitmap_free(set);
    printf("cpukinds nr=%d\n", nr);
  }

  phase("export-xml");
  {
    char *xb = NULL; int xl = 0; int rc;
    rc = hwloc_topology_export_xmlbuffer(t, &xb, &xl, 0);
    printf("export-xml v3 rc=%d len=%d\n", rc, rc < 0 ? 0 : xl);
    if (rc == 0) { if (xl <= 0 || xb[xl - 1] != 0 || strlen(xb) != (size_t)xl - 1) printf("export-xml bad-length\n"); hwloc_free_xmlbuffer(t, xb); }
    xb = NULL;
    rc = hwloc_topology_export_xmlbuffer(t, &xb, &xl, HWLOC_TOPOLOGY_EXPORT_XML_FLAG_V2);
    printf("export-xml v2 rc=%d len=%d\n", rc, rc < 0 ? 0 : xl);
    if (rc == 0) { if (xl <= 0 || xb[xl - 1] != 0 || strlen(xb) != (size_t)xl - 1) printf("export-xml bad-length\n"); hwloc_free_xmlbuffer(t, xb); }
  }

  phase("export-synthetic");
  {
    static const unsigned long fl[] = { 0, 1, 2, 4, 8, 1|2|4, 1|2|8 };
    static const size_t sz[] = { 0, 1, 16, 4096 };
    char *buf = malloc(4096); unsigned i, j;
    for (i = 0; i < sizeof(fl)/sizeof(*fl); i++)
      for (j = 0; j < sizeof(sz)/sizeof(*sz); j++) {
        int r = hwloc_topology_export_synthetic(t, sz[j] ? buf : NULL, sz[j], fl[i]);
        (void)r;
      }
    free(buf);
  }

  phase("dup");
  {
    hwloc_topology_t d = NULL;
    int rc = hwloc_topology_dup(&d, t);
    printf("dup rc=%d\n", rc);
    if (rc == 0) {
      pid_t pid; int st = 0;
      fflush(stdout);
      pid = fork();
      if (!pid) { hwloc_topology_check(d); HWV_COVDUMP(); _exit(0); }
      waitpid(pid, &st, 0);
      printf("dup-check %s\n", WIFEXITED(st) && WEXITSTATUS(st) == 0 ? "ok" : "abort");
      walk_count = 350;
      (void)walk(d, hwloc_get_root_obj(d), 0);
      hwloc_topology_destroy(d);
    }
  }
}

extern void (*hwloc_verif_phase_cb)(struct hwloc_topology *topology, int phase);
static int shape_cmp(const char **a, const char **b) { return strcmp(*a, *b); }
/* canonical rendering of the raw tree: type(sorted children) */
static char *shape_of(hwloc_obj_t o)
{
  char **ks = NULL; unsigned n = 0, cap = 0, i; size_t tot = 32; hwloc_obj_t c; char *r; int lists;
  for (lists = 0; lists < 4; lists++)
    for (c = lists == 0 ? o->first_child : lists == 1 ? o->memory_first_child : lists == 2 ? o->io_first_child : o->misc_first_child; c; c = c->next_sibling) {
      if (n == cap) { cap = cap ? 2 * cap : 8; ks = realloc(ks, cap * sizeof(*ks)); }
      ks[n] = shape_of(c); tot += strlen(ks[n]) + 1; n++;
    }
  if (n > 1) qsort(ks, n, sizeof(*ks), (int (*)(const void *, const void *)) shape_cmp);
  r = malloc(tot);
  sprintf(r, "%d(", (int) o->type);
  for (i = 0; i < n; i++) { if (i) strcat(r, ","); strcat(r, ks[i]); free(ks[i]); }
  strcat(r, ")");
  free(ks);
  return r;
}
static void shape_cb(struct hwloc_topology *topology, int ph)
{
  if (ph == 1) { char *s = shape_of(hwloc_get_root_obj(topology)); printf("shape %s\n", s); fflush(stdout); free(s); hwloc_verif_phase_cb = NULL; }
}

/* a valid document with 2 PUs, distances, a memattr and two cpukinds: the source of the "load again" step (opts & 16) */
static const char reload_xml[] =
  "<?xml version=\"1.0\" encoding=\"UTF-8\"?>\n<!DOCTYPE topology SYSTEM \"hwloc2.dtd\">\n<topology version=\"3.0\">\n"
  "<object type=\"Machine\" os_index=\"0\" cpuset=\"0x3\" complete_cpuset=\"0x3\" allowed_cpuset=\"0x3\" nodeset=\"0x1\" complete_nodeset=\"0x1\" allowed_nodeset=\"0x1\" gp_index=\"1\">\n"
  "<object type=\"NUMANode\" os_index=\"0\" cpuset=\"0x3\" complete_cpuset=\"0x3\" nodeset=\"0x1\" complete_nodeset=\"0x1\" gp_index=\"2\" local_memory=\"1024\"/>\n"
  "<object type=\"PU\" os_index=\"0\" cpuset=\"0x1\" complete_cpuset=\"0x1\" nodeset=\"0x1\" complete_nodeset=\"0x1\" gp_index=\"3\"/>\n"
  "<object type=\"PU\" os_index=\"1\" cpuset=\"0x2\" complete_cpuset=\"0x2\" nodeset=\"0x1\" complete_nodeset=\"0x1\" gp_index=\"4\"/>\n"
  "</object>\n"
  "<distances2 type=\"PU\" nbobjs=\"2\" kind=\"5\" indexing=\"os\" name=\"L\"><indexes length=\"4\">0 1 </indexes><u64values length=\"12\">10 20 20 10 </u64values></distances2>\n"
  "<memattr name=\"Bandwidth\" flags=\"5\"><memattr_value target_obj_type=\"NUMANode\" target_obj_gp_index=\"2\" value=\"20\" initiator_cpuset=\"0x3\"/></memattr>\n"
  "<cpukind cpuset=\"0x1\" forced_efficiency=\"0\"><info name=\"CoreType\" value=\"Small\"/></cpukind>\n"
  "<cpukind cpuset=\"0x2\" forced_efficiency=\"5\"><info name=\"CoreType\" value=\"Big\"/></cpukind>\n"
  "</topology>\n";

static int do_topo(const char *backend, const char *method, unsigned long tflags, int opts, const char *path)
{
  hwloc_topology_t t = NULL; int rc; char *buf = NULL; size_t len = 0; int ud = opts & 3;
  if (opts & 128) { setenv("HWLOC_LIBXML", backend, 1); unsetenv("HWLOC_LIBXML_IMPORT"); unsetenv("HWLOC_LIBXML_EXPORT"); }
  else { setenv("HWLOC_LIBXML_IMPORT", backend, 1); setenv("HWLOC_LIBXML_EXPORT", (opts & 8) ? "0" : "1", 1); unsetenv("HWLOC_LIBXML"); }
  if (opts & 32) setenv("HWLOC_XML_VERBOSE", "1", 1);
  if (opts & 64) setenv("HWLOC_HIDE_ERRORS", "0", 1);
  if (ud == 2) setenv("HWLOC_XML_USERDATA_NOT_DECODED", "1", 1); else unsetenv("HWLOC_XML_USERDATA_NOT_DECODED");
  phase("init");
  rc = hwloc_topology_init(&t);
  if (rc < 0) { printf("init rc=%d\n", rc); return 0; }
  if (tflags) printf("flags rc=%d\n", hwloc_topology_set_flags(t, tflags));
  if (ud) hwloc_topology_set_userdata_import_callback(t, ud_cb);
  if (opts & 4) hwloc_topology_set_all_types_filter(t, HWLOC_TYPE_FILTER_KEEP_ALL);
  {
    int fa = (opts >> 10) & 31, fb = (opts >> 15) & 31, fv = (opts >> 20) & 3;
    if (fa) printf("filter %d=%d rc=%d\n", fa - 1, fv, hwloc_topology_set_type_filter(t, (hwloc_obj_type_t)(fa - 1), (enum hwloc_type_filter_e) fv));
    if (fb) printf("filter %d=%d rc=%d\n", fb - 1, fv, hwloc_topology_set_type_filter(t, (hwloc_obj_type_t)(fb - 1), (enum hwloc_type_filter_e) fv));
  }
  if (opts & 256) hwloc_verif_phase_cb = shape_cb;
  phase("set");
  errno = 0;
  if (!strcmp(method, "file")) {
    rc = hwloc_topology_set_xml(t, path);
  } else if (!strcmp(method, "path")) {
    char *lit = read_file(path, &len);
    if (!lit) { printf("cannot-read %s\n", path); hwloc_topology_destroy(t); return 2; }
    lit[len] = 0; while (len && (lit[len-1] == '\n' || lit[len-1] == ' ')) lit[--len] = 0;
    if (!strcmp(lit, "-")) { int fd = open("/dev/null", O_RDONLY); if (fd >= 0) { dup2(fd, 0); close(fd); } }
    rc = hwloc_topology_set_xml(t, lit);
    free(lit);
  } else {
    char *tmp = read_file(path, &len);
    if (!tmp) { printf("cannot-read %s\n", path); hwloc_topology_destroy(t); return 2; }
    if (!strcmp(method, "raw")) {
      /* size = len: the block is not NUL terminated by us; the API says the last byte is the NUL, the library writes it in its copy */
      buf = malloc(len ? len : 1); memcpy(buf, tmp, len); free(tmp);
      rc = len ? hwloc_topology_set_xmlbuffer(t, buf, (int)len) : -1;
    } else {
      buf = malloc(len + 1); memcpy(buf, tmp, len); buf[len] = 0; free(tmp);
      rc = hwloc_topology_set_xmlbuffer(t, buf, (int)len + 1);
    }
  }
  printf("set rc=%d errno=%s\n", rc, rc < 0 ? hwv_errno_class(errno) : "0");
  if (rc == 0) {
    phase("load");
    errno = 0;
    rc = hwloc_topology_load(t);
    hwloc_verif_phase_cb = NULL;     /* the shape is that of this load only, not of the reload below */
    printf("load rc=%d errno=%s\n", rc, rc < 0 ? hwv_errno_class(errno) : "0");
  } else rc = -2;
  if (rc == 0) {
    pid_t pid; int st = 0;
    phase("dump");
    hwv_dump_topology(stdout, t, 0);
    printf("userdata-cb calls=%lu bytes=%lu\n", ud_calls, ud_bytes);
    { /* topology-level infos (v2 root infos are moved here, missing Backend infos are added) */
      struct hwloc_infos_s *ti = hwloc_topology_get_infos(t); unsigned k;
      printf("tinfos %u", ti ? ti->count : 0);
      for (k = 0; ti && k < ti->count && k < 64; k++) { putchar(' '); hwv_pstr(stdout, ti->array[k].name); putchar('='); hwv_pstr(stdout, ti->array[k].value); }
      putchar('\n');
    }
    phase("check");
    fflush(stdout);
    pid = fork();
    if (!pid) { hwloc_topology_check(t); HWV_COVDUMP(); _exit(0); }
    waitpid(pid, &st, 0);
    printf("check %s\n", WIFEXITED(st) && WEXITSTATUS(st) == 0 ? "ok" : "abort");
    battery(t);
    phase("destroy");
    hwloc_topology_destroy(t);
  } else {
    /* a failed set/load: the topology must be destroyable, or configurable and loadable again */
    int rc2, rc3;
    phase("reload");
    errno = 0;
    if (opts & 16) rc2 = hwloc_topology_set_xmlbuffer(t, reload_xml, (int) sizeof(reload_xml));
    else rc2 = hwloc_topology_set_synthetic(t, "pack:2 core:2 pu:2");
    printf("reload-set rc=%d errno=%s\n", rc2, rc2 < 0 ? hwv_errno_class(errno) : "0");
    errno = 0;
    rc3 = hwloc_topology_load(t);
    printf("reload-load rc=%d errno=%s\n", rc3, rc3 < 0 ? hwv_errno_class(errno) : "0");
    if (rc3 == 0) {
      pid_t pid; int st = 0;
      printf("reload-nbpus %d\n", hwloc_get_nbobjs_by_type(t, HWLOC_OBJ_PU) * ((opts & 16) ? 4 : 1));
      if (opts & 16) printf("reload-cpukinds %d\n", hwloc_cpukinds_get_nr(t, 0));
      { /* topology-level infos of the reloaded topology: nothing of the failed document may survive */
        struct hwloc_infos_s *ti = hwloc_topology_get_infos(t); unsigned k;
        printf("reload-infos %u", ti ? ti->count : 0);
        for (k = 0; ti && k < ti->count && k < 20; k++) { putchar(' '); hwv_pstr(stdout, ti->array[k].name); }
        putchar('\n');
      }
      fflush(stdout);
      pid = fork();
      if (!pid) { hwloc_topology_check(t); HWV_COVDUMP(); _exit(0); }
      waitpid(pid, &st, 0);
      printf("reload-check %s\n", WIFEXITED(st) && WEXITSTATUS(st) == 0 ? "ok" : "abort");
    }
    phase("destroy");
    hwloc_topology_destroy(t);
  }
  free(buf);
  phase("done");
  return 0;
}

static int do_diff(const char *backend, const char *method, int opts, const char *path)
{
  hwloc_topology_diff_t diff = NULL, d; char *refname = NULL; int rc; char *buf = NULL; size_t len = 0; unsigned n = 0;
  setenv("HWLOC_LIBXML_IMPORT", backend, 1);
  setenv("HWLOC_LIBXML_EXPORT", backend, 1);
  unsetenv("HWLOC_LIBXML");
  if (opts & 128) { setenv("HWLOC_LIBXML", backend, 1); unsetenv("HWLOC_LIBXML_IMPORT"); unsetenv("HWLOC_LIBXML_EXPORT"); }
  if (opts & 32) setenv("HWLOC_XML_VERBOSE", "1", 1);
  phase("diff-load");
  errno = 0;
  if (!strcmp(method, "file")) {
    rc = hwloc_topology_diff_load_xml(path, &diff, &refname);
  } else if (!strcmp(method, "path")) {
    char *lit = read_file(path, &len);
    if (!lit) { printf("cannot-read %s\n", path); return 2; }
    lit[len] = 0; while (len && (lit[len-1] == '\n' || lit[len-1] == ' ')) lit[--len] = 0;
    rc = hwloc_topology_diff_load_xml(lit, &diff, &refname);
    free(lit);
  } else {
    char *tmp = read_file(path, &len);
    if (!tmp) { printf("cannot-read %s\n", path); return 2; }
    if (!strcmp(method, "raw")) {
      buf = malloc(len ? len : 1); memcpy(buf, tmp, len); free(tmp);
      rc = len ? hwloc_topology_diff_load_xmlbuffer(buf, (int)len, &diff, &refname) : -1;
    } else {
      buf = malloc(len + 1); memcpy(buf, tmp, len); buf[len] = 0; free(tmp);
      rc = hwloc_topology_diff_load_xmlbuffer(buf, (int)len + 1, &diff, &refname);
    }
  }
  printf("diff-load rc=%d errno=%s refname=%s\n", rc, rc < 0 ? hwv_errno_class(errno) : "0", refname ? "set" : "null");
  if (rc == 0) {
    phase("diff-walk");
    for (d = diff; d && n < 10000000; d = d->generic.next, n++) {
      if (d->generic.type == HWLOC_TOPOLOGY_DIFF_OBJ_ATTR) {
        size_t s = 0;
        switch (d->obj_attr.diff.generic.type) {
        case HWLOC_TOPOLOGY_DIFF_OBJ_ATTR_INFO: if (d->obj_attr.diff.string.name) s += strlen(d->obj_attr.diff.string.name); /* FALLTHRU */
        case HWLOC_TOPOLOGY_DIFF_OBJ_ATTR_NAME:
          if (d->obj_attr.diff.string.oldvalue) s += strlen(d->obj_attr.diff.string.oldvalue);
          if (d->obj_attr.diff.string.newvalue) s += strlen(d->obj_attr.diff.string.newvalue);
          break;
        default: break;
        }
        if (n < 50) printf("diff %u depth=%d index=%u attr=%d strlen=%zu\n", n, d->obj_attr.obj_depth, d->obj_attr.obj_index, (int)d->obj_attr.diff.generic.type, s);
      } else printf("diff %u type=%d\n", n, (int)d->generic.type);
    }
    printf("diff-count %u\n", n);
    phase("diff-export");
    {
      char *xb = NULL; int xl = 0;
      int r = hwloc_topology_diff_export_xmlbuffer(diff, refname, &xb, &xl);
      printf("diff-export rc=%d\n", r);
      if (r == 0) free(xb);
    }
    phase("diff-apply");
    {
      hwloc_topology_t t = NULL;
      hwloc_topology_init(&t);
      hwloc_topology_set_synthetic(t, "pack:2 [numa(memory=1024)] core:2 pu:2");
      if (hwloc_topology_load(t) == 0) {
        int r = hwloc_topology_diff_apply(t, diff, 0);
        printf("diff-apply rc=%d\n", r);
        if (r == 0) { r = hwloc_topology_diff_apply(t, diff, HWLOC_TOPOLOGY_DIFF_APPLY_REVERSE); printf("diff-unapply rc=%d\n", r); }
      }
      hwloc_topology_destroy(t);
    }
    phase("diff-destroy");
    hwloc_topology_diff_destroy(diff);
    free(refname);
  }
  free(buf);
  phase("done");
  return 0;
}

static int do_synth(const char *path)
{
  size_t len = 0; char *d = read_file(path, &len); hwloc_topology_t t = NULL; char out[4200]; int rc;
  if (!d) return 2;
  d[len] = 0; while (len && (d[len-1] == '\n' || d[len-1] == ' ')) d[--len] = 0;
  hwloc_topology_init(&t);
  hwloc_topology_set_all_types_filter(t, HWLOC_TYPE_FILTER_KEEP_ALL);
  rc = hwloc_topology_set_synthetic(t, d);
  if (rc == 0) rc = hwloc_topology_load(t);
  printf("synth rc=%d\n", rc);
  if (rc == 0) {
    setenv("HWLOC_LIBXML_EXPORT", "0", 1);
    snprintf(out, sizeof(out), "%s.v3.xml", path); printf("export3 rc=%d\n", hwloc_topology_export_xml(t, out, 0));
    snprintf(out, sizeof(out), "%s.v2.xml", path); printf("export2 rc=%d\n", hwloc_topology_export_xml(t, out, HWLOC_TOPOLOGY_EXPORT_XML_FLAG_V2));
  }
  hwloc_topology_destroy(t); free(d);
  return 0;
}

int main(void)
{
  char *line = NULL; size_t cap = 0;
  unsigned wd = getenv("HWV_WATCHDOG") ? (unsigned)atoi(getenv("HWV_WATCHDOG")) : 5;
  while (getline(&line, &cap, stdin) > 0) {
    char id[64], kind[16], backend[8], method[8], path[4096]; unsigned long tflags; int ud; pid_t pid; int st = 0;
    if (sscanf(line, "%63s %15s %7s %7s %lu %d %4095[^\n]", id, kind, backend, method, &tflags, &ud, path) != 7) continue;
    printf("BEGIN %s\n", id); fflush(stdout);
    fprintf(stderr, "@@BEGIN %s\n", id); fflush(stderr);
    pid = fork();
    if (!pid) {
      int r; struct rlimit rl;
      /* bounded time = bounded CPU time (SIGXCPU after wd seconds: independent of the load of the machine);
       * a generous wall-clock alarm catches a blocked (non-spinning) call */
      rl.rlim_cur = wd; rl.rlim_max = wd + 2; setrlimit(RLIMIT_CPU, &rl);
      alarm(12 * wd);
      r = !strcmp(kind, "diff") ? do_diff(backend, method, ud, path) : !strcmp(kind, "synth") ? do_synth(path) : do_topo(backend, method, tflags, ud, path);
      fflush(stdout);
      free(line); line = NULL;
      alarm(0); rl.rlim_cur = rl.rlim_max; setrlimit(RLIMIT_CPU, &rl);   /* the library is done: the leak check is not timed */
      /* leak check now, then _exit: exit() would seek the shared stdin back over the unread jobs */
      if (HWV_LEAKS()) r = 96;
      HWV_COVDUMP();
      _exit(r);
    }
    waitpid(pid, &st, 0);
    fprintf(stderr, "@@END %s\n", id); fflush(stderr);
    if (WIFEXITED(st)) printf("END %s status=exit:%d\n", id, WEXITSTATUS(st));
    else printf("END %s status=signal:%d\n", id, WTERMSIG(st));
    fflush(stdout);
  }
  free(line);
  return 0;
}
