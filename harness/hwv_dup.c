/* C12 harness: hwloc_topology_dup() on the real library (private headers).
 * Script on stdin, one case after the other:
 *   new / <config lines, see hwv_load.h> / load          topology A
 *   pre <op>                       modification of A before the dup (ops below)
 *   dup                            B = hwloc_topology_dup(A); prints
 *        dup rc=<n> errno=<class>
 *        A <dump T..E>  B <dump T..E>           (canonical dumps, must be identical, gp_index and userdata presence included)
 *        PA <raw tree of A>  PB <raw tree of B> (hwv_ptree.h; the model computes PB from PA)
 *        allocseq <n> <size>...                 sizes requested through hwloc_tma_malloc by hwloc__topology_dup(A) (logging tma)
 *        share <field> copied= shared= mismatch= / overlap <fieldA> <fieldB>      sharing pattern of (A,B)
 *        pubdup same|DIFF                       observation of the public hwloc_topology_dup(A) against the original (B itself is hwloc__topology_dup(A))
 *        dupdup same|DIFF                       observation of a duplicate of the duplicate against the original
 *        firstq <family>.<accessor> same|DIFF   each accessor of the lazily refreshed state (memattrs, distances, cpukinds) as the FIRST
 *                                               query on a fresh duplicate, against the original's answer
 *        obscmp same|DIFF ...                   dump+XML+distances+memattrs+cpukinds+infos+support of B against A
 *   mut A|B <op>                   apply <op> to one topology; prints "mut ... rc= errno=" and
 *                                  "frame same|DIFF" = observation of the OTHER one before/after
 *   both <op>                      apply to A then B: "opcmp same|DIFF" (rc, errno, what the op reports, e.g. names through handles)
 *                                  then "obscmp" (same history on both must give the same observation)
 *   destroy A|B                    hwloc_topology_destroy; "frame" for the survivor
 *   echo <text>
 * ops:  restrict <set> <flags> | misc <depth> <idx> <name> | group <set> | distadd <depth> <n> <kind> <flags> <seed>
 *       disthet <depth:idx,...> <kind> <seed> (matrix over mixed object types) |
 *       distrm | distrmdepth <depth> | distfail | disthandle <name> <0 report|1 transform|3 release_remove> | mreg <name> <flags> | mset <id> <numaidx> <-|set> <value> | kind <set> <eff> <name> <value>
 *       robj <depth> <idx> <flags> (restrict to that object's cpuset/nodeset) | gobj <depth> <i> <j> | kobj <depth> <idx> <eff> <name> <value>
 *       mseto <id> <numaidx> <depth> <idx> <value> (cpuset initiator) | mseti ... (OBJECT initiator) | obs | (depth >= 1000: depth of type depth-1000)
 *       allowobj <depth> <i> <j> | allownode <i> <j>   (hwloc_topology_allow CUSTOM; needs flags 1 = INCLUDE_DISALLOWED) |
 *       subtype <depth> <idx> <string|-> |
 *       infoclr <depth> <idx> | tinfoclr | kinfoclr <kind> | kinfo <kind> <name> <value> | udclr <depth> <idx>   (emptied, still allocated arrays)
 *       info <depth> <idx> <name> <value> | tinfo <name> <value> | refresh | allow <flags> | ud <depth> <idx> | tud | cb
 * ASan/LSan verdicts are the process exit code (97/98/96). */
#define _GNU_SOURCE
#include "private/autogen/config.h"
#include "hwloc.h"
#include "private/private.h"
#include "hwv_ptree.h"
#include "hwv_load.h"
#include <unistd.h>
#include <stdarg.h>

static int hwv_ud_target[4];
static void hwv_export_cb(void *reserved, hwloc_topology_t t, hwloc_obj_t o) { (void)reserved; (void)t; (void)o; }
static void hwv_import_cb(hwloc_topology_t t, hwloc_obj_t o, const char *n, const void *b, size_t l) { (void)t; (void)o; (void)n; (void)b; (void)l; }

/* depth >= 1000 means "the depth of type (depth - 1000)" */
static hwloc_obj_t objat(hwloc_topology_t t, int depth, unsigned idx)
{
  if (depth >= 1000) { depth = hwloc_get_type_depth(t, (hwloc_obj_type_t)(depth - 1000)); if (depth == HWLOC_TYPE_DEPTH_UNKNOWN || depth == HWLOC_TYPE_DEPTH_MULTIPLE) return NULL; }
  return hwloc_get_obj_by_depth(t, depth, idx);
}

/* what an op reports besides rc/errno (names obtained through handles, ...): compared between A and B by "both" */
static char op_report[2048];
static void rep(const char *fmt, ...)
{
  va_list ap; size_t n = strlen(op_report);
  va_start(ap, fmt); vsnprintf(op_report + n, sizeof(op_report) - n, fmt, ap); va_end(ap);
}

/* returns rc; *handled = 0 if the op is unknown */
static int apply_op(hwloc_topology_t t, char *op, int *handled)
{
  char a1[4200], a2[256], a3[256]; int d; unsigned u, u2; unsigned long fl, kind; long long ll; /* u2 doubles as int for kobj */
  *handled = 1; errno = 0; op_report[0] = 0;
  if (sscanf(op, "restrict %4199s %lu", a1, &fl) == 2) {
    hwloc_bitmap_t s = hwv_parse_set(a1); int rc;
    if (!s) { errno = EINVAL; return -2; }
    rc = hwloc_topology_restrict(t, s, fl); { int e = errno; hwloc_bitmap_free(s); errno = e; }
    return rc;
  }
  if (sscanf(op, "robj %d %u %lu", &d, &u, &fl) == 3) {
    hwloc_obj_t o = objat(t, d, u); hwloc_bitmap_t s; int rc;
    if (!o || !o->cpuset) { errno = ENOENT; return -2; }
    s = hwloc_bitmap_dup((fl & HWLOC_RESTRICT_FLAG_BYNODESET) ? o->nodeset : o->cpuset);
    rc = hwloc_topology_restrict(t, s, fl); { int e = errno; hwloc_bitmap_free(s); errno = e; }
    return rc;
  }
  if (sscanf(op, "gobj %d %u %u", &d, &u, &u2) == 3) {
    hwloc_obj_t g; unsigned i; hwloc_bitmap_t s = hwloc_bitmap_alloc();
    for (i = u; i <= u2 && i < u + 64; i++) { hwloc_obj_t o = objat(t, d, i); if (o && o->cpuset) hwloc_bitmap_or(s, s, o->cpuset); }
    g = hwloc_topology_alloc_group_object(t);
    if (!g) { int e = errno; hwloc_bitmap_free(s); errno = e; return -1; }
    g->cpuset = s;
    return hwloc_topology_insert_group_object(t, g) ? 0 : -1;
  }
  if (sscanf(op, "kobj %d %u %u %255s %255s", &d, &u, &u2, a2, a3) == 5) {
    hwloc_obj_t o = objat(t, d, u); struct hwloc_info_s inf; struct hwloc_infos_s infs;
    if (!o || !o->cpuset) { errno = ENOENT; return -2; }
    inf.name = a2; inf.value = a3; infs.array = &inf; infs.count = 1; infs.allocated = 1;
    return hwloc_cpukinds_register(t, o->cpuset, (int)u2, &infs, 0);
  }
  if (sscanf(op, "mseto %u %u %d %lu %lld", &u, &u2, &d, &kind, &ll) == 5) {   /* initiator = cpuset of object (depth d, index kind) */
    hwloc_obj_t node = hwloc_get_obj_by_type(t, HWLOC_OBJ_NUMANODE, u2), io = objat(t, d, (unsigned)kind); struct hwloc_location loc;
    if (!node || !io || !io->cpuset) { errno = ENOENT; return -2; }
    loc.type = HWLOC_LOCATION_TYPE_CPUSET; loc.location.cpuset = io->cpuset;
    return hwloc_memattr_set_value(t, u, node, &loc, 0, (hwloc_uint64_t)ll);
  }
  if (sscanf(op, "mseti %u %u %d %lu %lld", &u, &u2, &d, &kind, &ll) == 5) {   /* initiator = the OBJECT (depth d, index kind) */
    hwloc_obj_t node = hwloc_get_obj_by_type(t, HWLOC_OBJ_NUMANODE, u2), io = objat(t, d, (unsigned)kind); struct hwloc_location loc;
    if (!node || !io) { errno = ENOENT; return -2; }
    loc.type = HWLOC_LOCATION_TYPE_OBJECT; loc.location.object = io;
    return hwloc_memattr_set_value(t, u, node, &loc, 0, (hwloc_uint64_t)ll);
  }
  if (!strcmp(op, "obs")) { char *o = hwv_observe_str(t, 1); free(o); return 0; }
  if (sscanf(op, "misc %d %u %255s", &d, &u, a2) == 3) {
    hwloc_obj_t o = objat(t, d, u); if (!o) { errno = ENOENT; return -2; }
    return hwloc_topology_insert_misc_object(t, o, a2) ? 0 : -1;
  }
  if (sscanf(op, "group %4199s", a1) == 1) {
    hwloc_bitmap_t s = hwv_parse_set(a1); hwloc_obj_t g, r;
    if (!s) { errno = EINVAL; return -2; }
    g = hwloc_topology_alloc_group_object(t);
    if (!g) { int e = errno; hwloc_bitmap_free(s); errno = e; return -1; }
    g->cpuset = s;
    r = hwloc_topology_insert_group_object(t, g);
    return r ? 0 : -1;
  }
  if (sscanf(op, "distadd %d %u %lu %lu %u", &d, &u, &kind, &fl, &u2) == 5) {
    hwloc_obj_t objs[64]; hwloc_uint64_t vals[64 * 64]; unsigned i, j; hwloc_distances_add_handle_t h; char nm[32];
    if (u < 2 || u > 64) { errno = EINVAL; return -2; }
    for (i = 0; i < u; i++) { objs[i] = objat(t, d, i); if (!objs[i]) { errno = ENOENT; return -2; } }
    for (i = 0; i < u; i++) for (j = 0; j < u; j++) vals[i * u + j] = i == j ? 10 : 20 + ((i / 2 == j / 2) ? 0 : 10) + (u2 % 7);
    snprintf(nm, sizeof nm, "hwv%u", u2);
    h = hwloc_distances_add_create(t, nm, kind, 0);
    if (!h) return -1;
    if (hwloc_distances_add_values(t, h, u, objs, vals, 0) < 0) return -1;
    return hwloc_distances_add_commit(t, h, fl);
  }
  /* application-added matrix over MIXED object types: disthet <depth:idx,depth:idx,...> <kind> <seed> */
  if (sscanf(op, "disthet %4199s %lu %u", a1, &kind, &u2) == 3) {
    hwloc_obj_t objs[32]; hwloc_uint64_t vals[32 * 32]; unsigned n = 0, i, j; hwloc_distances_add_handle_t h; char nm[32]; char *p = a1;
    while (*p && n < 32) {
      int dd = 0; unsigned ii = 0; int used = 0;
      if (sscanf(p, "%d:%u%n", &dd, &ii, &used) < 2) break;
      objs[n] = objat(t, dd, ii);
      if (objs[n]) { for (i = 0; i < n; i++) if (objs[i] == objs[n]) break; if (i == n) n++; }
      p += used; if (*p == ',') p++;
    }
    if (n < 2) { errno = ENOENT; return -2; }
    for (i = 0; i < n; i++) for (j = 0; j < n; j++) vals[i * n + j] = i == j ? 10 : 20 + ((i + 2 * j + u2) % 13);
    snprintf(nm, sizeof nm, "hwv%u", u2);
    h = hwloc_distances_add_create(t, nm, kind, 0);
    if (!h) return -1;
    if (hwloc_distances_add_values(t, h, n, objs, vals, 0) < 0) return -1;
    return hwloc_distances_add_commit(t, h, 0);
  }
  if (!strcmp(op, "distrm")) return hwloc_distances_remove(t);
  if (sscanf(op, "distrmdepth %d", &d) == 1) {
    if (d >= 1000) d = hwloc_get_type_depth(t, (hwloc_obj_type_t)(d - 1000));
    return hwloc_distances_remove_by_depth(t, d);
  }
  if (!strcmp(op, "distfail")) {   /* an add handle consumed without commit: add_values rejects a single object */
    hwloc_obj_t o = hwloc_get_root_obj(t); hwloc_uint64_t v = 10; int rc;
    hwloc_distances_add_handle_t h = hwloc_distances_add_create(t, "failed", 6, 0);
    if (!h) return -1;
    rc = hwloc_distances_add_values(t, h, 1, &o, &v, 0);
    rep("add_values=%d;", rc);
    return rc < 0 ? 0 : -1;
  }
  /* by-handle operations on every matrix called <name>: 0 report, 1 transform(REMOVE_NULL) and report, 3 release_remove */
  if (sscanf(op, "disthandle %255s %u", a2, &u) == 2) {
    struct hwloc_distances_s *ds[16]; unsigned nr = 16, i; int rc = 0;
    if (hwloc_distances_get_by_name(t, a2, &nr, ds, 0) < 0) return -1;
    rep("found=%u;", nr);
    for (i = 0; i < nr && i < 16; i++) {
      const char *nm = hwloc_distances_get_name(t, ds[i]);
      rep("name=%s,nbobjs=%u,kind=%lu,v01=%llu;", nm ? nm : "(null)", ds[i]->nbobjs, ds[i]->kind, (unsigned long long)ds[i]->values[1]);
      if (u == 1) { int r = hwloc_distances_transform(t, ds[i], HWLOC_DISTANCES_TRANSFORM_REMOVE_NULL, NULL, 0); rep("transform=%d,nbobjs=%u;", r, ds[i]->nbobjs); }
      if (u == 3) { int r = hwloc_distances_release_remove(t, ds[i]); rep("release_remove=%d;", r); if (r < 0) rc = -1; }
      else hwloc_distances_release(t, ds[i]);
    }
    { /* what is left, names through the handles */
      struct hwloc_distances_s *all[32]; unsigned na = 32;
      if (!hwloc_distances_get(t, &na, all, 0, 0)) for (i = 0; i < na && i < 32; i++) { const char *nm = hwloc_distances_get_name(t, all[i]); rep("%s/%u,", nm ? nm : "(null)", all[i]->nbobjs); hwloc_distances_release(t, all[i]); }
    }
    return rc;
  }
  if (sscanf(op, "mreg %255s %lu", a2, &fl) == 2) { hwloc_memattr_id_t id; int rc = hwloc_memattr_register(t, a2, fl, &id); if (!rc) printf("mreg id=%u\n", id); return rc; }
  if (sscanf(op, "mset %u %u %4199s %lld", &u, &u2, a1, &ll) == 4) {
    hwloc_obj_t node = hwloc_get_obj_by_type(t, HWLOC_OBJ_NUMANODE, u2); struct hwloc_location loc; int rc; hwloc_bitmap_t s = NULL;
    if (!node) { errno = ENOENT; return -2; }
    if (a1[0] != '-') { s = hwv_parse_set(a1); if (!s) { errno = EINVAL; return -2; } loc.type = HWLOC_LOCATION_TYPE_CPUSET; loc.location.cpuset = s; }
    rc = hwloc_memattr_set_value(t, u, node, s ? &loc : NULL, 0, (hwloc_uint64_t)ll);
    { int e = errno; if (s) hwloc_bitmap_free(s); errno = e; }
    return rc;
  }
  if (sscanf(op, "kind %4199s %d %255s %255s", a1, &d, a2, a3) == 4) {
    hwloc_bitmap_t s = hwv_parse_set(a1); struct hwloc_info_s inf; struct hwloc_infos_s infs; int rc;
    if (!s) { errno = EINVAL; return -2; }
    inf.name = a2; inf.value = a3; infs.array = &inf; infs.count = 1; infs.allocated = 1;
    rc = hwloc_cpukinds_register(t, s, d, &infs, 0);
    { int e = errno; hwloc_bitmap_free(s); errno = e; }
    return rc;
  }
  if (sscanf(op, "info %d %u %255s %255s", &d, &u, a2, a3) == 4) { hwloc_obj_t o = objat(t, d, u); if (!o) { errno = ENOENT; return -2; } return hwloc_obj_add_info(o, a2, a3); }
  /* emptied-but-still-allocated arrays: remove every info (array stays allocated, count 0), unset userdata */
  if (sscanf(op, "infoclr %d %u", &d, &u) == 2) { hwloc_obj_t o = objat(t, d, u); if (!o) { errno = ENOENT; return -2; } rep("removed=%d;", hwloc_modify_infos(&o->infos, HWLOC_MODIFY_INFOS_OP_REMOVE, NULL, NULL)); return 0; }
  if (!strcmp(op, "tinfoclr")) { rep("removed=%d;", hwloc_modify_infos(hwloc_topology_get_infos(t), HWLOC_MODIFY_INFOS_OP_REMOVE, NULL, NULL)); return 0; }
  if (sscanf(op, "kinfoclr %u", &u) == 1) {      /* what hwloc-annotate cpukind#N does: infos of the kind through hwloc_cpukinds_get_info */
    struct hwloc_infos_s *in = NULL; int rc = hwloc_cpukinds_get_info(t, u, NULL, NULL, &in, 0);
    if (rc < 0 || !in) return -2;
    rep("removed=%d;", hwloc_modify_infos(in, HWLOC_MODIFY_INFOS_OP_REMOVE, NULL, NULL)); return 0;
  }
  if (sscanf(op, "kinfo %u %255s %255s", &u, a2, a3) == 3) {
    struct hwloc_infos_s *in = NULL; int rc = hwloc_cpukinds_get_info(t, u, NULL, NULL, &in, 0);
    if (rc < 0 || !in) return -2;
    return hwloc_modify_infos(in, HWLOC_MODIFY_INFOS_OP_ADD, a2, a3);
  }
  if (sscanf(op, "subtype %d %u %255s", &d, &u, a2) == 3) { hwloc_obj_t o = objat(t, d, u); if (!o) { errno = ENOENT; return -2; } return hwloc_obj_set_subtype(t, o, strcmp(a2, "-") ? a2 : NULL); }
  if (sscanf(op, "udclr %d %u", &d, &u) == 2) { hwloc_obj_t o = objat(t, d, u); if (!o) { errno = ENOENT; return -2; } o->userdata = NULL; return 0; }
  if (sscanf(op, "tinfo %255s %255s", a2, a3) == 2) return hwloc_modify_infos(hwloc_topology_get_infos(t), HWLOC_MODIFY_INFOS_OP_ADD, a2, a3);
  if (!strcmp(op, "refresh")) return hwloc_topology_refresh(t);
  if (sscanf(op, "allow %lu", &fl) == 1) return hwloc_topology_allow(t, NULL, NULL, fl);
  /* hwloc_topology_allow(CUSTOM): allowed cpuset = objects i..j of a depth, or allowed nodeset = NUMA nodes i..j */
  if (sscanf(op, "allowobj %d %u %u", &d, &u, &u2) == 3) {
    hwloc_bitmap_t s = hwloc_bitmap_alloc(); unsigned i; int rc;
    for (i = u; i <= u2 && i < u + 256; i++) { hwloc_obj_t o = objat(t, d, i); if (o && o->cpuset) hwloc_bitmap_or(s, s, o->cpuset); }
    rc = hwloc_topology_allow(t, s, NULL, HWLOC_ALLOW_FLAG_CUSTOM); { int e = errno; hwloc_bitmap_free(s); errno = e; }
    return rc;
  }
  if (sscanf(op, "allownode %u %u", &u, &u2) == 2) {
    hwloc_bitmap_t s = hwloc_bitmap_alloc(); unsigned i; int rc;
    for (i = u; i <= u2 && i < u + 256; i++) { hwloc_obj_t o = hwloc_get_obj_by_type(t, HWLOC_OBJ_NUMANODE, i); if (o) hwloc_bitmap_or(s, s, o->nodeset); }
    rc = hwloc_topology_allow(t, NULL, s, HWLOC_ALLOW_FLAG_CUSTOM); { int e = errno; hwloc_bitmap_free(s); errno = e; }
    return rc;
  }
  if (sscanf(op, "ud %d %u", &d, &u) == 2) { hwloc_obj_t o = objat(t, d, u); if (!o) { errno = ENOENT; return -2; } o->userdata = &hwv_ud_target[u % 4]; return 0; }
  if (!strcmp(op, "tud")) { hwloc_topology_set_userdata(t, &hwv_ud_target[0]); return 0; }
  if (!strcmp(op, "cb")) { hwloc_topology_set_userdata_export_callback(t, hwv_export_cb); hwloc_topology_set_userdata_import_callback(t, hwv_import_cb); return 0; }
  *handled = 0;
  return -3;
}

/* fields of struct hwloc_topology left uninitialised by hwloc__topology_dup(): the dup is run twice under an
 * allocator that fills every block with a different byte; a field whose bytes all equal the fill byte in both runs
 * was never written.  Prints "uninit <field>" lines. */
static unsigned char hwv_fill;
static void *hwv_fill_malloc(struct hwloc_tma *tma, size_t len) { void *p = malloc(len); (void)tma; if (p) memset(p, hwv_fill, len); return p; }
static int all_eq(const void *p, size_t n, unsigned char c) { size_t i; for (i = 0; i < n; i++) if (((const unsigned char *)p)[i] != c) return 0; return 1; }
static void print_uninit(hwloc_topology_t A)
{
  struct hwloc_tma tma; hwloc_topology_t X = NULL, Y = NULL;
  tma.malloc = hwv_fill_malloc; tma.dontfree = 0; tma.data = NULL;
  hwv_fill = 0xA5; if (hwloc__topology_dup(&X, A, &tma) < 0) X = NULL;
  hwv_fill = 0x5A; if (hwloc__topology_dup(&Y, A, &tma) < 0) Y = NULL;
  if (X && Y) {
#define F(name) if (all_eq(&X->name, sizeof(X->name), 0xA5) && all_eq(&Y->name, sizeof(Y->name), 0x5A)) printf("uninit topology.%s\n", #name);
    F(topology_abi) F(nb_levels) F(nb_levels_allocated) F(level_nbobjects) F(levels) F(flags) F(type_depth) F(type_filter) F(state) F(modified)
    F(pid) F(userdata) F(next_gp_index) F(adopted_shmem_addr) F(adopted_shmem_length) F(slevels) F(allowed_cpuset) F(allowed_nodeset)
    F(binding_hooks) F(support) F(infos) F(userdata_export_cb) F(userdata_import_cb) F(userdata_not_decoded) F(first_dist) F(last_dist) F(next_dist_id)
    F(nr_memattrs) F(memattrs) F(nr_cpukinds) F(nr_cpukinds_allocated) F(cpukinds) F(grouping) F(grouping_verbose) F(grouping_nbaccuracies)
    F(grouping_accuracies) F(grouping_next_subkind) F(backends) F(get_pci_busid_cpuset_backend) F(backend_phases) F(backend_excluded_phases) F(tma)
    F(want_some_cpu_caches) F(machine_memory) F(pci_has_forced_locality) F(pci_forced_locality_nr) F(pci_forced_locality) F(pci_locality_quirks)
    F(nr_blacklisted_components) F(blacklisted_components) F(first_pci_locality) F(last_pci_locality)
#undef F
  }
  if (X) hwloc_topology_destroy(X);
  if (Y) hwloc_topology_destroy(Y);
}

/* ---- order-independent observation of the lazily refreshed state: each accessor is the FIRST query on a fresh duplicate */
struct cand { int isobj; hwloc_bitmap_t cs; int depth; unsigned lidx; };
static unsigned collect_cands(hwloc_topology_t A, struct cand *c, unsigned max)
{
  unsigned n = 0, id, j, k, m;
  for (id = 0; ; id++) {
    const char *nm; unsigned ntg = 0; hwloc_obj_t tgs[32];
    if (hwloc_memattr_get_name(A, id, &nm) < 0) break;
    ntg = 32; if (hwloc_memattr_get_targets(A, id, NULL, 0, &ntg, tgs, NULL) < 0) continue;
    for (j = 0; j < ntg && j < 32; j++) {
      struct hwloc_location ins[16]; unsigned ni = 16;
      if (hwloc_memattr_get_initiators(A, id, tgs[j], 0, &ni, ins, NULL) < 0) continue;
      for (k = 0; k < ni && k < 16 && n < max; k++) {
        struct cand x; memset(&x, 0, sizeof x);
        if (ins[k].type == HWLOC_LOCATION_TYPE_OBJECT) { if (!ins[k].location.object) continue; x.isobj = 1; x.depth = ins[k].location.object->depth; x.lidx = ins[k].location.object->logical_index; }
        else x.cs = hwloc_bitmap_dup(ins[k].location.cpuset);
        for (m = 0; m < n; m++) if (c[m].isobj == x.isobj && (x.isobj ? (c[m].depth == x.depth && c[m].lidx == x.lidx) : hwloc_bitmap_isequal(c[m].cs, x.cs))) break;
        if (m == n) c[n++] = x; else if (x.cs) hwloc_bitmap_free(x.cs);
      }
    }
  }
  /* two more that were never registered */
  if (n < max) { c[n].isobj = 1; c[n].cs = NULL; c[n].depth = 0; c[n].lidx = 0; n++; }
  if (n < max) { c[n].isobj = 0; c[n].cs = hwloc_bitmap_dup(hwloc_get_root_obj(A)->cpuset); c[n].depth = 0; c[n].lidx = 0; n++; }
  return n;
}
static int cand_loc(hwloc_topology_t t, struct cand *c, struct hwloc_location *loc)
{
  if (c->isobj) { loc->type = HWLOC_LOCATION_TYPE_OBJECT; loc->location.object = hwloc_get_obj_by_depth(t, c->depth, c->lidx); return loc->location.object ? 0 : -1; }
  loc->type = HWLOC_LOCATION_TYPE_CPUSET; loc->location.cpuset = c->cs; return 0;
}
static void p_obj(FILE *f, hwloc_obj_t o) { if (!o) fputs("NULL", f); else fprintf(f, "%d:%u", (int)o->type, o->logical_index); }
static void p_loc(FILE *f, struct hwloc_location *l) { if (l->type == HWLOC_LOCATION_TYPE_OBJECT) { fputs("o:", f); p_obj(f, l->location.object); } else { fputs("c:", f); hwv_pset(f, l->location.cpuset); } }
static void q_memattr(FILE *f, hwloc_topology_t t, int acc, struct cand *c, unsigned nc)
{
  unsigned id, k, j; hwloc_obj_t node;
  for (id = 0; ; id++) {
    const char *nm;
    if (hwloc_memattr_get_name(t, id, &nm) < 0) break;
    fprintf(f, "attr %u:", id);
    if (acc == 0) {
      for (node = NULL; (node = hwloc_get_next_obj_by_type(t, HWLOC_OBJ_NUMANODE, node)) != NULL; ) {
        struct hwloc_location loc; hwloc_uint64_t v = 0; int rc; memset(&loc, 0, sizeof loc); errno = 0;
        rc = hwloc_memattr_get_best_initiator(t, id, node, 0, &loc, &v);
        fprintf(f, " [%u rc=%d", node->logical_index, rc); if (!rc) { fputc(' ', f); p_loc(f, &loc); fprintf(f, "=%llu", (unsigned long long)v); } else fprintf(f, " %s", hwv_errno_class(errno)); fputc(']', f);
      }
    } else if (acc == 1) {
      for (k = 0; k <= nc; k++) {
        struct hwloc_location loc; hwloc_obj_t best = NULL; hwloc_uint64_t v = 0; int rc; errno = 0;
        if (k < nc && cand_loc(t, &c[k], &loc) < 0) continue;
        rc = hwloc_memattr_get_best_target(t, id, k < nc ? &loc : NULL, 0, &best, &v);
        fprintf(f, " [i%u rc=%d ", k, rc); if (!rc) { p_obj(f, best); fprintf(f, "=%llu", (unsigned long long)v); } else fputs(hwv_errno_class(errno), f); fputc(']', f);
      }
    } else if (acc == 2) {
      for (node = NULL; (node = hwloc_get_next_obj_by_type(t, HWLOC_OBJ_NUMANODE, node)) != NULL; )
        for (k = 0; k <= nc; k++) {
          struct hwloc_location loc; hwloc_uint64_t v = 0; int rc; errno = 0;
          if (k < nc && cand_loc(t, &c[k], &loc) < 0) continue;
          rc = hwloc_memattr_get_value(t, id, node, k < nc ? &loc : NULL, 0, &v);
          if (!rc) fprintf(f, " [%u i%u =%llu]", node->logical_index, k, (unsigned long long)v);
        }
    } else if (acc == 3) {
      for (k = 0; k <= nc; k++) {
        struct hwloc_location loc; hwloc_obj_t tg[32]; hwloc_uint64_t vs[32]; unsigned n = 32; int rc;
        if (k < nc && cand_loc(t, &c[k], &loc) < 0) continue;
        rc = hwloc_memattr_get_targets(t, id, k < nc ? &loc : NULL, 0, &n, tg, vs);
        fprintf(f, " [i%u rc=%d n=%u", k, rc, rc ? 0 : n); for (j = 0; !rc && j < n && j < 32; j++) { fputc(' ', f); p_obj(f, tg[j]); fprintf(f, "=%llu", (unsigned long long)vs[j]); } fputc(']', f);
      }
    } else {
      for (node = NULL; (node = hwloc_get_next_obj_by_type(t, HWLOC_OBJ_NUMANODE, node)) != NULL; ) {
        struct hwloc_location ins[32]; hwloc_uint64_t vs[32]; unsigned n = 32; int rc = hwloc_memattr_get_initiators(t, id, node, 0, &n, ins, vs);
        fprintf(f, " [%u rc=%d n=%u", node->logical_index, rc, rc ? 0 : n); for (j = 0; !rc && j < n && j < 32; j++) { fputc(' ', f); p_loc(f, &ins[j]); fprintf(f, "=%llu", (unsigned long long)vs[j]); } fputc(']', f);
      }
    }
    fputc('\n', f);
  }
}
static void p_dist(FILE *f, hwloc_topology_t t, struct hwloc_distances_s *d)
{
  unsigned j; const char *nm = hwloc_distances_get_name(t, d);
  fprintf(f, " {%s kind=%lu n=%u:", nm ? nm : "(null)", d->kind, d->nbobjs);
  for (j = 0; j < d->nbobjs; j++) { fputc(' ', f); p_obj(f, d->objs[j]); }
  for (j = 0; j < d->nbobjs * d->nbobjs; j++) fprintf(f, " %llu", (unsigned long long)d->values[j]);
  fputc('}', f);
}
static void q_distances(FILE *f, hwloc_topology_t t, int acc, char names[][40], unsigned nnames)
{
  struct hwloc_distances_s *ds[32]; unsigned n, i, k; int d;
  if (acc == 0) { n = 32; if (!hwloc_distances_get(t, &n, ds, 0, 0)) for (i = 0; i < n && i < 32; i++) { p_dist(f, t, ds[i]); hwloc_distances_release(t, ds[i]); } }
  else if (acc == 1) { for (d = -8; d < hwloc_topology_get_depth(t); d++) { n = 32; if (!hwloc_distances_get_by_depth(t, d, &n, ds, 0, 0) && n) { fprintf(f, " depth%d:", d); for (i = 0; i < n && i < 32; i++) { p_dist(f, t, ds[i]); hwloc_distances_release(t, ds[i]); } } } }
  else if (acc == 2) { for (k = 0; k < nnames; k++) { n = 32; if (!hwloc_distances_get_by_name(t, names[k], &n, ds, 0)) { fprintf(f, " %s:", names[k]); for (i = 0; i < n && i < 32; i++) { p_dist(f, t, ds[i]); hwloc_distances_release(t, ds[i]); } } } }
  else { for (k = 0; k < HWLOC_OBJ_TYPE_MAX; k++) { n = 32; if (!hwloc_distances_get_by_type(t, (hwloc_obj_type_t)k, &n, ds, 0, 0) && n) { fprintf(f, " type%u:", k); for (i = 0; i < n && i < 32; i++) { p_dist(f, t, ds[i]); hwloc_distances_release(t, ds[i]); } } } }
  fputc('\n', f);
}
static void q_cpukinds(FILE *f, hwloc_topology_t t, int acc)
{
  hwloc_obj_t pu; int k, nk;
  if (acc == 0) fprintf(f, " nr=%d", hwloc_cpukinds_get_nr(t, 0));
  else if (acc == 1) { for (pu = NULL; (pu = hwloc_get_next_obj_by_type(t, HWLOC_OBJ_PU, pu)) != NULL; ) fprintf(f, " %u:%d", pu->logical_index, hwloc_cpukinds_get_by_cpuset(t, pu->cpuset, 0)); }
  else { nk = hwloc_cpukinds_get_nr(t, 0); for (k = 0; k < nk; k++) { hwloc_bitmap_t cs = hwloc_bitmap_alloc(); int eff = 0; struct hwloc_infos_s *in = NULL; int rc = hwloc_cpukinds_get_info(t, (unsigned)k, cs, &eff, &in, 0); fprintf(f, " [%d rc=%d eff=%d n=%u ", k, rc, eff, in ? in->count : 0); hwv_pset(f, cs); fputc(']', f); hwloc_bitmap_free(cs); } }
  fputc('\n', f);
}
static void print_firstq(hwloc_topology_t A)
{
  struct cand c[16]; unsigned nc = collect_cands(A, c, 16), i; int fam, acc; char names[8][40]; unsigned nnames = 0;
  static const char *mn[] = { "best_initiator", "best_target", "get_value", "get_targets", "get_initiators" }, *dn[] = { "get", "get_by_depth", "get_by_name", "get_by_type" }, *kn[] = { "get_nr", "get_by_cpuset", "get_info" };
  { struct hwloc_distances_s *ds[8]; unsigned n = 8; if (!hwloc_distances_get(A, &n, ds, 0, 0)) for (i = 0; i < n && i < 8; i++) { const char *nm = hwloc_distances_get_name(A, ds[i]); snprintf(names[nnames++], 40, "%s", nm ? nm : "-"); hwloc_distances_release(A, ds[i]); } }
  /* two kinds of fresh duplicates: the public hwloc_topology_dup (refreshes the copy since /repo e42f29e) and the internal
     hwloc__topology_dup(..., NULL) whose caches are invalid (what the shmem writer and other internal callers start from):
     on both, every accessor used first must answer like the original ("firstq" public, "firstq0" internal) */
  int internal;
  for (internal = 0; internal < 2; internal++)
  for (fam = 0; fam < 3; fam++) for (acc = 0; acc < (fam == 0 ? 5 : fam == 1 ? 4 : 3); acc++) {
    hwloc_topology_t D = NULL; char *ba = NULL, *bd = NULL; size_t la = 0, ld = 0; FILE *fa, *fd; const char *nm = fam == 0 ? mn[acc] : fam == 1 ? dn[acc] : kn[acc];
    const char *tag = internal ? "firstq0" : "firstq";
    if ((internal ? hwloc__topology_dup(&D, A, NULL) : hwloc_topology_dup(&D, A)) < 0) { printf("%s %s dup-failed\n", tag, nm); continue; }
    fd = open_memstream(&bd, &ld); fa = open_memstream(&ba, &la);
    /* the copy first: its caches are in the state the dup left them */
    if (fam == 0) { q_memattr(fd, D, acc, c, nc); q_memattr(fa, A, acc, c, nc); }
    else if (fam == 1) { q_distances(fd, D, acc, names, nnames); q_distances(fa, A, acc, names, nnames); }
    else { q_cpukinds(fd, D, acc); q_cpukinds(fa, A, acc); }
    fclose(fd); fclose(fa);
    if (!strcmp(ba, bd)) printf("%s %s.%s same\n", tag, fam == 0 ? "memattr" : fam == 1 ? "distances" : "cpukinds", nm);
    else { printf("%s %s.%s DIFF", tag, fam == 0 ? "memattr" : fam == 1 ? "distances" : "cpukinds", nm); hwv_first_diff(stdout, ba, bd); fputc('\n', stdout); }
    free(ba); free(bd); hwloc_topology_destroy(D);
  }
  for (i = 0; i < nc; i++) if (c[i].cs) hwloc_bitmap_free(c[i].cs);
}

static void print_obscmp(hwloc_topology_t a, hwloc_topology_t b)
{
  char *oa = hwv_observe_str(a, 1), *ob = hwv_observe_str(b, 1);
  if (!strcmp(oa, ob)) printf("obscmp same len=%zu\n", strlen(oa));
  else { fputs("obscmp DIFF", stdout); hwv_first_diff(stdout, oa, ob); fputc('\n', stdout); }
  free(oa); free(ob);
}

static void do_dup(hwloc_topology_t A, hwloc_topology_t *Bp)
{
  int rc; struct hwv_walk wa, wb;
  errno = 0;
  /* The raw-tree, sharing and frame statements of C12 are about hwloc__topology_dup (the model's dup_tree).  Since the
   * /repo fix "refresh the distances and memory attribute caches of a duplicated topology" the public
   * hwloc_topology_dup() is that function followed by hwloc_topology_refresh() on the copy (which, when the ORIGINAL holds
   * stale unrefreshed entries, legitimately drops them from the copy): the public wrapper is exercised by firstq and dupdup. */
  rc = hwloc__topology_dup(Bp, A, NULL);
  printf("dup rc=%d errno=%s\n", rc, rc < 0 ? hwv_errno_class(errno) : "0");
  if (rc < 0) { *Bp = NULL; return; }
  fputs("A\n", stdout); hwv_dump_topology(stdout, A, 0);
  fputs("B\n", stdout); hwv_dump_topology(stdout, *Bp, 0);
  hwv_walk_init(&wa, stdout, A, NULL);
  fputc('P', stdout); fputc('A', stdout); fputc(' ', stdout); hwv_ptree(&wa, A);
  hwv_walk_init(&wb, stdout, *Bp, &wa);
  fputc('P', stdout); fputc('B', stdout); fputc(' ', stdout); hwv_ptree(&wb, *Bp);
  wa.opq = wb.opq; wa.nopq = wb.nopq; wa.capopq = wb.capopq;
  hwv_sharing(stdout, &wa, &wb);
  fflush(stdout);
  hwv_walk_fini(&wb, 0); hwv_walk_fini(&wa, 1);
  { /* allocation sequence of the same dup under a logging allocator */
    struct hwv_alloclog log = { 0 }; struct hwloc_tma tma; hwloc_topology_t C = NULL; unsigned i;
    tma.malloc = hwv_log_malloc; tma.dontfree = 0; tma.data = &log;
    rc = hwloc__topology_dup(&C, A, &tma);
    printf("allocseq %u", log.n);
    for (i = 0; i < log.n; i++) printf(" %zu", log.sizes[i]);
    fputc('\n', stdout);
    if (!rc) hwloc_topology_destroy(C);
    free(log.sizes); free(log.ptrs);
  }
  { /* the public duplicate (hwloc__topology_dup + refresh of the copy) must report what the original reports */
    hwloc_topology_t P = NULL;
    if (hwloc_topology_dup(&P, A) < 0) printf("pubdup rc=-1 errno=%s\n", hwv_errno_class(errno));
    else { char *oa = hwv_observe_str(A, 1), *op = hwv_observe_str(P, 1);
      if (!strcmp(oa, op)) printf("pubdup same\n"); else { fputs("pubdup DIFF", stdout); hwv_first_diff(stdout, oa, op); fputc('\n', stdout); }
      free(oa); free(op); hwloc_topology_destroy(P); } }
  { /* a duplicate of the duplicate must report what the original reports */
    hwloc_topology_t C = NULL; int rc2 = hwloc_topology_dup(&C, *Bp);
    if (rc2 < 0) printf("dupdup rc=-1 errno=%s\n", hwv_errno_class(errno));
    else { char *oa = hwv_observe_str(A, 1), *oc = hwv_observe_str(C, 1);
      if (!strcmp(oa, oc)) printf("dupdup same\n"); else { fputs("dupdup DIFF", stdout); hwv_first_diff(stdout, oa, oc); fputc('\n', stdout); }
      free(oa); free(oc); hwloc_topology_destroy(C); } }
  print_uninit(A);
  print_firstq(A);
  print_obscmp(A, *Bp);
}

int main(void)
{
  char *line = NULL; size_t cap = 0;
  hwloc_topology_t A = NULL, B = NULL; int loaded = 0;
  if (!hwv_bitmap_layout_ok()) { printf("bitmap-layout-mismatch\n"); return 3; }
  while (getline(&line, &cap, stdin) > 0) {
    size_t n = strlen(line);
    while (n && (line[n-1] == '\n' || line[n-1] == '\r')) line[--n] = 0;
    if (!strcmp(line, "new")) {
      if (A) hwloc_topology_destroy(A);
      if (B) hwloc_topology_destroy(B);
      B = NULL; loaded = 0;
      printf("new rc=%d\n", hwloc_topology_init(&A));
    } else if (!strncmp(line, "echo ", 5)) {
      printf("%s\n", line);
    } else if (!strcmp(line, "load")) {
      int rc; errno = 0; rc = hwloc_topology_load(A);
      printf("load rc=%d errno=%s\n", rc, rc < 0 ? hwv_errno_class(errno) : "0"); loaded = rc == 0;
    } else if (!strncmp(line, "pre ", 4)) {
      int h, rc, e;
      if (!loaded) { printf("pre notloaded\n"); fflush(stdout); continue; }
      rc = apply_op(A, line + 4, &h); e = errno;
      printf("pre %s rc=%d errno=%s\n", h ? "ok" : "unknown-op", rc, rc < 0 ? hwv_errno_class(e) : "0");
    } else if (!strcmp(line, "dup")) {
      if (!loaded) printf("dup notloaded\n");
      else { if (B) hwloc_topology_destroy(B); do_dup(A, &B); }
    } else if (!strncmp(line, "mut A ", 6) || !strncmp(line, "mut B ", 6)) {
      hwloc_topology_t x = line[4] == 'A' ? A : B, y = line[4] == 'A' ? B : A;
      int h, rc, e; char *before, *after;
      if (!x || !y) { printf("mut skipped\n"); fflush(stdout); continue; }
      before = hwv_observe_str(y, 1);
      rc = apply_op(x, line + 6, &h); e = errno;
      printf("mut %c %s rc=%d errno=%s\n", line[4], h ? "ok" : "unknown-op", rc, rc < 0 ? hwv_errno_class(e) : "0");
      after = hwv_observe_str(y, 1);
      if (!strcmp(before, after)) printf("frame same\n"); else { fputs("frame DIFF", stdout); hwv_first_diff(stdout, before, after); fputc('\n', stdout); }
      free(before); free(after);
    } else if (!strncmp(line, "both ", 5)) {
      int h, rc1, rc2, e1, e2; char *op2 = strdup(line + 5), *repA;
      if (!A || !B) { printf("both skipped\n"); free(op2); fflush(stdout); continue; }
      rc1 = apply_op(A, line + 5, &h); e1 = errno; repA = strdup(op_report);
      rc2 = apply_op(B, op2, &h); e2 = errno; free(op2);
      printf("both %s rcA=%d errnoA=%s rcB=%d errnoB=%s\n", h ? "ok" : "unknown-op", rc1, rc1 < 0 ? hwv_errno_class(e1) : "0", rc2, rc2 < 0 ? hwv_errno_class(e2) : "0");
      /* the same call on the original and on the copy must answer the same */
      if (rc1 == rc2 && (rc1 >= 0 || e1 == e2) && !strcmp(repA, op_report)) printf("opcmp same [%.200s]\n", repA);
      else printf("opcmp DIFF rcA=%d rcB=%d a=[%.300s] b=[%.300s]\n", rc1, rc2, repA, op_report);
      free(repA);
      print_obscmp(A, B);
      { /* the same view without gp_index (objects by type:logical_index, no XML): must agree even when the op created objects */
        char *oa = hwv_observe_str(A, 2), *ob = hwv_observe_str(B, 2);
        if (!strcmp(oa, ob)) printf("nogpcmp same\n"); else { fputs("nogpcmp DIFF", stdout); hwv_first_diff(stdout, oa, ob); fputc('\n', stdout); }
        free(oa); free(ob); }
    } else if (!strcmp(line, "destroy A") || !strcmp(line, "destroy B")) {
      hwloc_topology_t *x = line[8] == 'A' ? &A : &B, y = line[8] == 'A' ? B : A;
      char *before = y ? hwv_observe_str(y, 1) : NULL, *after;
      if (*x) hwloc_topology_destroy(*x);
      *x = NULL; if (line[8] == 'A') loaded = 0;
      printf("destroy %c\n", line[8]);
      if (y) {
        after = hwv_observe_str(y, 1);
        if (!strcmp(before, after)) printf("frame same\n"); else { fputs("frame DIFF", stdout); hwv_first_diff(stdout, before, after); fputc('\n', stdout); }
        free(after);
      }
      free(before);
    } else if (A && hwv_config_support_line(A, line)) {
      ;
    } else if (A) {
      int r = hwv_config_line(A, line);
      if (r == 0) printf("unknown-command %s\n", line);
      else if (r == 2) printf("config rc=-1 errno=%s\n", hwv_errno_class(errno));
      else if (r < 0) printf("config bad-line\n");
      else printf("config rc=0\n");
    }
    fflush(stdout);
  }
  if (A) hwloc_topology_destroy(A);
  if (B) hwloc_topology_destroy(B);
  free(hwv_xmlbuf); free(line);
  return 0;
}
