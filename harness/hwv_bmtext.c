/* C04 harness: runs the REAL hwloc bitmap printers / parsers (hwloc/bitmap.c is
 * compiled into this unit so that exact representations - word count, infinite
 * flag - can be built) on the case file read from stdin and prints one
 * canonical line per observation; ocaml/drv_c04.ml prints the same lines from
 * the extracted Coq model.
 *
 * Case lines:
 *   P <mode>[<fmt>] <inf> <w0> <w1> ...   words in hex, least significant first;
 *                                  mode a = every buffer length 0..needed+1, s = a sample;
 *                                  fmt h|l|t restricts the case to one format
 *   S <h|l|t> <hexbytes>           parse that string (NUL appended here)
 *   T <base> <hexbytes>            strtoul / strtol of libc (validation of Base/Strto.v)
 * Output lines (see the emitters below); the spec flags computed here on the C
 * outputs are the executable form of the property statement.
 */
#include HV_BITMAP_C
#include <stdio.h>
#include <stdlib.h>
#include <string.h>
#include <errno.h>

#define GUARD 32
#define INITB 0xEE
#define GUARDB 0xA7
#define DIRTY 0xA5A5A5A5A5A5A5A5UL

typedef int (*snprintf_fn)(char *, size_t, hwloc_const_bitmap_t);
typedef int (*asprintf_fn)(char **, hwloc_const_bitmap_t);
typedef int (*sscanf_fn)(hwloc_bitmap_t, const char *);
static const char fmtc[3] = { 'h', 'l', 't' };
static snprintf_fn snp[3] = { hwloc_bitmap_snprintf, hwloc_bitmap_list_snprintf, hwloc_bitmap_taskset_snprintf };
static asprintf_fn asp[3] = { hwloc_bitmap_asprintf, hwloc_bitmap_list_asprintf, hwloc_bitmap_taskset_asprintf };
static sscanf_fn ssc[3] = { hwloc_bitmap_sscanf, hwloc_bitmap_list_sscanf, hwloc_bitmap_taskset_sscanf };

static unsigned cksum(const unsigned char *p, size_t n)
{
  unsigned h = 2166136261u;
  size_t i;
  for (i = 0; i < n; i++) { h ^= p[i]; h *= 16777619u; }
  return h;
}

/* canonical rendering from the raw representation, never through the printers */
static void print_canon(hwloc_const_bitmap_t b)
{
  int n = (int) b->ulongs_count, i;
  unsigned long fill = b->infinite ? ~0UL : 0UL;
  while (n > 0 && b->ulongs[n-1] == fill) n--;
  printf("%d %d", b->infinite ? 1 : 0, n);
  for (i = 0; i < n; i++) printf(" %lx", b->ulongs[i]);
}

static int same_set(hwloc_const_bitmap_t a, hwloc_const_bitmap_t b)
{
  unsigned n = a->ulongs_count > b->ulongs_count ? a->ulongs_count : b->ulongs_count, i;
  if (!!a->infinite != !!b->infinite) return 0;
  for (i = 0; i < n; i++) {
    unsigned long wa = i < a->ulongs_count ? a->ulongs[i] : (a->infinite ? ~0UL : 0UL);
    unsigned long wb = i < b->ulongs_count ? b->ulongs[i] : (b->infinite ? ~0UL : 0UL);
    if (wa != wb) return 0;
  }
  return 1;
}

/* a bitmap whose ulongs hold a known pattern (the sscanf functions leave the
 * words they do not store to as they were) */
static unsigned long dirty_pattern = DIRTY;
static hwloc_bitmap_t dirty_bitmap(size_t nwords)
{
  hwloc_bitmap_t b = hwloc_bitmap_alloc();
  unsigned long *m = malloc(nwords * sizeof(*m));
  size_t i;
  for (i = 0; i < nwords; i++) m[i] = dirty_pattern;
  hwloc_bitmap_from_ulongs(b, (unsigned) nwords, m);
  free(m);
  return b;
}

/* string placed at the very end of an exactly-sized heap block */
static char *tight_string(const unsigned char *bytes, size_t n)
{
  char *s = malloc(n + 1);
  memcpy(s, bytes, n);
  s[n] = 0;
  return s;
}

static size_t unhex(const char *h, unsigned char *out)
{
  size_t n = 0;
  while (h[0] && h[1] && h[0] != '\n') {
    unsigned v;
    if (sscanf(h, "%2x", &v) != 1) break;
    out[n++] = (unsigned char) v;
    h += 2;
  }
  return n;
}

static void do_print(char mode, char only, hwloc_bitmap_t set)
{
  int f;
  for (f = 0; f < 3; f++) {
    if (only && fmtc[f] != only)
      continue;
    char *text = NULL, *text2;
    int needed = snp[f](NULL, 0, set);
    int ares = asp[f](&text, set);
    int L, rt, rc;
    hwloc_bitmap_t back;
    /* asprintf == snprintf: same length, same text as a comfortably large snprintf */
    text2 = malloc(needed + 2);
    memset(text2, INITB, needed + 2);
    rc = snp[f](text2, needed + 2, set);
    printf("p %c %d %s\n", fmtc[f], needed, text);
    printf("a %c %d %d\n", fmtc[f], ares,
           (ares == needed && rc == needed && (int) strlen(text) == needed && !strcmp(text, text2)) ? 1 : 0);
    /* round trip on the implementation itself */
    back = dirty_bitmap(needed / 2 + 4);
    {
      char *t = tight_string((unsigned char *) text, needed);
      rc = ssc[f](back, t);
      free(t);
    }
    rt = (rc == 0 && same_set(back, set));
    printf("r %c %d %d\n", fmtc[f], rc, rt);
    hwloc_bitmap_free(back);
    /* every buffer length, guard bytes on both sides */
    for (L = 0; L <= needed + 1; L++) {
      unsigned char *blk;
      char *buf;
      int ret, ok = 1, i, k;
      if (mode == 's' && !(L <= 2 || L >= needed - 1 || L == needed / 2 || L == 8 || L == 11))
        continue;
      blk = malloc(L + 2 * GUARD);
      memset(blk, GUARDB, L + 2 * GUARD);
      buf = (char *) blk + GUARD;
      memset(buf, INITB, L);
      ret = snp[f](L ? buf : NULL, L, set);
      if (ret != needed) ok = 0;
      for (i = 0; i < GUARD; i++)
        if (blk[i] != GUARDB || blk[GUARD + L + i] != GUARDB) ok = 0;
      if (L > 0) {
        k = needed < L - 1 ? needed : L - 1;
        if (buf[k] != 0 || memcmp(buf, text, k)) ok = 0;
      }
      printf("b %c %d %d %08x %d\n", fmtc[f], L, ret, cksum((unsigned char *) buf, L), ok);
      free(blk);
    }
    free(text);
    free(text2);
  }
}

static void do_parse(char fc, const unsigned char *bytes, size_t n)
{
  int f = fc == 'h' ? 0 : fc == 'l' ? 1 : 2;
  char *s = tight_string(bytes, n);
  hwloc_bitmap_t set = dirty_bitmap(n / 2 + 4);
  int rc, stable = 1;
  fflush(stdout);
  rc = ssc[f](set, s);
  printf("s %c %d ", fc, rc);
  print_canon(set);
  if (rc == 0) {
    /* whatever is accepted is stable under print-then-parse */
    char *text = NULL;
    hwloc_bitmap_t back = dirty_bitmap(4);
    int rc2;
    asp[f](&text, set);
    {
      char *t = tight_string((unsigned char *) text, strlen(text));
      hwloc_bitmap_free(back);
      back = dirty_bitmap(strlen(text) / 2 + 4);
      rc2 = ssc[f](back, t);
      free(t);
    }
    stable = (rc2 == 0 && same_set(back, set));
    free(text);
    hwloc_bitmap_free(back);
  } else if (rc != -1 || !hwloc_bitmap_iszero(set)) {
    stable = 0;
  }
  /* the accepted value must be a function of the string alone: the same parse
   * into REUSED destinations with other previous contents (another word
   * pattern, empty, full, {4-7,128-}, a 20-word finite set, an infinite set with
   * 20 words, the result itself) must give the same bitmap and return value */
  {
    int det = 1, k;
    for (k = 0; k < 7; k++) {
      hwloc_bitmap_t other;
      unsigned long m[20];
      int rc3, i;
      switch (k) {
      case 0:
        dirty_pattern = ~DIRTY;
        other = dirty_bitmap(n / 2 + 4);
        dirty_pattern = DIRTY;
        break;
      case 1: other = hwloc_bitmap_alloc(); break;
      case 2: other = hwloc_bitmap_alloc_full(); break;
      case 3:
        other = hwloc_bitmap_alloc();
        hwloc_bitmap_set_range(other, 4, 7);
        hwloc_bitmap_set_range(other, 128, -1);
        break;
      case 4:
      case 5:
        for (i = 0; i < 20; i++) m[i] = 0x0123456789abcdefUL * (i + 1) | 1;
        other = hwloc_bitmap_alloc();
        hwloc_bitmap_from_ulongs(other, 20, m);
        if (k == 5) other->infinite = 1;
        break;
      default: other = hwloc_bitmap_dup(set); break;
      }
      rc3 = ssc[f](other, s);
      if (rc3 != rc || !same_set(other, set)) det = 0;
      hwloc_bitmap_free(other);
    }
    printf(" %d %d\n", stable, det);
  }
  hwloc_bitmap_free(set);
  free(s);
}

static void do_strto(int base, const unsigned char *bytes, size_t n)
{
  char *s = tight_string(bytes, n), *e1, *e2;
  unsigned long u = strtoul(s, &e1, base);
  long l = strtol(s, &e2, base);
  printf("t %d %lx %ld %lx %ld\n", base, u, (long) (e1 - s), (unsigned long) l, (long) (e2 - s));
  free(s);
}

int main(void)
{
  static char line[1 << 16];
  static unsigned char bytes[1 << 15];
  setvbuf(stdout, NULL, _IOFBF, 1 << 16);
  while (fgets(line, sizeof line, stdin)) {
    if (line[0] == 'P') {
      unsigned long w[512];
      unsigned nw = 0;
      int inf = 0, off = 0, adv;
      char mode = 'a', ms[8] = "";
      hwloc_bitmap_t set;
      if (sscanf(line + 1, " %7s %d%n", ms, &inf, &off) < 2) continue;
      mode = ms[0];
      off += 1;
      while (nw < 512 && sscanf(line + off, " %lx%n", &w[nw], &adv) == 1) { off += adv; nw++; }
      if (!nw) { w[0] = 0; nw = 1; }
      set = hwloc_bitmap_alloc();
      hwloc_bitmap_from_ulongs(set, nw, w);
      set->infinite = inf;
      printf("P ");
      print_canon(set);
      printf("\n");
      do_print(mode, ms[1], set);
      hwloc_bitmap_free(set);
    } else if (line[0] == 'S') {
      size_t n = unhex(line + 4, bytes);
      printf("S\n");
      fflush(stdout);
      do_parse(line[2], bytes, n);
    } else if (line[0] == 'T') {
      int base = 0, off = 0;
      size_t n;
      sscanf(line + 1, " %d %n", &base, &off);
      n = unhex(line + 1 + off, bytes);
      do_strto(base, bytes, n);
    }
    fflush(stdout);
  }
  return 0;
}
