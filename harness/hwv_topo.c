#define _GNU_SOURCE
#include <sched.h>
#include <sys/syscall.h>
#include <unistd.h>
/* C01/C18 harness: load a topology from a scripted configuration and print the
 * canonical dump.  Script on stdin; several topologies per process:
 *   new / <config lines, see hwv_load.h> / load / dump [flags] / check / destroy / echo <text>
 */
#include "hwv_dump.h"
#include "hwv_load.h"
#include <unistd.h>
#include <sys/wait.h>
#include <signal.h>

#ifdef HWLOC_VERIF
extern void (*hwloc_verif_phase_cb)(struct hwloc_topology *topology, int phase);
static void phase_cb(struct hwloc_topology *t, int phase) { hwv_dump_raw(stdout, t, phase); }
extern void (*hwloc_verif_insert_cb)(struct hwloc_topology *topology, int when, struct hwloc_obj *root, struct hwloc_obj *obj, struct hwloc_obj *result);
static void insert_cb(struct hwloc_topology *t, int when, struct hwloc_obj *root, struct hwloc_obj *obj, struct hwloc_obj *result)
{ hwv_dump_insert(stdout, t, when, root, obj, result); }
/* phases 3: light trace, for inputs too large to print the whole tree around every insertion */
static void insert_cb_light(struct hwloc_topology *t, int when, struct hwloc_obj *root, struct hwloc_obj *obj, struct hwloc_obj *result)
{
  static int in_find_parent = 0;
  (void)result;
  if (when == 0 && !in_find_parent && root == hwloc_get_root_obj(t)) hwv_dump_request(stdout, t, 20, obj);
  else if (when == 2) { hwv_dump_request(stdout, t, 22, obj); in_find_parent = 1; }
  else if (when == 3) in_find_parent = 0;
}

/* The Linux backend is about to read the CPU topology from sysfs: print what it will see (file contents in hex),
 * for the model of look_sysfscpu (Topo/LinuxCpu.v).  Same access path as the backend: relative to root_fd. */
#include <dirent.h>
#include <fcntl.h>
extern void (*hwloc_verif_linuxcpu_cb)(struct hwloc_topology *topology, int root_fd, int old_filenames, int arch_s390, int is_amd_with_CU, int is_knl, int want_some_cpu_caches) __attribute__((weak));
static const char *lc_rel(const char *path, int root_fd) { if (root_fd >= 0) while (*path == '/') path++; return path; }
static void lc_file(int root_fd, const char *path, const char *tag)
{
  /* prints "<tag> <hex of the content>" or nothing when the file cannot be opened or read (the backend treats both alike) */
  char buf[65536]; ssize_t n, tot = 0; int fd = openat(root_fd, lc_rel(path, root_fd), O_RDONLY);
  if (fd < 0) return;
  while (tot < (ssize_t)sizeof(buf) && (n = read(fd, buf + tot, sizeof(buf) - tot)) > 0) tot += n;
  close(fd);
  if (tot <= 0) { printf("%s -empty\n", tag); return; }
  printf("%s ", tag);
  for (n = 0; n < tot; n++) printf("%02x", (unsigned char)buf[n]);
  printf("\n");
}
static void linuxcpu_cb(struct hwloc_topology *t, int root_fd, int old_filenames, int s390, int amdcu, int knl, int caches)
{
  const char *env = getenv("HWLOC_DONT_MERGE_CLUSTER_GROUPS");
  DIR *dir; struct dirent *de; char path[512], tag[64]; int dfd;
  static const char *tf_new[] = {"core_cpus", "cluster_cpus", "die_cpus", "package_cpus", "book_siblings", "drawer_siblings", NULL};
  static const char *tf_old[] = {"thread_siblings", "cluster_cpus", "die_cpus", "core_siblings", "book_siblings", "drawer_siblings", NULL};
  static const char *tk[] = {"core", "cluster", "die", "pkg", "book", "drawer"};
  static const char *idf[] = {"core_id", "cluster_id", "die_id", "physical_package_id", "book_id", "drawer_id", NULL};
  static const char *cf[] = {"shared_cpu_map", "level", "type", "id", "size", "coherency_line_size", "number_of_sets", "physical_line_partition", NULL};
  static const char *ck[] = {"map", "level", "type", "id", "size", "line", "sets", "lpt"};
  (void)t;
  printf("lcpu begin old=%d s390=%d amdcu=%d knl=%d caches=%d dmcg=%d\n", old_filenames, s390, amdcu, knl, caches, env && atoi(env));
  lc_file(root_fd, "/sys/devices/system/cpu/online", "lcpu online");
  dfd = openat(root_fd, lc_rel("/sys/devices/system/cpu", root_fd), O_RDONLY | O_DIRECTORY);
  dir = dfd >= 0 ? fdopendir(dfd) : NULL;
  if (!dir) { printf("lcpu nodir\nlcpu end\n"); return; }
  while ((de = readdir(dir)) != NULL) {
    unsigned long cpu; char *end; int i, j, topo;
    if (strncmp(de->d_name, "cpu", 3)) continue;
    cpu = strtoul(de->d_name + 3, &end, 0);
    if (end == de->d_name + 3) continue;
    snprintf(path, sizeof(path), "/sys/devices/system/cpu/cpu%lu/topology", cpu);
    topo = !(faccessat(root_fd, lc_rel(path, root_fd), X_OK, 0) < 0 && errno == ENOENT);
    printf("lcpu cpu %lu topo=%d\n", cpu, topo);
    snprintf(path, sizeof(path), "/sys/devices/system/cpu/cpu%lu/online", cpu);
    snprintf(tag, sizeof(tag), "lcpu f %lu on", cpu); lc_file(root_fd, path, tag);
    for (i = 0; tf_new[i]; i++) {
      snprintf(path, sizeof(path), "/sys/devices/system/cpu/cpu%lu/topology/%s", cpu, (old_filenames ? tf_old : tf_new)[i]);
      snprintf(tag, sizeof(tag), "lcpu f %lu %s", cpu, tk[i]); lc_file(root_fd, path, tag);
      snprintf(path, sizeof(path), "/sys/devices/system/cpu/cpu%lu/topology/%s", cpu, idf[i]);
      snprintf(tag, sizeof(tag), "lcpu f %lu %s_id", cpu, tk[i]); lc_file(root_fd, path, tag);
    }
    for (j = 0; j < 10; j++)
      for (i = 0; cf[i]; i++) {
        snprintf(path, sizeof(path), "/sys/devices/system/cpu/cpu%lu/cache/index%d/%s", cpu, j, cf[i]);
        snprintf(tag, sizeof(tag), "lcpu c %lu %d %s", cpu, j, ck[i]); lc_file(root_fd, path, tag);
      }
  }
  closedir(dir);
  printf("lcpu end\n");
}
#endif

/* The x86 backend is about to build objects from the per-PU information gathered by CPUID: print it for the model of
 * summarize() (Topo/X86.v) */
#ifdef HWLOC_VERIF
extern void (*hwloc_verif_x86_cb)(struct hwloc_topology *topology, const char *line) __attribute__((weak));
static void x86_cb(struct hwloc_topology *t, const char *line) { (void)t; printf("x86 %s\n", line); }
#endif

int main(void)
{
  char *line = NULL; size_t cap = 0;
  hwloc_topology_t t = NULL;
  int loaded = 0;
  while (getline(&line, &cap, stdin) > 0) {
    size_t n = strlen(line);
    while (n && (line[n-1] == '\n' || line[n-1] == '\r')) line[--n] = 0;
    if (!strcmp(line, "new")) {
      if (t) hwloc_topology_destroy(t);
      loaded = 0;
      printf("new rc=%d\n", hwloc_topology_init(&t));
    } else if (!strncmp(line, "phases ", 7)) {
      /* phases 1|0 : print the raw tree at the phase boundaries of hwloc_discover (needs the HWLOC_VERIF hook) */
#ifdef HWLOC_VERIF
      hwloc_verif_phase_cb = atoi(line + 7) ? phase_cb : NULL;
      hwloc_verif_insert_cb = atoi(line + 7) == 2 ? insert_cb : atoi(line + 7) >= 3 ? insert_cb_light : NULL;   /* phases 2: trace every insertion by cpuset with the tree around it; 3: only the objects handed to the core */
      if (&hwloc_verif_linuxcpu_cb) hwloc_verif_linuxcpu_cb = atoi(line + 7) >= 2 ? linuxcpu_cb : NULL;   /* hook absent in older trees */
      if (&hwloc_verif_x86_cb) hwloc_verif_x86_cb = atoi(line + 7) >= 2 ? x86_cb : NULL;
      printf("phases rc=0\n");
#else
      printf("phases rc=-1\n");
#endif
    } else if (!strncmp(line, "bindself ", 9)) {
      /* bindself all | <cpu>[,<cpu>...] : OS binding of this process (what RESTRICT_TO_CPUBINDING looks at) */
      static cpu_set_t initial; static int have_initial = 0; cpu_set_t set; int rc;
      if (!have_initial) { sched_getaffinity(0, sizeof(initial), &initial); have_initial = 1; }
      if (!strcmp(line + 9, "all")) set = initial;
      else { char *p = line + 9; CPU_ZERO(&set); while (*p) { CPU_SET((int) strtol(p, &p, 10), &set); if (*p == ',') p++; } }
      rc = sched_setaffinity(0, sizeof(set), &set);
      printf("bindself rc=%d\n", rc);
    } else if (!strncmp(line, "membindself ", 12)) {
      /* membindself default | <node>[,<node>...] : memory policy of this thread (what RESTRICT_TO_MEMBINDING looks at);
       * raw syscall, no libnuma: MPOL_DEFAULT = 0, MPOL_BIND = 2 */
      unsigned long mask[4] = { 0, 0, 0, 0 }; long rc;
      if (!strcmp(line + 12, "default")) rc = syscall(SYS_set_mempolicy, 0, NULL, 0);
      else { char *p = line + 12; while (*p) { long n = strtol(p, &p, 10); if (n >= 0 && n < 256) mask[n / (8 * sizeof(long))] |= 1UL << (n % (8 * sizeof(long))); if (*p == ',') p++; }
             rc = syscall(SYS_set_mempolicy, 2, mask, 8 * sizeof(mask) + 1); }
      printf("membindself rc=%ld\n", rc);
    } else if (!strncmp(line, "echo ", 5)) {
      printf("%s\n", line);
    } else if (!strcmp(line, "load")) {
      int rc; errno = 0;
      rc = hwloc_topology_load(t);
      printf("load rc=%d errno=%s\n", rc, rc < 0 ? hwv_errno_class(errno) : "0");
      loaded = (rc == 0);
    } else if (!strncmp(line, "dump", 4)) {
      if (loaded) hwv_dump_topology(stdout, t, line[4] ? atoi(line + 5) : 0); else printf("nodump\n");
    } else if (!strcmp(line, "check")) {
      /* hwloc_topology_check() asserts: run it in a child so that an abort is a result */
      pid_t pid; int st = 0;
      fflush(stdout);
      pid = fork();
      if (!pid) { if (loaded) hwloc_topology_check(t); _exit(0); }
      waitpid(pid, &st, 0);
      printf("check %s\n", WIFEXITED(st) && WEXITSTATUS(st) == 0 ? "ok" : "abort");
    } else if (!strcmp(line, "destroy")) {
      if (t) hwloc_topology_destroy(t);
      t = NULL; loaded = 0;
      printf("destroy\n");
    } else if (t) {
      int r;
#ifdef HWLOC_VERIF
      /* the model of the synthetic backend (Topo/SynthBuild.v) needs the description when insertions are traced */
      if (!strncmp(line, "src synthetic ", 14) && hwloc_verif_insert_cb) printf("synthdesc %s\n", line + 14);
#endif
      r = hwv_config_line(t, line);
      if (r == 0) printf("unknown-command %s\n", line);
      else if (r == 2) printf("config rc=-1 errno=%s\n", hwv_errno_class(errno));
      else if (r < 0) printf("config bad-line\n");
      else printf("config rc=0\n");
    }
    fflush(stdout);
  }
  if (t) hwloc_topology_destroy(t);
  free(hwv_xmlbuf);
  free(line);
  return 0;
}
