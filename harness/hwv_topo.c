/* C01/C18 harness: load a topology from a scripted configuration and print the
 * canonical dump.  Script on stdin; several topologies per process:
 *   new / <config lines, see hwv_load.h> / load / dump [flags] / check / destroy / echo <text>
 */
#include "hwv_dump.h"
#include "hwv_load.h"
#include <unistd.h>
#include <sys/wait.h>
#include <signal.h>

#ifdef HWLOC_VERIF
extern void (*hwloc_verif_phase_cb)(struct hwloc_topology *topology, int phase);
static void phase_cb(struct hwloc_topology *t, int phase) { hwv_dump_raw(stdout, t, phase); }
extern void (*hwloc_verif_insert_cb)(struct hwloc_topology *topology, int when, struct hwloc_obj *root, struct hwloc_obj *obj, struct hwloc_obj *result);
static void insert_cb(struct hwloc_topology *t, int when, struct hwloc_obj *root, struct hwloc_obj *obj, struct hwloc_obj *result)
{ hwv_dump_insert(stdout, t, when, root, obj, result); }
#endif

int main(void)
{
  char *line = NULL; size_t cap = 0;
  hwloc_topology_t t = NULL;
  int loaded = 0;
  while (getline(&line, &cap, stdin) > 0) {
    size_t n = strlen(line);
    while (n && (line[n-1] == '\n' || line[n-1] == '\r')) line[--n] = 0;
    if (!strcmp(line, "new")) {
      if (t) hwloc_topology_destroy(t);
      loaded = 0;
      printf("new rc=%d\n", hwloc_topology_init(&t));
    } else if (!strncmp(line, "phases ", 7)) {
      /* phases 1|0 : print the raw tree at the phase boundaries of hwloc_discover (needs the HWLOC_VERIF hook) */
#ifdef HWLOC_VERIF
      hwloc_verif_phase_cb = atoi(line + 7) ? phase_cb : NULL;
      hwloc_verif_insert_cb = atoi(line + 7) >= 2 ? insert_cb : NULL;   /* phases 2: also trace every insertion by cpuset */
      printf("phases rc=0\n");
#else
      printf("phases rc=-1\n");
#endif
    } else if (!strncmp(line, "echo ", 5)) {
      printf("%s\n", line);
    } else if (!strcmp(line, "load")) {
      int rc; errno = 0;
      rc = hwloc_topology_load(t);
      printf("load rc=%d errno=%s\n", rc, rc < 0 ? hwv_errno_class(errno) : "0");
      loaded = (rc == 0);
    } else if (!strncmp(line, "dump", 4)) {
      if (loaded) hwv_dump_topology(stdout, t, line[4] ? atoi(line + 5) : 0); else printf("nodump\n");
    } else if (!strcmp(line, "check")) {
      /* hwloc_topology_check() asserts: run it in a child so that an abort is a result */
      pid_t pid; int st = 0;
      fflush(stdout);
      pid = fork();
      if (!pid) { if (loaded) hwloc_topology_check(t); _exit(0); }
      waitpid(pid, &st, 0);
      printf("check %s\n", WIFEXITED(st) && WEXITSTATUS(st) == 0 ? "ok" : "abort");
    } else if (!strcmp(line, "destroy")) {
      if (t) hwloc_topology_destroy(t);
      t = NULL; loaded = 0;
      printf("destroy\n");
    } else if (t) {
      int r;
#ifdef HWLOC_VERIF
      /* the model of the synthetic backend (Topo/SynthBuild.v) needs the description when insertions are traced */
      if (!strncmp(line, "src synthetic ", 14) && hwloc_verif_insert_cb) printf("synthdesc %s\n", line + 14);
#endif
      r = hwv_config_line(t, line);
      if (r == 0) printf("unknown-command %s\n", line);
      else if (r == 2) printf("config rc=-1 errno=%s\n", hwv_errno_class(errno));
      else if (r < 0) printf("config bad-line\n");
      else printf("config rc=0\n");
    }
    fflush(stdout);
  }
  if (t) hwloc_topology_destroy(t);
  free(hwv_xmlbuf);
  free(line);
  return 0;
}
