#!/usr/bin/env python3
"""Switch the C13 model and property file to the code as it is AFTER the five
patches /verif/patches/fix-C13-*.diff are committed to the repository.
Usage: python3 corpus/c13/postfix/make_postfix.py [--only null-first,merge-ports,by-name,xml-kind-zero]
Edits coq/Attr/Distances.v (FIX_* := true) and coq/Props/Properties_C13.v
(drops the _refuted/_partial theorems of the fixed defects, the _postfix
theorems become the full statements)."""
import re, sys, os
V = os.path.dirname(os.path.dirname(os.path.dirname(os.path.dirname(os.path.abspath(__file__)))))
which = {"null-first", "merge-ports", "by-name", "xml-kind-zero", "groups-firstfound"}
if len(sys.argv) > 2 and sys.argv[1] == "--only":
    which = set(sys.argv[2].split(","))
flag = {"null-first": "FIX_NULL_FIRST", "merge-ports": "FIX_MERGE_PORTS", "by-name": "FIX_BY_NAME_KIND", "xml-kind-zero": "FIX_XML_KIND_ZERO", "groups-firstfound": "FIX_GROUPS_FIRSTFOUND"}
stem = {"null-first": "dist_reject_identity", "merge-ports": "transform_merge_ports_keeps_nonports", "by-name": "dist_get_by_name", "xml-kind-zero": "xml_roundtrip_kind_zero", "groups-firstfound": "find_groups_closed"}
m = os.path.join(V, "coq/Attr/Distances.v")
s = open(m).read()
for w in which:
    s = re.sub(r"Definition %s : bool := false\." % flag[w], "Definition %s : bool := true." % flag[w], s)
open(m, "w").write(s)
p = os.path.join(V, "coq/Props/Properties_C13.v")
s = open(p).read()
def drop(name, s):
    return re.sub(r"\n(?:Theorem|Example) %s\b.*?Qed\.\n(?:Print Assumptions %s\.\n)?" % (name, name), "\n", s, flags=re.S)
for w in which:
    s = drop(stem[w] + "_refuted", s)
    s = drop(stem[w] + "_partial", s)
    s = s.replace(stem[w] + "_postfix", stem[w])
    s = s.replace("%s = false" % flag[w], "%s = true" % flag[w])
if "merge-ports" in which:
    s = drop("transform_merge_ports_current_drops_all", s)
open(p, "w").write(s)
print("switched:", sorted(which))
