#!/bin/sh
# developer helper: ./mk.sh Topo/Obj.vo ...   (locked, incremental make of the given Coq targets)
cd /verif && python3 -c "
import sys; sys.path.insert(0,'/verif')
from hv import common as C
ok,log=C.coq_make(sys.argv[1:])
print(log[-6000:]); sys.exit(0 if ok else 1)" "$@"
