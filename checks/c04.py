"""C04: bitmap <-> string conversions round-trip and honour the snprintf contract.

proof   : coq/Props/Properties_C04.v (model Bitmap/BitmapText.v over Base/{Bytes,Strto,Snprintf})
tie     : harness/hwv_bmtext.c (real hwloc/bitmap.c) vs ocaml/drv_c04.ml (extracted model), same case file
search  : boundary-enumerated + random bitmaps (every buffer length 0..needed+1, guard bytes, asprintf,
          round trip on the C code itself), strings from the three grammars, mutated strings, raw bytes,
          each parsed from the end of an exactly-sized heap block under ASan; strtoul/strtol sweep against libc.
"""
import concurrent.futures
import glob
import os
import re

from hv import common as C
from gen import bmtext_gen as G

N_CHUNKS = max(4, min(16, C.NCPU))


def prebuild():
    _tools()


def _tools():
    drv = C.extract("C04", "drv_c04.ml")
    exe = C.build_harness("hwv_bmtext", ["hwv_bmtext.c"],
                          extra_flags=['-DHV_BITMAP_C="%s"' % os.path.join(C.REPO, "hwloc/bitmap.c")])
    return drv, exe


def hexs(b):
    return bytes(b).hex()


def P(mode, inf, ws):
    return "P %s %d %s" % (mode, inf, " ".join("%x" % w for w in ws))


def S(fmt, b):
    return ("S %s %s" % (fmt, hexs(b))).rstrip()


def T(base, b):
    return ("T %d %s" % (base, hexs(b))).rstrip()


def gen_cases(run):
    rng = run.rng
    scale = 20 if run.tier == "thorough" else 1
    cases = []
    # corpus first
    for p in sorted(glob.glob(os.path.join(C.VERIF, "corpus", "c04", "*.case"))):
        for line in open(p):
            line = line.strip()
            if line and line[0] in "PST":
                cases.append(line)
    n_corpus = len(cases)
    # --- bitmaps: boundaries enumerated, then random
    for inf, ws in G.boundary_bitmaps():
        cases.append(P("a", inf, ws))
    n_rand = 4200 * scale
    for i in range(n_rand):
        inf, ws = G.random_bitmap(rng)
        cases.append(P("a" if (i % 4 == 0 or len(ws) <= 2) else "s", inf, ws))
    # --- output lengths enumerated (asprintf == snprintf at every length): for each format x
    # finite/infinite one bitmap per text length 1..320 and around every power of two up to 4096
    for f, L, inf, ws in G.length_targeted_bitmaps(rng):
        cases.append("P s%s %d %s" % (f, inf, " ".join("%x" % w for w in ws)))
        run.bump("print-length-targeted")
    # --- strings
    for h in G.HOSTILE:
        for f in "hlt":
            if f == "l" and not G.list_values_ok(h):
                run.bump("str-list-skipped-huge-index")
                continue
            cases.append(S(f, h))
    n_str = 6300 * scale
    gens = {"h": G.gen_hwloc_string, "l": G.gen_list_string, "t": G.gen_taskset_string}
    for i in range(n_str):
        for f in "hlt":
            r = rng.random()
            if r < 0.40:
                b = gens[f](rng).encode("latin-1")
                run.bump("str-grammar")
            elif r < 0.78:
                # mutated: sometimes from another format's grammar
                g = gens[f] if rng.random() < 0.8 else gens[rng.choice("hlt")]
                b = G.mutate(rng, g(rng))
                run.bump("str-mutated")
            else:
                b = G.raw_bytes(rng)
                run.bump("str-raw")
            if f == "l" and not G.list_values_ok(b):
                run.bump("str-list-skipped-huge-index")
                continue
            cases.append(S(f, b))
    # --- strto sweep (validation of Base/Strto.v against libc)
    for i in range(1500 * scale):
        s = rng.choice(["", " ", "  ", "\t", "\n "]) if rng.random() < 0.3 else ""
        s += rng.choice(["", "", "", "-", "+", "--"])
        s += rng.choice(["", "", "0x", "0X", "0", "00"])
        s += "".join(rng.choice("0123456789abcdefABCDEFxzg") for _ in range(rng.choice([0, 1, 2, 3, 8, 15, 16, 17, 19, 20, 21, 22, 25])))
        s += rng.choice(["", "", ",", "-", " ", "x", "g"])
        for base in (0, 10, 16):
            cases.append(T(base, s.encode()))
    for s in [b"18446744073709551615", b"18446744073709551616", b"-18446744073709551615", b"9223372036854775807",
              b"9223372036854775808", b"-9223372036854775808", b"-9223372036854775809", b"0xffffffffffffffff",
              b"0x10000000000000000", b"0x", b"0xg", b"-0x", b"0", b"-0", b"08", b"0x0x1", b"1777777777777777777777",
              b"01777777777777777777777", b"02000000000000000000000", b"", b" ", b"-", b"+", b" +5", b"\x0b7", b"\xa07"]:
        for base in (0, 10, 16):
            cases.append(T(base, s))
    return cases, n_corpus


def split_out(txt):
    """Output -> list of per-case chunks (a chunk starts with 'P ', 'S' or 't ')."""
    chunks, cur = [], None
    for line in txt.split("\n"):
        if not line:
            continue
        if line.startswith("P ") or line == "S" or line.startswith("t "):
            cur = [line]
            chunks.append(cur)
        elif cur is not None:
            cur.append(line)
    return chunks


def run_prog(cmd, lines, env=None, timeout=600):
    inp = ("\n".join(lines) + "\n").encode()
    rc, out, err = C.sh(cmd, input=inp, env=env, timeout=timeout)
    return rc, out.decode("latin-1"), err.decode("latin-1", errors="replace")


def run_c_resilient(exe, lines):
    """Run the C harness; when it dies on a case, record (index, rc, stderr) and
    go on with the cases after it.  Returns (chunks aligned with lines (None for
    the crashed ones), crashes)."""
    res = [None] * len(lines)
    crashes = []
    start = 0
    while start < len(lines):
        rc, out, err = run_prog([exe], lines[start:], env=C.run_env())
        ch = split_out(out)
        if rc == 0 and len(ch) == len(lines) - start:
            res[start:] = ch
            break
        # the last chunk may be the incomplete one of the crashing case
        ncomplete = len(ch)
        if ncomplete and not _complete(lines[start + ncomplete - 1], ch[-1]):
            ncomplete -= 1
        if rc == 0 and ncomplete >= len(lines) - start:
            res[start:] = ch[:len(lines) - start]
            break
        res[start:start + ncomplete] = ch[:ncomplete]
        crashes.append((start + ncomplete, rc, err[-3000:]))
        start = start + ncomplete + 1
        if len(crashes) > 12:
            break
    return res, crashes


def _complete(case, chunk):
    if case[0] == "S":
        return len(chunk) == 2
    if case[0] == "T":
        return len(chunk) == 1
    return True   # P: cannot tell; a crash inside is reported on that case anyway


def crash_kind(rc, err):
    if rc == 97 or "AddressSanitizer" in err:
        m = re.search(r"AddressSanitizer: (\S+)", err)
        return "asan-" + (m.group(1) if m else "error")
    if rc == 98 or "runtime error" in err:
        return "ubsan"
    if rc == 96:
        return "lsan"
    if rc in (-6, 134) or "Assertion" in err:
        return "assert"
    if rc == 124:
        return "timeout"
    return "rc%d" % rc


def case_bytes(case):
    t = case.split()
    return bytes.fromhex(t[2]) if len(t) > 2 else b""


def finding_key(case, kind):
    """Keys name the specific input class / call site."""
    t = case.split()
    if t[0] == "S":
        b = case_bytes(case)
        if t[1] == "h" and b == b"" and kind.startswith("asan"):
            return "sscanf-empty-string"
        if t[1] == "h" and b[:1] == b"," and kind == "assert":
            return "sscanf-leading-comma-assert"
        return "parse-%s:%s:%s" % (kind, t[1], b.hex() or "empty")
    return "%s:%s" % (kind, case.replace(" ", "_")[:80])


def check(run, replay=None):
    proof = C.prove("C04")
    drv, exe = _tools()
    if replay:
        cases = [l[6:].strip() for l in open(replay) if l.startswith("case: ")]
        n_corpus = 0
    else:
        cases, n_corpus = gen_cases(run)
    # ---- model on everything (parallel chunks)
    import time
    t0 = time.time()
    k = N_CHUNKS
    parts = [cases[i::k] for i in range(k)]
    with concurrent.futures.ThreadPoolExecutor(max_workers=k) as ex:
        fm = [ex.submit(run_prog, [drv], p) for p in parts]
        mouts = [f.result() for f in fm]
    model = {}
    for p, (rc, out, err) in zip(parts, mouts):
        ch = split_out(out)
        if rc != 0 or len(ch) != len(p):
            raise RuntimeError("model driver failed rc=%d (%d/%d chunks): %s" % (rc, len(ch), len(p), err[-500:]))
        for c, o in zip(p, ch):
            model[c] = o
    C.log("[C04] %d cases; model %.1fs" % (len(cases), time.time() - t0))
    t0 = time.time()
    # ---- cases on which the model predicts a crash of the C code are run one by one
    predicted = [c for c in cases if c[0] == "S" and re.search(r" (OOB|ASSERT)$", model[c][-1])]
    pset = set(predicted)
    batch = [c for c in cases if c not in pset]
    seen_classes = {}
    for c in sorted(pset, key=lambda x: (len(x), x)):
        want = "asan" if model[c][-1].endswith("OOB") else "assert"
        cls = (c.split()[1], want)
        seen_classes[cls] = seen_classes.get(cls, 0) + 1
        if seen_classes[cls] > 6:
            run.bump("predicted-crash-not-rerun")
            continue
        rc, out, err = run_prog([exe], [c], env=C.run_env(), timeout=60)
        kind = crash_kind(rc, err) if rc != 0 else "no-crash"
        run.count("\n".join(model[c]) + kind, nontrivial=True, kind="parse-predicted-" + want)
        if kind.startswith(want):
            run.cov["traces_validated_against_impl"] += 1
            run.violation(finding_key(c, kind),
                          "parsing %r with format %s: %s (the model predicts it: %s); the property requires a return of 0 or -1 without out-of-bounds access"
                          % (case_bytes(c), c.split()[1], kind, model[c][-1]),
                          "kind: input\ncase: %s\nmodel: %s\nimpl: rc=%d\n%s\n" % (c, model[c][-1], rc, err[-1500:]))
        else:
            run.violation("correspondence:" + c.replace(" ", "-"),
                          "model predicts %s but the implementation gives %s" % (model[c][-1], kind),
                          "kind: correspondence\ncase: %s\nmodel: %s\nimpl: rc=%d %s\n%s\n" % (c, model[c][-1], rc, out[-300:], err[-800:]),
                          no_input=True)
    C.log("[C04] predicted crashes re-run %.1fs" % (time.time() - t0))
    t0 = time.time()
    # ---- the rest in parallel chunks on the real code
    parts = [batch[i::k] for i in range(k)]
    with concurrent.futures.ThreadPoolExecutor(max_workers=k) as ex:
        fc = [ex.submit(run_c_resilient, exe, p) for p in parts]
        couts = [f.result() for f in fc]
    C.log("[C04] implementation %.1fs" % (time.time() - t0))
    classes = {}     # class key -> (size, case, what, replay, no_input)
    lens_seen = {}
    n_shrunk = [0]

    def report(cls, case, what, replay_text, no_input=False):
        cur = classes.get(cls)
        cand = (len(case), case, what, replay_text, no_input)
        if cur is None or cand[:2] < cur[:2]:
            classes[cls] = cand
        run.bump("violating-case:" + cls)

    for p, (res, crashes) in zip(parts, couts):
        for idx, rc, err in crashes:
            c = p[idx]
            kind = crash_kind(rc, err)
            key = finding_key(c, kind)
            if c[0] == "S":
                b = case_bytes(c)
                fmt = c.split()[1]

                def fails(t, fmt=fmt, kind=kind):
                    r, o, e = run_prog([exe], [S(fmt, t)], env=C.run_env(), timeout=30)
                    return r != 0 and crash_kind(r, e) == kind
                n_shrunk[0] += 1
                small = G.shrink_bytes(b, fails) if (len(b) <= 40 and n_shrunk[0] <= 4) else b
                c = S(fmt, small)
                key = finding_key(c, kind)
            if key in ("sscanf-empty-string", "sscanf-leading-comma-assert"):
                run.violation(key, "the C code dies (%s) on case %s" % (kind, c),
                              "kind: input\ncase: %s\nimpl: rc=%d\n%s\n" % (c, rc, err[-2000:]))
            else:
                report("crash-%s:%s" % (kind, c[:3].replace(" ", "")), c, "the C code dies (%s) on case %s" % (kind, c),
                       "kind: input\ncase: %s\nmodel: %s\nimpl: rc=%d\n%s\n" % (c, " | ".join(model.get(c, ["?"])), rc, err[-2000:]))
        for c, o in zip(p, res):
            if o is None:
                continue
            m = model[c]
            kind = {"P": "print", "S": "parse-" + c[2:3], "T": "strto"}[c[0]]
            nontriv = True
            if c[0] == "S":
                nontriv = not o[-1].startswith("s %s -1" % c[2])
                run.bump("parse-accepted" if nontriv else "parse-rejected")
            run.count("\n".join(o), nontrivial=nontriv, sample={"case": c, "impl": o[:4], "model": m[:4]}, kind=kind)
            if c[0] == "P":
                inf = o[0].split(" ")[1]
                for line in o[1:]:
                    tt = line.split(" ", 3)
                    if tt[0] == "p" and tt[2].isdigit():
                        lens_seen.setdefault((tt[1], inf), set()).add(int(tt[2]))
            bad = spec_check(c, o)
            for key, what in bad:
                report(key, c, what, "kind: input\ncase: %s\nimpl:\n%s\nmodel:\n%s\n" % (c, "\n".join(o[:12]), "\n".join(m[:12])))
            if o == m:
                run.cov["traces_validated_against_impl"] += 1
            elif not bad:
                d = next((i for i in range(min(len(o), len(m))) if o[i] != m[i]), min(len(o), len(m)))
                report("correspondence:" + c[:3].replace(" ", ""), c,
                       "model and implementation differ on %s at line %d: impl=%r model=%r (the property itself holds on the C output)"
                       % (c, d, o[d] if d < len(o) else None, m[d] if d < len(m) else None),
                       "kind: correspondence\ncase: %s\nimpl: %s\nmodel: %s\n" % (c, o[d] if d < len(o) else None, m[d] if d < len(m) else None),
                       no_input=True)
    for cls in sorted(classes):
        size, c, what, rep, no_input = classes[cls]
        run.violation("%s:%s" % (cls, c.replace(" ", "_")[:80]), what, rep, no_input=no_input)
    # which text lengths the asprintf == snprintf / exact-size-buffer clause was evaluated at
    want = set(G.target_lengths())
    for f in "hlt":
        for inf in "01":
            got = lens_seen.get((f, inf), set())
            run.cov["text_lengths_%s_%s" % (f, "infinite" if inf == "1" else "finite")] = {
                "distinct": len(got), "max": max(got) if got else 0,
                "targets_not_reached (impossible for the format)": sorted(want - got)[:40]}
    run.cov["corpus_cases"] = n_corpus
    run.cov["cases"] = len(cases)
    run.cov["observations"] = [
        "hwloc_bitmap_sscanf with a trailing comma (e.g. '0x1,') returns 0 without storing the low word(s): the result "
        "keeps whatever the bitmap held before (model parameter `dirty`; harness pre-fills 0xa5a5... and the model agrees)",
        "list indexes >= 2^17 are not exercised (the real code would allocate up to 512MB); the model truncates to unsigned like the C code"]
    run.assumptions.append("malloc/realloc succeed; vsnprintf never returns < 0 for %d/%lx/%s; bitmap indexes < 2^31 (int)")
    return run.finish(proof, trusted=[
        "libc vsnprintf/strtoul/strtol/strchr/strncmp/strlen/memcpy as specified in Base/{Snprintf,Strto,Bytes}.v (strtoul/strtol validated by the sweep of this check)",
        "hwloc_bitmap_next/next_unset/set/set_range/fill/zero modelled on the abstract set (their refinement is property C03)"])


def spec_check(case, o):
    """The property statement evaluated on what the C code produced."""
    bad = []
    tag = case.replace(" ", "_")[:90]
    if case[0] == "P":
        needed = {}
        for line in o[1:]:
            t = line.split(" ")
            if t[0] == "p":
                needed[t[1]] = int(t[2])
            elif t[0] == "a" and (t[3] != "1" or int(t[2]) != needed.get(t[1])):
                bad.append(("asprintf-differs:%s" % t[1], "asprintf and snprintf disagree: " + line))
            elif t[0] == "r" and t[3] != "1":
                bad.append(("roundtrip:%s" % t[1], "print then parse does not give the bitmap back: " + line))
            elif t[0] == "b" and (t[5] != "1" or int(t[3]) != needed.get(t[1])):
                bad.append(("snprintf-contract:%s" % t[1], "snprintf contract broken: " + line))
    elif case[0] == "S":
        t = o[-1].split(" ")
        if t[2] not in ("0", "-1"):
            bad.append(("parse-return:%s" % case[2:3], "sscanf returned neither 0 nor -1: " + o[-1]))
        elif t[-1] != "1":
            bad.append(("parse-depends-on-destination:%s" % case[2:3],
                        "the result of the parse depends on what the destination bitmap held before (reused destinations: other word pattern, "
                        "empty, full, {4-7,128-}, 20-word finite, 20-word infinite, the result itself): " + o[-1]))
        elif t[-2] != "1":
            bad.append(("parse-unstable:%s" % case[2:3], "accepted string is not stable under print-then-parse (or the set is not zeroed on failure): " + o[-1]))
    return bad
