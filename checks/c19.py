"""C19: shared-memory topologies: length suffices, adopted copy is equal and read-only.

Proof: Props/Properties_C19.v (Topo/Shmem.v = the dup model of C12 under the two allocators of shmem.c).
Tie/search: harness/hwv_shmem.c on the real library: get_length; write (forked child) into a file at a page-aligned
offset with the page after the mapping PROT_NONE, bytes before the offset and after the used area checked; adoption
with wrong arguments (EINVAL/EBUSY table); adoption in a forked child at the same address; observation of the adopted
copy against the original; wf_check on its dump; every public modifying / permitted / consulting call on the adopted
copy in its own process (SIGSEGV/SIGBUS/abort are results), file checksum before/after; destroy unmaps."""
import os
import re
import concurrent.futures as cf

from hv import common as C
from gen import topo_sources as S
from gen import dup_gen as G

DEPS = ["hwv_dump.h", "hwv_load.h", "hwv_ptree.h", "hwv_dup.c"]
PRELUDE = ["hvnum.ml", "hvdump.ml"]
ERRNO = {"EINVAL": 22, "EBUSY": 16, "EPERM": 1}
# calls the model does not list (always refused for reasons unrelated to adoption, or duplicates of a listed one)
EXTRA_OK = {"memattr_set_value", "allow_local", "set_flags", "set_synthetic", "load_again"}


def prebuild():
    C.build_harness("hwv_shmem", ["hwv_shmem.c"], deps=DEPS)
    C.extract("C19", "drv_c19.ml", prelude=PRELUDE)


def make_cases(run):
    rng = run.rng
    quick = run.tier == "quick"
    cases = []
    cdir = os.path.join(C.VERIF, "corpus", "c19")
    for n in sorted(n for n in os.listdir(cdir) if n.endswith(".case")) if os.path.isdir(cdir) else []:
        ls = [l.rstrip("\n").replace("{REPO}", C.REPO) for l in open(os.path.join(cdir, n)) if l.strip() and not l.startswith("#")]
        cases.append(("corpus:" + n, ls, "corpus"))
    two = "src synthetic pack:2 [numa(memory=1024)] core:2 pu:2"
    full = ["pre mseti 5 0 1001 1 40", "pre subtype 0 0 rootst", "pre distadd 1004 4 5 0 1", "pre mseto 2 0 1001 0 300", "pre mreg foo 1", "pre mset 8 1 - 7", "pre kobj 1003 0 1 k a", "pre info 0 0 a b", "pre tinfo c d"]
    for k in range(0, 5):       # all page-aligned offsets of a small range
        cases.append(("b:offset%d" % k, ["flags 1", two] + full + ["shmem %d" % k], "boundary"))
    for k in (524287, 524288, 1048575, 1048576, 1572864):      # around 2 GiB and 4 GiB (sparse file): off_t, not int
        cases.append(("b:offset%d" % k, ["flags 1", two] + full + ["pre subtype 1004 1 st"] + ["shmem %d" % k], "boundary"))
    cases.append(("b:no-include-disallowed", [two] + full + ["shmem 1"], "boundary"))
    cases.append(("b:stale-caches", ["flags 1", two] + full + ["pre robj 1001 0 0", "shmem 0"], "boundary"))
    cases.append(("b:plain-pu1", ["src synthetic pu:1", "shmem 0"], "boundary"))
    # more than 512 PUs (bitmaps larger than their preallocation): cpuset initiators built by the application (small allocation), a second one
    # added to an existing target while the attribute cache is valid, and a size sweep with a fresh initiator at every step
    big = "src synthetic node:2 core:130 pu:2"
    cases.append(("b:big-second-initiator", [big, "pre mset 2 0 0:00ff 10", "pre obs", "pre mset 2 0 0:ff00 20", "shmem 1"], "boundary"))
    cases.append(("b:big-many-initiators", [big] + ["pre mset 2 0 0:%x %d" % (1 << i, 100 + i) for i in range(0, 40, 3)] + ["pre mset 5 1 0:f000 9", "republish 0 4"], "republish"))
    for lo in range(1, 521, 65) if not quick else (1, 261):
        cases.append(("sweep:big-fresh-initiator:%d" % lo, [big, "pre mset 2 0 0:1 5", "sweep %d 65 mset 2 0 @ 7" % lo], "sweep"))
    # INCLUDE_DISALLOWED + allow(CUSTOM): initiators straddling allowed/disallowed PUs, a query before the last mutation
    cases.append(("b:disallowed-initiators", ["flags 1", two, "pre allowobj 1004 0 5", "pre allownode 0 0", "pre mseto 2 0 1001 0 500", "pre obs", "pre mseto 2 0 1001 1 1000",
                                              "pre mseto 2 0 1003 3 2000", "pre distadd 1004 8 5 0 1", "pre kobj 1003 3 2 k a", "shmem 1"], "boundary"))
    cases.append(("b:disallowed-after-query", ["flags 1", two, "pre mseto 2 0 1001 0 500", "pre mseto 2 0 1001 1 1000", "pre mseto 2 0 1003 3 2000", "pre obs", "pre allowobj 1004 0 5", "shmem 1"], "boundary"))
    cases.append(("b:disallowed-republish", ["flags 1", two, "pre allowobj 1004 2 7", "pre mseto 2 1 1001 0 500", "pre obs", "pre mseto 2 1 1003 0 9", "republish 0 3"], "republish"))
    # level arrays: 16, 17, 18, 32, 33 levels at load, and the 17th / 33rd level created by a Group insertion after load
    for g in (14, 15, 16, 30, 31):
        cases.append(("b:levels%d-at-load" % (g + 2), ["flags 1", "src synthchain %d" % g, "shmem 1"], "boundary"))
    for g0 in (15, 31):
        npu = g0 + 2
        cases.append(("b:levels%d-by-insertion" % (g0 + 2), ["src synthetic pu:%d" % npu] + ["pre gobj 1004 0 %d" % j for j in range(npu - 2, npu - 2 - g0, -1)] + ["shmem 0"], "boundary"))
    # XML carrying a <support> element for every support field, loaded with IMPORT_SUPPORT (not this system)
    cases.append(("b:imported-support", ["flags 9", "src synthsupport pack:2 [numa(memory=1024)] core:2 pu:2", "pre mseti 2 0 1001 0 300", "pre distadd 1004 4 5 0 1", "shmem 1"], "boundary"))
    cases.append(("b:imported-support-republish", ["flags 8", "src synthsupport pu:4", "republish 0 3"], "republish"))
    # previous content of the target region / republishing at the same offset and address
    for k, seed in ((0, 2), (1, 7), (3, 12)):
        cases.append(("b:republish%d" % k, ["flags 1", two] + full + ["republish %d %d" % (k, seed)], "republish"))
    cases.append(("b:republish-pu1", ["src synthetic pu:1", "republish 1 5"], "republish"))
    for i in range(12 if quick else 400):
        desc = rng.choice(G.SYN) if rng.random() < 0.5 else S.gen_synthetic(rng, max_pus=32)
        pre = [l for l in G.gen_history(rng, False, npre=rng.randint(0, 4), nmut=0) if l.startswith("pre ")]
        cases.append(("republish%d:%s" % (i, desc), ["flags %d" % rng.choice([0, 1]), "src synthetic " + desc] + pre + ["republish %d %d" % (rng.randint(0, 3), rng.randint(0, 999))], "republish"))
    # size sweep: 536 consecutive sizes 8 bytes apart: (header + body) visits every 8-byte residue of the page, each size
    # with get_length == model value (no slack) and the write next to the PROT_NONE page
    for lo in range(0, 536, 67):
        cases.append(("sweep:pu1:%d-%d" % (lo, lo + 66), ["src synthetic pu:1", "sweep %d 67" % lo], "sweep"))
    if not quick:
        for lo in range(0, 1072, 67):
            cases.append(("sweep:2numa:%d-%d" % (lo, lo + 66), ["flags 1", two] + full + ["sweep %d 67" % lo], "sweep"))
    nsyn = 40 if quick else 1500
    for i in range(nsyn):
        desc = rng.choice(G.SYN) if rng.random() < 0.5 else S.gen_synthetic(rng, max_pus=32)
        cfg = ["flags %d" % rng.choice([0, 1, 1, 1 | 8])] + (["filter 19 0"] if rng.random() < 0.3 else [])
        pre = [l for l in G.gen_history(rng, "filter 19 0" in cfg, npre=rng.randint(0, 5), nmut=0) if l.startswith("pre ")]
        k = rng.randint(0, 3) if rng.random() < 0.85 else rng.choice([1 << 19, (1 << 19) + rng.randint(1, 9), 1 << 20, 3 << 19])
        cases.append(("syn%d:%s" % (i, desc), cfg + ["src synthetic " + desc] + pre + ["shmem %d" % k], "synthetic"))
    xmls = S.xml_corpus()
    if quick:
        xmls = rng.sample(xmls, min(16, len(xmls)))
    for x in xmls:
        cases.append(("xml:" + os.path.basename(x), ["flags %d" % rng.choice([0, 1]), "src xml " + x, "shmem %d" % rng.randint(0, 2)], "xml"))
    return cases


def script_of(lines):
    cfg = [l for l in lines if l.startswith(("filter ", "flags ", "env ", "src "))]
    rest = [l for l in lines if l not in cfg]
    return ["new"] + cfg + ["load"] + rest


def run_shard(exe, drv, part, lo):
    lines = []
    for i, (name, ls, kind) in enumerate(part):
        lines.append("echo CASE %d" % (lo + i))
        lines += script_of(ls)
    env = {k: v for k, v in C.run_env().items() if k != "HWLOC_DEBUG_CHECK"}
    rc, out, err = C.sh([exe], input=("\n".join(lines) + "\n").encode(), env=env, timeout=900)
    rc2, out2, err2 = C.sh([drv], input=out, timeout=900)
    return lo, rc, out2.decode(errors="replace"), err.decode(errors="replace"), rc2, err2.decode(errors="replace")


def run_cases(cases, exe, drv, shard=4):
    results, expect = {}, {"call": {}, "reject": {}}
    with cf.ThreadPoolExecutor(max_workers=C.NCPU) as ex:
        todo = [(lo, min(lo + shard, len(cases))) for lo in range(0, len(cases), shard)]
        while todo:
          futs = [(ex.submit(run_shard, exe, drv, cases[lo:hi], lo), hi) for lo, hi in todo]
          todo = []
          for f, hi in futs:
            lo, rc, txt, err, rc2, err2 = f.result()
            cur = None
            for line in txt.split("\n"):
                m = re.match(r"echo CASE (\d+)$", line)
                if m:
                    cur = int(m.group(1)); results[cur] = {"lines": []}
                elif line.startswith("expect call "):
                    _, _, inc, nm, code = line.split(" "); expect["call"][(int(inc), nm)] = int(code)
                elif line.startswith("expect reject "):
                    _, _, nm, code = line.split(" "); expect["reject"][nm] = int(code)
                elif cur is not None:
                    results[cur]["lines"].append(line)
            if rc != 0 or rc2 != 0:
                last = max([i for i in results if lo <= i < hi], default=lo)
                results.setdefault(last, {"lines": []})
                results[last]["crash"] = "harness rc=%d driver rc=%d\n%s\n%s" % (rc, rc2, err[-3000:], err2[-1000:])
                if last + 1 < hi:
                    todo.append((last + 1, hi))      # the cases after the one that died
    return results, expect


MODIFIERS = {"restrict", "insert_misc", "insert_group", "distances_add", "distances_remove", "distances_remove_by_depth", "diff_apply",
             "memattr_register", "memattr_set_value", "memattr_set_value_builtin", "cpukinds_register", "refresh", "obj_add_info",
             "distances_release_remove", "obj_set_subtype", "obj_set_subtype_existing"}


def outcome_code(word):
    if word == "skipped":
        return None
    if word in ("ok", "ok-but-DIFF"):
        return 0
    m = re.match(r"rc=-1:(\w+)", word)
    if m:
        return ERRNO.get(m.group(1), -1)
    return 999       # SIG<n>, EXIT<n>: fault / abort


def findings_of(r, expect, cfg_lines):
    """(key, what, correspondence_only)"""
    out = []
    lines = r["lines"]
    inc = 1 if any(l.startswith("flags ") and int(l.split()[1]) & 1 for l in cfg_lines) else 0
    wfs = [l for l in lines if l.startswith("wf ")]
    if len(wfs) >= 2 and wfs[0].startswith("wf ok") and not wfs[1].startswith("wf ok"):
        out.append(("wf:adopted", "wf_check accepts the original and rejects the adopted copy: " + wfs[1][:200], False))
    step = None
    for l in lines:
        if l.startswith("sweep step="):
            step = int(l.split("=")[1])
            continue
        if step is not None and (l.startswith(("len DIFF", "fits NO", "used DIFF")) or (l.startswith("write ") and "rc=0" not in l) or (l.startswith("file ") and "BAD" in l)):
            r.setdefault("bad_steps", []).append(step)
            l = l + "   [sweep step %d: root info value of %d bytes]" % (step, 7 + 8 * step)
        if l.startswith("length ") and "rc=0" not in l:
            out.append(("get_length-fails", l, False))
        elif l.startswith("len DIFF"):
            out.append(("correspondence:get_length", "model get_length differs from hwloc_shmem_topology_get_length: " + l, True))
        elif l.startswith("fits NO"):
            out.append(("length-too-short", "the topology written after the refresh needs more than get_length returned: " + l, False))
        elif l.startswith("used DIFF"):
            out.append(("correspondence:used", l, True))
        elif l.startswith("write ") and "rc=0" not in l:
            out.append(("write-fails:" + l.split(" ")[1], "hwloc_shmem_topology_write with the length of get_length: " + l, False))
        elif l.startswith("file ") and ("BAD" in l):
            out.append(("write-outside:" + ",".join(re.findall(r"(\w+)=BAD", l)), "write touched bytes outside the used area: " + l, False))
        elif l.startswith("reject "):
            _, nm, rcs, ers = l.split(" ")
            code = 0 if rcs == "rc=0" else ERRNO.get(ers.split("=")[1], -1)
            exp = expect["reject"].get(nm)
            m2 = re.match(r"(version|hlen|address|length|abi)-(bit\d+|value0x[0-9a-f]+)$", nm)
            if m2:      # systematic corruption of the stored header / ABI: the model (adopt_rejects) says EINVAL for every one
                out.append(("adopt-accepts-corrupted:" + m2.group(1), "adoption of a file whose stored %s is corrupted (%s) is not refused with EINVAL: %s" % (m2.group(1), m2.group(2), l), False))
            elif nm == "wrong-offset":
                if code == 0:
                    out.append(("adopt-accepts:wrong-offset", "adoption at another file offset succeeds: " + l, False))
                elif code != 22:
                    out.append(("adopt-rejects:wrong-offset-errno", "adoption at an offset where the file holds less than a header fails without setting errno (short read): " + l, False))
            elif exp is None or exp != code:
                out.append(("adopt-rejects:" + nm, "adoption with %s: expected errno %s, got: %s" % (nm, exp, l), False))
        elif l.startswith("adopt ") and "rc=0" not in l:
            out.append(("adopt-fails", "adoption with the arguments of the write failed: " + l, False))
        elif l.startswith("ptrrange OUTSIDE"):
            fld = l.split(" ")[2]
            out.append(("not-self-contained:" + fld, "the adopted topology holds a pointer to a block outside the mapping (%s): dangling in a process where the writer's heap / libhwloc is mapped elsewhere" % fld, False))
        elif l.startswith("adopter SIG") or l.startswith("dump SIG"):
            out.append(("adopter-crash", l, False))
        elif l.startswith("obscmp "):
            if l.startswith("obscmp SIG"):
                out.append(("adopted-fault:observe", "consulting the adopted copy (dump, XML, distances, memattrs, cpukinds) faults: " + l, False))
            elif l.startswith("obscmp DIFF"):
                out.append(("adopted-not-equal", "the adopted copy does not report what the original reports: " + l[:300], False))
        elif l.startswith("call "):
            m = re.match(r"call (\S+) (\S*) ?file=(\w+)", l)
            if not m:
                continue
            nm, word, fstate = m.groups()
            code = outcome_code(word)
            if code is None:
                continue
            if word == "ok-but-DIFF":
                out.append(("adopted-dup-not-equal", "hwloc_topology_dup of the adopted copy differs from the original", False))
            if code == 0 and nm in MODIFIERS:
                out.append(("adopted-modifier-accepted:" + nm, "%s succeeds on an adopted topology instead of failing with EPERM" % nm, False))
            if fstate != "same":
                out.append(("mapping-changed:" + nm, "the backing file changed during " + nm, False))
            exp = expect["call"].get((inc, nm))
            # the property: modifiers are refused (EPERM or otherwise) without touching the mapping, others work
            if code == 999:
                out.append(("adopted-fault:" + nm, "%s on an adopted topology faults / aborts (%s)" % (nm, word), False))
            if exp is not None and exp != code and not (exp in (1, 22, 16) and code in (1, 22, 16)) and not (nm in MODIFIERS and exp == 999 and code == 0):
                out.append(("correspondence:call:" + nm, "model outcome %d, implementation %s" % (exp, l), True))
        elif l.startswith("rewrite ") and "rc=0" not in l:
            lab = l.split(" ")[1]
            out.append(("rewrite-fails:" + re.sub(r"^republish\d+", "republish", lab.split(":")[0]), "hwloc_shmem_topology_write over a target region with previous content (%s): %s" % (lab, l), False))
        elif l.startswith("image ") and " same" not in l:
            lab = l.split(" ")[1]
            out.append(("image-depends-on-previous-content:" + re.sub(r"^republish\d+", "republish", lab.split(":")[0]), "the image written depends on what the file held before (%s): %s" % (lab, l), False))
        elif l.startswith("readopt ") and "ptrrange-OUTSIDE" in l:
            lab = l.split(" ")[1]
            out.append(("not-self-contained:" + l.split("ptrrange-OUTSIDE:")[1].split(" ")[0], "the image written over previous content (%s) holds a pointer outside the mapping: %s" % (lab, l[:200]), False))
        elif l.startswith("readopt ") and "obscmp same" not in l:
            lab = l.split(" ")[1]
            out.append(("readopt:" + re.sub(r"^republish\d+", "republish", lab.split(":")[0]), "adopting what was written over previous content (%s) fails / differs from the original: %s" % (lab, l[:300]), False))
        elif l.startswith("republish ") and l.split(" ")[1] in ("bad", "dup-failed", "length-failed"):
            out.append(("correspondence:republish", l, True))
        elif l.startswith("destroyed ") and "unmapped=yes" not in l:
            out.append(("destroy-leaves-mapping", l, False))
    if "crash" in r:
        from checks.c12 import crash_key
        out.append((crash_key(r["crash"]), "harness crash / sanitizer report:\n" + r["crash"][-2500:], False))
    return out


def check(run, replay=None):
    proof = C.prove("C19")
    exe = C.build_harness("hwv_shmem", ["hwv_shmem.c"], deps=DEPS)
    drv = C.extract("C19", "drv_c19.ml", prelude=PRELUDE)
    if replay:
        txt = open(replay).read().split("---\n", 1)[1].split("\n--- ")[0]
        cases = [("replay", [l for l in txt.split("\n") if l and l not in ("new", "load")], "replay")]
    else:
        cases = make_cases(run)
    results, expect = run_cases(cases, exe, drv)
    reported = set()
    for i, (name, ls, kind) in enumerate(cases):
        r = results.get(i)
        script = "\n".join(script_of(ls))
        if r is None:
            run.violation("not-run:" + kind, "case did not run (earlier crash in the same shard)", script, no_input=True)
            continue
        adopted = any(l.startswith("adopt rc=0") for l in r["lines"]) or (kind == "sweep" and any(l.startswith("write rc=0") for l in r["lines"])) \
            or (kind == "republish" and any(l.startswith("readopt ") and "obscmp same" in l for l in r["lines"]))
        if kind == "republish":
            run.bump("rewrites-over-previous-content", sum(1 for l in r["lines"] if l.startswith("rewrite ")))
        if kind == "sweep":
            run.bump("sweep-sizes", sum(1 for l in r["lines"] if l.startswith("sweep step=")))
        run.count(name + "|" + "|".join(l for l in r["lines"] if l.startswith(("len ", "used ", "file ", "reject ", "adopt ", "obscmp ", "call ", "destroyed", "rewrite ", "image ", "readopt "))),
                  nontrivial=adopted, sample={"case": name, "lines": [l[:100] for l in r["lines"] if l.startswith(("length ", "file ", "adopt ", "obscmp "))][:5]},
                  kind=kind + (":adopted" if adopted else ":not-adopted"))
        run.bump("calls-on-adopted", sum(1 for l in r["lines"] if l.startswith("call ")))
        run.bump("rejected-adoptions", sum(1 for l in r["lines"] if l.startswith("reject ")))
        run.bump("corrupted-header-adoptions", sum(int(re.search(r"tried=(\d+)", l).group(1)) for l in r["lines"] if l.startswith("rejectsweep ")))
        fs = findings_of(r, expect, ls)
        if adopted and not fs:
            run.cov["traces_validated_against_impl"] += 1
        spec_broken = any(not c for _, _, c in fs)
        if r.get("bad_steps"):       # the concrete size: replay only that step
            script = "\n".join(script_of([x if not x.startswith("sweep ") else ("sweep %d 1 " % r["bad_steps"][0] + " ".join(x.split(" ")[3:])).rstrip() for x in ls]))
        for key, what, corr in fs:
            if key in reported:
                continue
            reported.add(key)
            run.violation(key, what + "   [case %s]" % name, script + "\n--- output\n" + "\n".join(l[:300] for l in r["lines"] if not l.startswith(("O ", "L ", "D ", "T ", "allocseq")))[:6000],
                          no_input=corr and not spec_broken)
    run.cov["rule"] = "sweep case = 67 consecutive sizes 8 bytes apart (length/write/file part only); one case = source x flags x pre-history x file offset; per case: 8 rejected adoptions, 1 adoption, 26 calls on the adopted copy each in its own process; non-trivial = adoption succeeded"
    run.assumptions += [
        "the calls on an adopted copy are modelled as a table (guard / region written), tied to the code by running every call on a really adopted, PROT_READ-mapped copy; the table is not derived from the function bodies",
        "hwloc_shmem_topology_write refreshes the source topology before duplicating it: length_suffices is stated for the tree that is written; that the refresh does not add blocks after get_length is checked on the executed cases (file tail, PROT_NONE page), not proved",
        "hwloc_obj_add_info / object userdata have no topology argument and cannot be refused: documented as forbidden on adopted topologies (shmem.h); kept as a known finding and as the witness of adopted_modifiers_eperm_refuted"]
    return run.finish(proof, trusted=["harness/hwv_shmem.c (fork/mmap protocol, file checksums), harness/hwv_ptree.h", "ocaml/drv_c19.ml, ocaml/hvdump.ml (parsers)"])
