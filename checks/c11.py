"""C11 (first part: compare_types and kind predicates).  Extended by the
TypeNames model (type strings, snprintf contracts)."""
from hv import common as C


def check(run, replay=None):
    proof = C.prove("C11")
    drv = C.extract("C11", "drv_c11.ml")
    exe = C.build_harness("hwv_types", ["hwv_types.c"])
    cases = ["cmp %d %d" % (a, b) for a in range(20) for b in range(20)] + ["kind %d" % a for a in range(20)]
    inp = ("\n".join(cases) + "\n").encode()
    rc1, out_c, err_c = C.sh([exe], input=inp, env=C.run_env(), timeout=60)
    rc2, out_m, err_m = C.sh([drv], input=inp, timeout=60)
    lc, lm = out_c.decode().split("\n"), out_m.decode().split("\n")
    if rc1 != 0:
        run.violation("harness-crash", "C harness failed rc=%d" % rc1, err_c.decode(errors="replace")[-2000:])
    for c, a, b in zip(cases, lc, lm):
        run.count(a, nontrivial=True, sample={"case": c, "impl": a, "model": b}, kind=c.split()[0])
        if a != b:
            run.violation("correspondence:" + c.replace(" ", "-"), "model and implementation differ on %s: impl=%r model=%r" % (c, a, b),
                          "kind: correspondence\ncase: %s\nimpl: %s\nmodel: %s\n" % (c, a, b), no_input=True)
        else:
            run.cov["traces_validated_against_impl"] += 1
    run.cov["exhaustive"] = True
    return run.finish(proof)
