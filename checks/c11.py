"""C11: object type strings parse back; obj/attr snprintf obey the length contract; compare_types.

proof : coq/Props/Properties_C11.v  (models coq/Text/TypeOrder.v, coq/Text/TypeNames.v; lemmas TypeNamesProofs.v)
tie   : harness/hwv_types.c (real library, ASan/UBSan) vs the extracted model (ocaml/drv_c11.ml) on one case file:
        cmp/kind (all pairs), tstr (all types), tsn (hand-made objects: 20 types x attribute values x flag words,
        every buffer size 0..needed+1 on exactly-sized blocks, round trip on the C side, garbage-filled twin object),
        asn (attribute printer likewise), ssc (strings for hwloc_type_sscanf at the end of exactly-sized blocks),
        plus every object of synthetic topologies and of the XML corpus (tests/hwloc/xml + corpus/c11/*.xml), re-run as
        tsn/asn cases, with the contract / round trip / one-text-per-level evaluated on the C side for all of them
search: the executable form of the property statement over what the C code produced (contract, round trip, totality,
        termination), independent of the model

Violation keys of the genuine defects found (see known_findings.txt / patches/fix-C11-*.diff):
  osdev-snprintf-unknown-bit-loop     traversal.c:611 while (ostype) never ends for a bit outside names[]
  type-sscanf-literal-overread-0xe0   traversal.c:314 hwloc__type_match reads past the keyword literal on byte 0xE0
  xml-bridge-type-unchecked           topology-xml.c:344 bridge_type from XML is not validated: assert() in the printers /
                                      upstream type that does not round trip
"""
import glob
import os
import re
import tempfile

from hv import common as C
from gen import typenames_gen as G

K_LOOP = "osdev-snprintf-unknown-bit-loop"
K_E0 = "type-sscanf-literal-overread-0xe0"
K_BRIDGE = "xml-bridge-type-unchecked"
K_DU = "level-text-data-vs-unified-cache"
CORPUS = os.path.join(C.VERIF, "corpus", "c11")
SWITCH_HINT = ("  (if a fix-C11-* patch was just committed to /repo, apply the matching /verif/patches/verif-C11-after-*.diff "
               "so that the model follows the fixed code)")


XML_GEN_DIR = os.path.join(C.BUILD, "c11-xml")      # generated XML inputs (deterministic content, rewritten on every run)


class Tools:
    def __init__(self):
        self.drv = C.extract("C11", "drv_c11.ml", prelude=["hvnum.ml"])
        self.exe = C.build_harness("hwv_types", ["hwv_types.c"])
        self.env = C.run_env()
        self.cls, self.lnk = {}, {}

    def c(self, lines, timeout=600):
        rc, out, err = C.sh([self.exe], input=("\n".join(lines) + "\n").encode(), env=self.env, timeout=timeout)
        return rc, out.decode("latin-1").split("\n"), err.decode(errors="replace")

    def m(self, lines, timeout=600):
        rc, out, err = C.sh([self.drv], input=("\n".join(lines) + "\n").encode(), timeout=timeout)
        if rc != 0:
            raise RuntimeError("model driver failed: " + err.decode(errors="replace")[-2000:])
        return out.decode("latin-1").split("\n")

    def query(self, cls_ids, links):
        qs = ["q cls %d" % i for i in cls_ids if i not in self.cls] + ["q lnk %s" % l for l in links if l not in self.lnk]
        if not qs:
            return
        rc, out, err = self.c(qs)
        for q, a in zip(qs, out):
            f = a.split()
            if q.startswith("q cls"):
                self.cls[int(q.split()[2])] = "" if f[3] == "-" else bytes.fromhex(f[3]).decode("latin-1")
            else:
                self.lnk[q.split()[2]] = "" if f[3] == "-" else bytes.fromhex(f[3]).decode("latin-1")

    def cls_text(self, i):
        self.query([i], [])
        return self.cls[i]

    def lnk_text(self, l):
        self.query([], [l])
        return self.lnk[l]


def split_answers(cases, out):
    """answers of one executor grouped per input line (tsn/asn answer several lines tagged tag#lineno)"""
    res, i = [], 0
    for no, c in enumerate(cases, 1):
        tag = c.split(" ", 1)[0].rstrip("!")
        if tag in ("tsn", "asn"):
            pre = "%s#%d " % (tag, no)
            j = i
            while j < len(out) and out[j].startswith(pre):
                j += 1
            res.append(out[i:j])
            i = j
        elif tag == "clsweep":
            j = i
            lo, hi = int(c.split()[1]), int(c.split()[2])
            while j < len(out) and out[j].startswith("cls ") and lo <= int(out[j].split()[1]) < hi:
                j += 1
            res.append(out[i:j])
            i = j
        elif tag in ("cmp", "kind", "ssc", "tstr", "tier", "sad", "gtd"):
            if i < len(out) and out[i].startswith(tag):
                res.append([out[i]])
                i += 1
            else:
                res.append([])
        else:
            res.append([])
    return res


def unhex(h):
    return b"" if h == "-" else bytes.fromhex(h)


def contract_spec(ans):
    """the length contract over the C answers of one tsn/asn case; returns None or a description"""
    if not ans or " need=" not in ans[0]:
        return None
    need = int(ans[0].rsplit("need=", 1)[1])
    sizes = {}
    for l in ans[1:]:
        m = re.match(r"\w+#\d+ size=(\d+) ret=(-?\d+) buf=(\S+)$", l)
        if m:
            sizes[int(m.group(1))] = (int(m.group(2)), unhex(m.group(3)))
        elif " size=" in l:
            return "size line: " + l
    if need + 1 not in sizes:
        return "no answer for size needed+1"
    full = sizes[need + 1][1]
    if len(full) != need + 1 or full[need] != 0 or 0 in full[:need]:
        return "full-size call: text length is not the returned value %d: %r" % (need, full)
    for k, (r, b) in sorted(sizes.items()):
        if r != need:
            return "size %d: returned %d, untruncated length is %d" % (k, r, need)
        if len(b) != k:
            return "size %d: buffer dump has %d bytes" % (k, len(b))
        if k == 0:
            continue
        n = min(k - 1, need)
        if b[:n] != full[:n]:
            return "size %d: not a prefix of the full text" % k
        if b[n] != 0:
            return "size %d: not NUL-terminated" % k
        if any(x != 0xaa for x in b[n + 1:]):
            return "size %d: bytes after the terminator were written" % k
    return None


def roundtrip_spec(f, ans):
    """sscanf(snprintf(o)) on the C side: same type and requested attributes (flags without SHORT_NAMES, in-domain objects)"""
    t, cd, ct, gd, bu, bd, os, flags = f
    rt = [l for l in ans if " rt " in l]
    if not rt:
        return "no round-trip answer"
    r = rt[0].split(" rt ", 1)[1]
    if 5 <= t <= 12:
        want = "0 type=%d cache %d %d" % (t, cd, ct)
    elif t == G.T_GROUP:
        want = "0 type=%d group %d" % (t, gd)
    elif t == G.T_BRIDGE:
        want = "0 type=%d bridge %d %d" % (t, bu, bd)
    elif t == G.T_OSDEV:
        want = "0 type=%d osdev %d" % (t, os & G.KNOWN_OS_MASK)
    else:
        want = "0 type=%d none" % t      # nothing stored for the other types (union untouched)
    return None if r == want else "round trip gives %r, expected %r" % (r, want)


class Checker:
    def __init__(self, run, tools):
        self.run, self.T = run, tools
        self.n_corr_bad = 0
        self.spec_failed = set()     # cmp/kind cases already reported with a concrete pair by types_spec
        self.table_caches = set()    # (type, depth, cache type) the loaders accept: hwloc_cache_type_by_depth_type, regenerated table
        self.tier_answers = {}       # lower-cased forced tier name -> C answer
        self.depth_expect = {}       # sad case line -> (type, level) for the texts printed for the levels themselves

    def replay_text(self, case, ac, am, extra=""):
        return "kind: input\ncase: %s\n%simpl:\n  %s\nmodel:\n  %s\n" % (case, extra, "\n  ".join(ac[:12]), "\n  ".join(am[:12]))

    def execute(self, cases, xml_objs=frozenset()):
        """run both executors; returns per-case (C answers, model answers).  A crash of the C harness is a violation
        for the case it stopped on; the rest is re-run without it."""
        run, T = self.run, self.T
        am = split_answers(cases, T.m(cases))
        ac = [None] * len(cases)
        todo = list(range(len(cases)))
        guard = 0
        while todo and guard < 12:
            guard += 1
            sub = [cases[i] for i in todo]
            rc, out, err = T.c(sub)
            part = split_answers(sub, [l for l in out if l])
            if rc == 0:
                for i, a in zip(todo, part):
                    ac[i] = a
                break
            # the harness flushes after every input line: the first case whose answer is shorter than the
            # model's is where it died
            k = next((j for j in range(len(sub)) if len(part[j]) < max(1, len(am[todo[j]]))), len(sub) - 1)
            for i, a in zip(todo[:k], part[:k]):
                ac[i] = a
            bad = todo[k]
            ac[bad] = (part[k] if k < len(part) else []) + ["CRASH rc=%d" % rc]
            kind = {97: "asan", 98: "ubsan", 96: "lsan", 124: "timeout"}.get(rc, "crash")
            key = "harness-%s:%s" % (kind, cases[bad].replace(" ", "_")[:80])
            if cases[bad].startswith("ssc") and "e0" in cases[bad].split()[1]:
                key = K_E0
            run.violation(key, "the C harness died (%s, rc=%d) on case %r" % (kind, rc, cases[bad]),
                          self.replay_text(cases[bad], ac[bad], am[bad], "stderr:\n  " + err[-1500:].replace("\n", "\n  ") + "\n"))
            todo = todo[k + 1:]
        for i in range(len(cases)):
            if ac[i] is None:
                ac[i] = ["NOT-RUN"]
        return ac, am

    def judge(self, cases, ac, am, origin="gen", from_load=False):
        run = self.run
        for c, a, b in zip(cases, ac, am):
            tag = c.split(" ", 1)[0].rstrip("!")
            run.count("\n".join(a), nontrivial=True, sample={"case": c[:200], "impl": a[:3], "model": b[:3]}, kind=tag + ":" + origin)
            spec_bad = None
            # ---- the property statement evaluated on the implementation's answers
            if tag == "tsn":
                f = G.parse_tsn(c)
                if any(l.endswith("LOOP") for l in a):
                    key = K_LOOP if (f[0] == G.T_OSDEV and f[6] & ~G.KNOWN_OS_MASK) else "type-snprintf-loop:" + c.replace(" ", "_")
                    spec_bad = (key, "hwloc_obj_type_snprintf does not return (no answer within 150 ms of CPU time) for %s" % c)
                elif any(l.endswith("ASSERT") for l in a):
                    if from_load:
                        spec_bad = (K_BRIDGE, "hwloc_obj_type_snprintf aborts (assert) on an object of a loaded topology: %s" % c)
                else:
                    e = contract_spec(a)
                    if e:
                        spec_bad = ("type-snprintf-contract:" + c.replace(" ", "_"), "hwloc_obj_type_snprintf length contract: %s (%s)" % (e, c))
                    elif (G.tsn_in_domain(f) or from_load or f[:3] in self.table_caches) and not (f[7] & G.F_SHORT):
                        e = roundtrip_spec(f, a)
                        if e:
                            key = K_BRIDGE if (f[0] == G.T_BRIDGE and from_load) else "type-roundtrip:" + c.replace(" ", "_")
                            spec_bad = (key, "hwloc_type_sscanf(hwloc_obj_type_snprintf(o)): %s (%s)" % (e, c))
                    if not spec_bad:
                        g = [l for l in a if " garb " in l]
                        full = [l for l in a if " size=" in l]
                        if g and full and "text=" in g[0]:
                            txt = unhex(full[-1].rsplit("buf=", 1)[1])[:-1]
                            if unhex(g[0].rsplit("text=", 1)[1]) != txt:
                                spec_bad = ("type-text-depends-on-other-fields:" + c.replace(" ", "_"),
                                            "two objects agreeing on (type, printed attributes, flags) print different texts: %s" % c)
            elif tag == "asn":
                if any(l.endswith("LOOP") for l in a):
                    spec_bad = ("attr-snprintf-loop:" + c[:60].replace(" ", "_"), "hwloc_obj_attr_snprintf does not return: %s" % c)
                elif any(l.endswith("ASSERT") for l in a):
                    if from_load:
                        spec_bad = (K_BRIDGE, "hwloc_obj_attr_snprintf aborts (assert) on an object of a loaded topology: %s" % c)
                elif G.asn_latent(c):
                    run.bump("asn:latent-io-total-memory")
                else:
                    e = contract_spec(a)
                    if e:
                        spec_bad = ("attr-snprintf-contract:" + c[:80].replace(" ", "_"), "hwloc_obj_attr_snprintf length contract: %s (%s)" % (e, c))
            elif tag == "ssc":
                r = a[0].split(" -> ", 1)[1] if a and " -> " in a[0] else "?"
                if r.startswith("OOB") or r.startswith("?"):
                    hexs = c.split()[1]
                    key = K_E0 if "e0" in re.findall("..", hexs) else "type-sscanf-oob:" + hexs[:60]
                    spec_bad = (key, "hwloc_type_sscanf reads outside its arguments (sanitizer report) on bytes %s" % hexs)
                elif "STORED" in r:
                    spec_bad = ("type-sscanf-stores-on-failure:" + c.split()[1][:60], "hwloc_type_sscanf returned -1 but stored through typep/attrp: %s" % c)
                elif not re.match(r"(-1|0 type=\d+ (none|cache \d+ -?\d+|group \d+|bridge -?\d+ -?\d+|osdev \d+))$", r):
                    spec_bad = ("type-sscanf-result:" + c.split()[1][:60], "unexpected result %r for %s" % (r, c))
                run.bump("ssc:accepted" if r.startswith("0") else "ssc:rejected" if r.startswith("-1") else "ssc:oob")
            elif tag == "clsweep":
                lo, hi = int(c.split()[1]), int(c.split()[2])
                if len(a) != hi - lo:
                    spec_bad = ("pci-class-sweep:%d" % lo, "class sweep %d..%d answered %d lines" % (lo, hi, len(a)))
                for l in a:
                    f = l.split()
                    txt = unhex(f[2]).decode("latin-1") if len(f) == 3 else "?"
                    m = re.match(r"busid=0000:00:00\.0 id=0000:0000 class=([0-9a-f]{4})\(([!-'*-~]{1,27})\)$", txt)
                    if not m or int(m.group(1), 16) != int(f[1]):
                        spec_bad = ("pci-class-string:%s" % f[1], "PCI class %s prints %r: the class name must be 1..27 printable characters without blank or parenthesis" % (f[1], txt))
                        break
            elif tag == "tier":
                r = a[0].split(" -> ", 1)[1] if a and " -> " in a[0] else "?"
                name = unhex(c.split()[1])
                if r != "NULL" and not re.fullmatch(r"[0-9a-f]+", r):
                    spec_bad = ("memory-tier-name:" + c.split()[1][:40], "HWLOC_MEMTIERS=0x1=%r: %s" % (name, r))
                elif r != "NULL" and unhex(r).lower() != name.lower():
                    spec_bad = ("memory-tier-name:" + c.split()[1][:40], "forced tier name %r gives subtype %r (must be the same name up to case)" % (name, unhex(r)))
                self.tier_answers[name.lower()] = r
            elif tag == "sad":
                r = a[0].split(" -> ", 1)[1] if a and " -> " in a[0] else "?"
                if "STORED" in r or "DIFFERS" in r or "OOB" in r or r == "?":
                    spec_bad = ("sscanf-as-depth:" + c.split()[4][:40] + ":" + os.path.basename(c.split()[1])[:30], "hwloc_type_sscanf_as_depth: %s (%s)" % (r, c[:120]))
                elif c in self.depth_expect:
                    t, l = self.depth_expect[c]
                    if r != "0 type=%d depth=%d" % (t, l):
                        spec_bad = ("level-text-to-depth:%s:%d" % (os.path.basename(c.split()[1])[:40], l),
                                    "the type text %r of level %d (type %d) gives %r through hwloc_type_sscanf_as_depth" % (unhex(c.split()[4]), l, t, r))
            elif tag == "tstr":
                t = int(c.split()[1])
                r = a[0].split(" rt ", 1)[1] if a and " rt " in a[0] else "?"
                if t < 20 and not r.startswith("0 type=%d " % t):
                    spec_bad = ("type-string-roundtrip:%d" % t, "hwloc_type_sscanf(hwloc_obj_type_string(%d)) gives %r" % (t, r))
            if spec_bad:
                run.violation(spec_bad[0], spec_bad[1], self.replay_text(c, a, b))
            # ---- correspondence
            if a == b:
                run.cov["traces_validated_against_impl"] += 1
            else:
                self.n_corr_bad += 1
                first = next((x for x in zip(a, b) if x[0] != x[1]), (a[len(b):][:1] or ["<missing>"], b[len(a):][:1] or ["<missing>"]))
                if not spec_bad and c not in self.spec_failed:
                    run.violation("correspondence:" + c.replace(" ", "_")[:90],
                                  "model and implementation differ on %r: impl=%r model=%r%s" % (c[:200], first[0], first[1], SWITCH_HINT),
                                  "kind: correspondence\ncase: %s\nimpl:\n  %s\nmodel:\n  %s\n" % (c, "\n  ".join(a[:20]), "\n  ".join(b[:20])),
                                  no_input=True)


UNORDERED = 2147483647
T_MACHINE, T_PU = 0, 4


def types_spec(run, cases, ac):
    """The compare_types / kind clauses of the property evaluated directly on what the C code answered for the
    400 `cmp` and 20 `kind` cases (finite domain: a broken clause always has a concrete pair).  Independent of Coq."""
    cmp, kind = {}, {}
    for c, a in zip(cases, ac):
        f = (a[0] if a else "").split()
        if c.startswith("cmp ") and len(f) == 4:
            cmp[(int(f[1]), int(f[2]))] = int(f[3])
        elif c.startswith("kind ") and len(f) == 9:
            kind[int(f[1])] = tuple(int(x) for x in f[2:6])     # normal memory io misc
    failed = set()
    if len(cmp) < 400 or len(kind) < 20:
        return failed

    def bad(key, what, lines):
        failed.update(lines)
        run.violation(key, what, "kind: input\n" + "".join("case: %s\n" % l for l in lines) +
                      "impl:\n" + "".join("  %s -> %s\n" % (l, cmp.get(tuple(int(x) for x in l.split()[1:])) if l.startswith("cmp") else kind.get(int(l.split()[1]))) for l in lines))

    normal = {t: kind[t][0] == 1 for t in range(20)}
    for t in range(20):
        run.count("kinds %d %r" % (t, kind[t]), kind="spec:kinds")
        if sum(kind[t]) != 1:
            bad("spec:kinds-exclusive:%d" % t, "type %d: (normal, memory, io, misc) = %r, exactly one must hold" % (t, kind[t]), ["kind %d" % t])
        if t != T_MACHINE:
            for a, b, want in ((T_MACHINE, t, "< 0"), (t, T_MACHINE, "> 0")):
                v = cmp[(a, b)]
                if v == UNORDERED or (want == "< 0" and not v < 0) or (want == "> 0" and not v > 0):
                    bad("spec:compare-types-machine-top:%d:%d" % (a, b),
                        "hwloc_compare_types(%d,%d) = %s, Machine must be above every other type (%s)" % (a, b, "UNORDERED" if v == UNORDERED else v, want),
                        ["cmp %d %d" % (a, b), "cmp %d %d" % (b, a)])
        if normal[t] and t != T_PU:
            v = cmp[(t, T_PU)]
            if v == UNORDERED or not v < 0:
                bad("spec:compare-types-pu-bottom:%d" % t, "hwloc_compare_types(%d,PU) = %s, PU must be below every other normal type" % (t, "UNORDERED" if v == UNORDERED else v),
                    ["cmp %d %d" % (t, T_PU), "kind %d" % t])
    for a in range(20):
        for b in range(20):
            x, y = cmp[(a, b)], cmp[(b, a)]
            run.count("pair %d %d %d %d" % (a, b, x, y), kind="spec:compare-types")
            ok = (y == UNORDERED) if x == UNORDERED else (y != UNORDERED and y == -x)
            if not ok and a <= b:
                bad("spec:compare-types-antisym:%d:%d" % (a, b),
                    "hwloc_compare_types(%d,%d) = %s but hwloc_compare_types(%d,%d) = %s" % (a, b, "UNORDERED" if x == UNORDERED else x, b, a, "UNORDERED" if y == UNORDERED else y),
                    ["cmp %d %d" % (a, b), "cmp %d %d" % (b, a)])
            if normal[a] and normal[b] and x == UNORDERED:
                bad("spec:compare-types-normal-ordered:%d:%d" % (a, b), "two normal types %d, %d compare UNORDERED" % (a, b),
                    ["cmp %d %d" % (a, b), "kind %d" % a, "kind %d" % b])
            if a == b and x != 0:
                bad("spec:compare-types-reflexive:%d" % a, "hwloc_compare_types(%d,%d) = %d" % (a, a, x), ["cmp %d %d" % (a, a)])
    return failed


def tier_spec(run, ck):
    """a name printed by the library is accepted again in any case (harvested from the C answers themselves)"""
    printed = set(unhex(r).lower() for r in ck.tier_answers.values() if r != "NULL" and re.fullmatch(r"[0-9a-f]+", r))
    for name, r in ck.tier_answers.items():
        if name in printed and r == "NULL":
            run.violation("memory-tier-name-not-accepted:" + name.hex()[:40], "the tier name %r is printed by hwloc_memory_tier_type_snprintf but not accepted by _sscanf" % name,
                          "kind: input\ncase: tier %s\n" % name.hex())


def tables_note(run, proof):
    """a table-based theorem no longer compiles: name the entries that changed w.r.t. the golden copy
    (message only; the oracle is the spec evaluation above and the theorems themselves)"""
    if proof["ok"]:
        return
    try:
        d = G.tables_diff(os.path.join(CORPUS, "tables.golden"), os.path.join(C.COQ, "Gen", "Tables.v"))
    except Exception as e:      # the message must never hide the verdict
        d = ["(could not compare with corpus/c11/tables.golden: %s)" % e]
    names = [f.get("name") or f["file"] for f in proof["failures"]]
    if d:
        run.violation("theorem-tables:" + ",".join(sorted(set(x.split("[")[0].split(":")[0] for x in d)))[:80],
                      "proof obligation(s) %s no longer check; regenerated table entries that differ from corpus/c11/tables.golden: %s" % (",".join(map(str, names)), "; ".join(d)),
                      "kind: theorem\nbroken obligations: %s\nchanged table entries (vs corpus/c11/tables.golden):\n  %s\n" % (",".join(map(str, names)), "\n  ".join(d)),
                      no_input=True)


def src_key(cur):
    """short stable name of a topology source line"""
    cur = cur or "?"
    if "|" in cur or "synthetic" in cur:
        import hashlib
        return "hist-" + hashlib.md5(cur.encode()).hexdigest()[:8] if "|" in cur else re.sub(r"\W+", "_", cur[5:])[:40]
    return os.path.basename(cur.split()[-1])


def topo_cases(run, T, srcs):
    """load each source with the real library; returns the derived tsn/asn lines (objects of loaded topologies)
    and evaluates the C-side checks (contract of every object x 9 flag words x every size; round trip; one text per level)"""
    rc, out, err = T.c(srcs, timeout=900)
    derived, cur = [], None
    fl_t = [0, 2, 4, 1, 63]
    fl_a = [0, 8, 9, 16, 40, 63]
    loaded = 0
    if rc != 0:
        last = [l for l in out if l.startswith("topo ")]
        run.violation("harness-crash-topo:" + (last[-1] if last else "?")[:80].replace(" ", "_"),
                      "the C harness died (rc=%d) while printing the objects of %s" % (rc, last[-1] if last else "?"),
                      "kind: input\nstderr:\n" + err[-3000:])
    for l in out:
        if l.startswith("topo "):
            cur = re.sub(r" (LOADED|LOADFAIL|DONE objs=.*)$", "", l)
            if l.endswith("LOADED"):
                loaded += 1
            if l.endswith("DONE objs=0 bad=0"):
                pass
            m = re.search(r"DONE objs=(\d+) bad=(\d+) contract_evals=(\d+)", l)
            if m:
                run.bump("topo:objects", int(m.group(1)))
                run.cov["c_side_contract_evaluations"] = int(m.group(3))
        elif l.startswith("level "):
            m = re.match(r"level (-?\d+) flags=(\d+) n=(\d+) differ=(\d+) first=(.*)", l)
            d, n, differ = int(m.group(1)), int(m.group(3)), int(m.group(4))
            run.count(l, nontrivial=n > 1, kind="level")
            # bridges (host vs PCI) and OS devices of one special level legitimately differ (DESIGN 6.C11)
            mo = re.search(r"first=(\S*) other=(\S*)$", l)
            if differ and mo and re.fullmatch(r"L\d+(Cache)?", mo.group(1).replace("d", "", 1)) and mo.group(1).replace("d", "", 1) == mo.group(2).replace("d", "", 1) \
               and "i" not in mo.group(1) + mo.group(2):
                # data and unified caches of the same depth share one object type (hence one level) but not one text
                run.violation(K_DU, "objects of one level print different type texts: %s (%s)" % (l, cur), "kind: input\ncase: %s\n%s\n" % (cur, l))
            elif differ and d not in (-4, -6):
                run.violation("level-type-text-differs:%s:%d" % (src_key(cur), d),
                              "objects of one level print different type texts: %s (%s)" % (l, cur), "kind: input\ncase: %s\n%s\n" % (cur, l))
        elif l.startswith("robj "):
            src = cur or "?"
            if "LOOP" in l:
                run.violation(K_LOOP, "on a loaded topology (%s): %s" % (src, l), "kind: input\ncase: %s\n%s\n" % (src, l))
            elif "ASSERT" in l or ("roundtrip" in l and "type=16" in l):
                run.violation(K_BRIDGE, "on a loaded topology (%s): %s" % (src, l), "kind: input\ncase: %s\n%s\n" % (src, l))
            else:
                # one key per (check, object type, flags): a broken keyword would otherwise be reported once per object
                mm = re.match(r"robj (\S+) .*?(type=\d+)?.*?(flags=\d+)", l)
                key = "loaded-object:" + (":".join(x for x in mm.groups() if x) if mm else re.sub(r"\W+", "_", l)[:60])
                run.violation(key, "on a loaded topology (%s): %s" % (src, l), "kind: input\ncase: %s\n%s\n" % (src, l))
        elif l.startswith("obj "):
            m = re.match(r"obj depth=(-?\d+) tsn (.*) \| asn (.*) \| (\d+.*)$", l)
            tf, af, inf = m.group(2), m.group(3), m.group(4)
            for fl in fl_t:
                derived.append("tsn %s %d" % (tf, fl))
            for fl in fl_a:
                derived.append("asn %s %s %d %s" % (af, G.hx(" "), fl, inf))
    return loaded, sorted(set(derived))


def xml_sources():
    xs = sorted(glob.glob(os.path.join(C.REPO, "tests/hwloc/xml/*.xml")))
    xs += sorted(glob.glob(os.path.join(CORPUS, "*.xml")))
    xs += G.xml_cache_docs(XML_GEN_DIR)     # cache type string x cache_type x depth: only coherent ones may load
    return ["topo xml " + x for x in xs] + ["topo synthetic " + s for s in G.SYNTHETIC]


def history_sources(rng, tier):
    return ["topo " + h for h in G.history_cases(rng, tier)]


def corpus_lines():
    res = []
    for p in sorted(glob.glob(os.path.join(CORPUS, "*.case"))):
        for l in open(p):
            l = l.rstrip("\n")
            if l and not l.startswith("#"):
                res.append(l)
    return res


def with_fork_marks(T, ssc):
    """strings for which the model predicts a read outside the blocks are answered in a forked child"""
    am = T.m(ssc)
    return [("ssc! " + c[4:]) if a.endswith("-> OOB") else c for c, a in zip(ssc, am)]


def check(run, replay=None):
    proof = C.prove("C11")
    T = Tools()
    ck = Checker(run, T)
    if replay:
        G.xml_cache_docs(XML_GEN_DIR)
        txt = open(replay).read()
        cases = [l[6:] for l in txt.split("\n") if l.startswith("case: ") and l[6:].split(" ", 1)[0].rstrip("!") in ("tsn", "asn", "ssc", "tstr", "cmp", "kind", "tier", "clsweep", "sad", "gtd")]
        topos = [l[6:] for l in txt.split("\n") if l.startswith("case: topo ")]
        if topos:
            _, derived = topo_cases(run, T, topos)
            ac, am = ck.execute(derived)
            ck.judge(derived, ac, am, "replay", from_load=True)
        if cases:
            if any(c.startswith(("cmp ", "kind ")) for c in cases):      # finite domain: re-evaluate all of it
                cases = [c for c in cases if not c.startswith(("cmp ", "kind "))] + ALL_TYPE_CASES
            cases = with_fork_marks(T, [c for c in cases if c.startswith("ssc")]) + [c for c in cases if not c.startswith("ssc")]
            ac, am = ck.execute(cases)
            ck.spec_failed = types_spec(run, cases, ac) or set()
            ck.judge(cases, ac, am, "replay")
        tables_note(run, proof)
        return run.finish(proof, trusted=TRUSTED)

    rng = run.rng
    # 1. corpus first, then the enumerated / generated cases
    cases = corpus_lines()
    cases += ALL_TYPE_CASES
    cases += ["tstr %d" % t for t in range(0, 22)]
    cases += G.tsn_cases(rng, run.tier)
    # every (depth, cache type) the loaders map to a cache object type (hwloc_cache_type_by_depth_type as compiled from
    # the current source: finite table) is an attribute value reachable through load: its text must round trip
    try:
        tbl = G.read_tables(os.path.join(C.COQ, "Gen", "Tables.v")).get("cache_type_by_depth_type_tbl", [])
        for d, row in enumerate(tbl):
            for ct, v in enumerate(re.findall(r"\((-?\d+)\)%Z", row)):
                if int(v) >= 0:
                    ck.table_caches.add((int(v), d, ct))
                    cases += [G.tsn(int(v), cd=d, ct=ct, flags=fl) for fl in (0, 2)]
    except OSError:
        pass
    cases += G.asn_cases(rng, run.tier, T.cls_text, T.lnk_text)
    ssc = G.ssc_cases(rng, run.tier)
    e0 = G.ssc_e0_cases(rng, run.tier)
    ssc = with_fork_marks(T, ssc + e0)
    nfork = sum(1 for c in ssc if c.startswith("ssc!"))
    run.bump("ssc:forked-because-model-predicts-oob", nfork)
    cases += ssc
    # corpus ssc lines also need the fork mark when the model predicts OOB
    cases = [c for c in cases if not c.startswith("ssc")] + with_fork_marks(T, [c for c in cases if c.startswith("ssc ")]) + [c for c in cases if c.startswith("ssc!")]
    cases += G.clsweep_cases() if run.tier != "quick" or True else []
    cases += G.tier_cases(rng, run.tier)
    ac, am = ck.execute(cases)
    ck.spec_failed = types_spec(run, cases, ac) or set()     # concrete pairs first
    ck.judge(cases, ac, am, "gen")
    tier_spec(run, ck)
    tables_note(run, proof)

    hist = history_sources(rng, run.tier)
    # 1b. hwloc_type_sscanf_as_depth / hwloc_get_type_depth_with_attr on loaded topologies
    srcs = G.lv_sources(C.REPO, CORPUS) + [h[5:].replace(" | ", "|").replace(" ", "_") for h in hist[:6]]
    rc, out, err = T.c(["lv " + x for x in srcs])
    dcases = []
    for l in out:
        if l.startswith("lv ") and " levels=" in l:
            cs, ex = G.depth_cases(rng, run.tier, l)
            dcases += cs
            ck.depth_expect.update(ex)
    run.bump("lv:topologies", sum(1 for l in out if " levels=" in l))
    ac, am = ck.execute(dcases)
    ck.judge(dcases, ac, am, "depth")

    # 2. objects of real topologies
    run.bump("topo:with-post-load-history", len(hist))
    loaded, derived = topo_cases(run, T, xml_sources() + hist)
    run.bump("topo:loaded", loaded)
    if run.tier == "quick" and len(derived) > 2500:
        keep = set(rng.sample(range(len(derived)), 2500))
        # always keep bridges and OS devices (the special levels whose objects differ)
        derived = [d for i, d in enumerate(derived) if i in keep or d.split()[1] in ("16", "18")]
    ac, am = ck.execute(derived)
    ck.judge(derived, ac, am, "loaded", from_load=True)

    run.cov["exhaustive"] = "cmp/kind: all 400 pairs / 20 types; tsn: all 20 types x enumerated attribute values x flag words 0..63 (OS devices: all 128 known words x flag words 0..7); sizes 0..needed+1"
    run.cov["correspondence_mismatches"] = ck.n_corr_bad
    run.assumptions.append("attr printer: Bridge/PCI objects with total_memory != 0 (never produced by load) are compared with the model only (the printer then stores at (string,size) instead of (tmp,tmplen): latent, see report)")
    return run.finish(proof, trusted=TRUSTED)


ALL_TYPE_CASES = ["cmp %d %d" % (a, b) for a in range(20) for b in range(20)] + ["kind %d" % a for a in range(20)]

TRUSTED = ["libc vsnprintf for %s %u %d %x %llu %c (specified as the C99 contract in Base/Snprintf.v; float %.2f and hwloc_pci_class_string() are opaque pieces supplied by the C side)",
           "glibc strtol/strncasecmp/strchr as modelled in Base/Strto.v, Base/Bytes.v (validated by C04's sweep)",
           "harness watchdog: a printer call using more than 150 ms of CPU time is reported as non-terminating"]


def prebuild():
    Tools()
