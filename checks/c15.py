"""C15: CPU kinds partition the registered PUs and are ranked consistently.

proof     : coq/Props/Properties_C15.v (model coq/Attr/Cpukinds.v)
tie       : the same case scripts are executed by harness/hwv_cpukinds.c (real
            library, ASan/UBSan) and by the extracted model (ocaml/drv_c15.ml);
            transcripts are compared line by line (public lines = L1, "p" lines
            with private fields = representation drift)
spec      : gen/cpukinds_gen.spec_check evaluates the property statement on
            the implementation's transcript, independently of the model."""
import os
import re
import tempfile

from hv import common as C
from gen import cpukinds_gen as G



def _write(lines_list):
    fd, path = tempfile.mkstemp(prefix="c15-", suffix=".case", dir=C.BUILD)
    with os.fdopen(fd, "w") as f:
        for ls in lines_list:
            f.write("\n".join(ls) + "\n")
    return path


def _run(exe, cases, env=None, timeout=300):
    path = _write(cases)
    try:
        rc, out, err = C.sh([exe, path], env=env, timeout=timeout)
    finally:
        os.unlink(path)
    return rc, out.decode(errors="replace"), err.decode(errors="replace")


class Ctx:
    def __init__(self, run):
        self.run = run
        self.drv = C.extract("C15", "drv_c15.ml")
        self.exe = C.build_harness("hwv_cpukinds", ["hwv_cpukinds.c"])
        self.env = C.run_env()
        self.env.pop("HWLOC_CPUKINDS_RANKING", None)

    def model(self, cases, couts=None):
        """run the model; caseroot cases start from the state the implementation loaded (couts)"""
        scripts = []
        for c in cases:
            s = G.model_script(c, (couts or {}).get(c[0].split()[1]))
            if s is not None:
                scripts.append(s)
        if not scripts:
            return {}
        rc, out, err = _run(self.drv, scripts)
        if rc != 0:
            raise RuntimeError("model driver failed: " + err[-2000:])
        return G.split_cases(out)[0]

    def impl(self, cases, **envkw):
        env = dict(self.env)
        env.update(envkw)
        rc, out, err = _run(self.exe, cases, env=env)
        return rc, G.split_cases(out)[0], err

    def verdict_one(self, case):
        """Run one case alone on both sides.  Returns (kind, key, what, impl_lines, model_lines)
        kind in: ok, crash, spec, diff, drift"""
        name = case[0].split()[1]
        rc, outs, err = self.impl([case])
        c = outs.get(name, [])
        m = self.model([case], outs).get(name, [])
        fatal = [l for l in m if l.startswith("FATAL")]
        bad = G.spec_check(case, c)
        if fatal:
            # Properties_C15.history_safe / history_in_bounds: no history reaches these
            return "diff", "correspondence:model-fatal", "model reports %s (excluded by theorem for every history)" % fatal[0], c, m
        if rc != 0:
            return "crash", "crash:" + _san_key(rc, err), "C harness rc=%d: %s" % (rc, _san_summary(err)), c, m
        if bad:
            return "spec", "spec:" + bad[0][0], bad[0][1], c, m
        pc, pm = G.public_view(c), G.public_view(m)
        if pc != pm:
            i = next((i for i, (a, b) in enumerate(zip(pc, pm)) if a != b), min(len(pc), len(pm)))
            return "diff", "correspondence:" + name, "model and implementation differ at transcript line %d: impl=%r model=%r" % (
                i, pc[i] if i < len(pc) else None, pm[i] if i < len(pm) else None), c, m
        if c != m:
            return "drift", "drift", "private fields differ", c, m
        return "ok", None, None, c, m


def _san_key(rc, err):
    m = re.search(r"ERROR: (\w+): ([\w-]+)", err)
    if m:
        return "%s-%s" % (m.group(1), m.group(2))
    m = re.search(r"runtime error: ([^\n]{0,60})", err)
    if m:
        return "ubsan-" + re.sub(r"\W+", "-", m.group(1))[:40]
    return "rc%d" % rc


def _san_summary(err):
    m = re.search(r"(ERROR: [^\n]*|runtime error: [^\n]*|SUMMARY: [^\n]*)", err)
    return m.group(1)[:200] if m else err[-200:].replace("\n", " ")


def _replay_text(kind, case, c, m):
    return ("kind: %s\ncase-script:\n%s\nimpl:\n%s\nmodel:\n%s\n" % (
        kind, "\n".join(case), "\n".join(c), "\n".join(m)))


def _report(ctx, case, shrink=True):
    """classify one failing case, shrink it, file the violation"""
    run = ctx.run
    kind, key, what, c, m = ctx.verdict_one(case)
    if kind in ("ok", "drift"):
        return kind
    if shrink:
        def fails(cand):
            k2, key2, _, _, _ = ctx.verdict_one(cand)
            return k2 == kind and (key2 == key or kind == "diff")
        small = G.shrink(case, fails, budget=40 if run.tier == "quick" else 150)
        if small != case:
            case = small
            kind, key, what, c, m = ctx.verdict_one(case)
    no_input = kind == "diff"
    if kind == "diff":
        key = "correspondence:" + case[0].split()[1]
    run.violation(key, what, _replay_text("correspondence" if no_input else "input", case, c, m), no_input=no_input)
    return kind


SNAPSHOTS = ["fakeheterocpunuma", "2arm-2c", "32amd64-4s2n4c-cgroup2", "8ia64-2s2c2t"]
SNAPSHOTS_THOROUGH = ["48amd64-4pa2n6c-sparse", "128arm-2pa2n8cluster4co", "32em64t-2n8c+dax+nvme+mic+dimms"]
_scratch = None


def snapshot_cases(run):
    """Linux sysfs snapshots whose cpufreq / cpu_capacity files make the Linux backend register kinds
    (look_sysfscpukinds, HWLOC_CPUKINDS_HOMOGENEOUS): the loaded kinds are judged by the specification
    and are the starting state of further public operations compared with the model"""
    global _scratch
    from gen import topo_sources as S
    rng = run.rng
    thorough = run.tier == "thorough"
    have = {os.path.basename(p)[:-8]: p for p in S.snapshots("linux")}
    names = [n for n in SNAPSHOTS + (SNAPSHOTS_THOROUGH if thorough else []) if n in have]
    if not names:
        run.cov["linux_snapshots"] = "none found"
        return []
    _scratch = S.Scratch()
    out = []
    i = 0
    for n in names:
        d = _scratch.unpack(have[n])
        reps = (40 if thorough else 8) if n == "fakeheterocpunuma" else (6 if thorough else 2)
        for r in range(reps):
            homog = ["-", "1", "0", "-"][r % 4] if n == "fakeheterocpunuma" else ["-", "1"][r % 2]
            ranking = rng.choice(G.ENVS[1:11]) if r >= 2 else None
            out.append(("linux-snapshot", G.snapshot_case(rng, "ls%d" % i, d, homog, ranking)))
            i += 1
    # a derived hybrid snapshot: Intel core/atom/low-power PMU cpulists, more than four distinct maximal
    # frequencies (the backend's per-value array has to grow), every HWLOC_CPUKINDS_MAXFREQ mode
    if "fakeheterocpunuma" in have:
        import shutil
        src = _scratch.unpack(have["fakeheterocpunuma"])
        dst = os.path.join(_scratch.dir, "derived-hybrid")
        if not os.path.isdir(dst):
            shutil.copytree(src, dst, symlinks=True)
            for pmu, cpus in (("cpu_atom", "0-7"), ("cpu_core", "8-19"), ("cpu_lowpower", "20-23")):
                os.makedirs(os.path.join(dst, "sys/devices", pmu), exist_ok=True)
                open(os.path.join(dst, "sys/devices", pmu, "cpus"), "w").write(cpus + "\n")
            for c in range(24):
                f = os.path.join(dst, "sys/devices/system/cpu/cpu%d/cpufreq/cpuinfo_max_freq" % c)
                if os.path.exists(f):
                    os.chmod(f, 0o644)
                    open(f, "w").write("%d\n" % (2000000 + (c % 6) * 150000 + (c // 12) * 7000))
        for r, mf in enumerate(["-", "0", "1", "adjust=3", "adjust=50", "-"] * (3 if thorough else 1)):
            out.append(("linux-snapshot", G.snapshot_case(rng, "ls%d" % i, dst, ["-", "-", "-", "-", "-", "1"][r % 6],
                                                          rng.choice(G.ENVS[1:11]) if r % 2 else None, maxfreq=mf)))
            i += 1
        names = names + ["derived-hybrid(fakeheterocpunuma + cpu_atom/cpu_core/cpu_lowpower, 12 max frequencies)"]
    run.cov["linux_snapshots"] = names
    return out


def gen_cases(run):
    rng = run.rng
    cases = []
    # corpus first
    cdir = os.path.join(C.VERIF, "corpus", "c15")
    for n in sorted(os.listdir(cdir)) if os.path.isdir(cdir) else []:
        if n.endswith(".case"):
            ls = [l.rstrip("\n") for l in open(os.path.join(cdir, n)) if l.strip() and not l.startswith("#")]
            cases.append(("corpus", ls))
    thorough = run.tier == "thorough"
    ex = list(G.exhaustive_cases(3, 4))
    if not thorough:
        keep = ex[:15 + 225] + rng.sample(ex[15 + 225:], 700)
        run.cov["exhaustive"] = "all sequences of <=2 registrations over 4 PUs; 700 sampled of the 3375 of length 3"
    else:
        keep = ex + list(G.exhaustive_cases(4, 4, minregs=4, probes=4))
        run.cov["exhaustive"] = "all 54240 sequences of <=4 registrations over the 15 non-empty subsets of 4 PUs; all 3375 (a,b,restrict) triples"
    cases += [("exhaustive", c) for c in keep]
    rs = list(G.restrict_cases(4))
    cases += [("restrict", c) for c in (rs if thorough else rng.sample(rs, 400))]
    nrand = 6000 if thorough else 900
    for i in range(nrand):
        cases.append(("random", G.random_case(rng, "rnd%d" % i, nbpus=rng.choice([16, 16, 16, 5, 70]),
                                              maxops=rng.choice([8, 12, 12, 25]))))
    for i in range(1500 if thorough else 250):
        cases.append(("info-ranking", G.info_rank_case(rng, "ir%d" % i, nbpus=rng.choice([4, 8, 12]))))
    for i in range(1500 if thorough else 250):
        cases.append(("internal-register", G.internal_case(rng, "in%d" % i, nbpus=rng.choice([4, 8, 16]))))
    for i in range(600 if thorough else 100):
        cases.append(("adopted", G.adopt_case(rng, "ad%d" % i, nbpus=rng.choice([4, 8, 16]))))
    for i in range(1500 if thorough else 200):
        cases.append(("re-register", G.reregister_case(rng, "rr%d" % i, nbpus=rng.choice([4, 8, 16]))))
    # cpusets built word by word on pu:128 / pu:192 / pu:200 (every branch of the word loop of compare_inclusion)
    cases += [("wordwise", c) for c in G.wordwise_cases(2, rng)]
    cases += [("wordwise", c) for c in G.wordwise_cases(3, rng, sample=None if thorough else 300)]
    cases += [("wordwise", c) for c in G.wordwise_cases(2, rng, infinite=(False, True), sample=None if thorough else 40) if not c[0].split()[1].endswith("_00")]
    if thorough:
        cases += [("wordwise", c) for c in G.wordwise_cases(3, rng, infinite=(False, True), sample=200) if not c[0].split()[1].endswith("_00")]
    for i in range(1500 if thorough else 200):
        cases.append(("no-cpukinds-flag", G.nocpukinds_case(rng, "nk%d" % i)))
    for i in range(3000 if thorough else 350):
        cases.append(("numa-restrict-flags", G.numa_case(rng, "nu%d" % i)))
    cases += snapshot_cases(run)
    for i in range(400 if thorough else 80):
        cases.append(("malformed", G.malformed_case(rng, "bad%d" % i)))
    # a dedicated stream that registers right after a restrict (regression for fix c027890: stale vacated slot)
    for i in range(1500 if thorough else 250):
        cases.append(("after-restrict", G.random_case(rng, "ar%d" % i, nbpus=rng.choice([4, 8, 16]), maxops=10, p_clean_after_restrict=0.0)))
    return cases


def check(run, replay=None):
    proof = C.prove("C15")
    ctx = Ctx(run)

    if replay:
        txt = open(replay).read()
        m = re.search(r"case-script:\n(.*?)\nimpl:\n", txt, re.S)
        if not m:
            print("C15: replay file holds no case script (theorem-level finding): re-running the full check")
        else:
            case = [l for l in m.group(1).split("\n") if l.strip()]
            kind = _report(ctx, case, shrink=False)
            run.count("\n".join(case), True, {"case": case[:6], "verdict": kind}, "replay")
            return run.finish(proof, trusted=_trusted())

    cases = gen_cases(run)
    names = {}
    for kind, c in cases:
        names[c[0].split()[1]] = (kind, c)
    allc = [c for _, c in cases]

    # 1. implementation on everything (one process; on a crash, continue after the offending case)
    cout = {}
    todo = allc
    crashes = 0
    while todo:
        rc, outs, err = ctx.impl(todo)
        cout.update(outs)
        if rc == 0:
            break
        # the last case present in the output is the one that died
        seen = [c for c in todo if c[0].split()[1] in outs]
        culprit = seen[-1] if seen else todo[0]
        cout.pop(culprit[0].split()[1], None)
        crashes += 1
        _report(ctx, culprit, shrink=crashes <= 3)
        todo = todo[todo.index(culprit) + 1:]
        if crashes > 20:
            break

    # 2. model on everything (Linux snapshot cases start from the state the implementation loaded)
    mout = ctx.model(allc, cout)
    fatal = [n for n, ls in mout.items() if any(l.startswith("FATAL") for l in ls)]
    for n in fatal[:3]:
        _report(ctx, names[n][1])
    batch = [names[n][1] for n in names if n not in fatal]

    # 3. compare + evaluate the specification on the implementation's transcripts
    drift = 0
    reported = 0
    more = []
    hyp = {"forced_known_distinct": 0, "restrict_removed_kind": 0, "ranked": 0, "all_unknown": 0, "einval": 0, "exdev": 0, "enoent": 0, "found": 0, "restrict_bynodeset_removed_pus": 0}
    for c in batch:
        n = c[0].split()[1]
        kind = names[n][0]
        ci, mi = cout.get(n), mout.get(n, [])
        if ci is None:
            continue
        txt = "\n".join(ci)
        hyp["einval"] += txt.count("err=EINVAL")
        hyp["exdev"] += txt.count("err=EXDEV")
        hyp["enoent"] += txt.count("err=ENOENT")
        hyp["found"] += len(re.findall(r"getby rc=\d+ err=OK", txt))
        bad = G.spec_check(c, ci, hyp)
        pc, pm = G.public_view(ci), G.public_view(mi)
        nontrivial = any(l.startswith("k 1 ") for l in ci)
        run.count(txt, nontrivial, {"case": c[:5], "impl": ci[:8]}, kind)
        if bad or pc != pm:
            if reported < 5:
                _report(ctx, c)
                reported += 1
            else:
                more.append(n)
        else:
            run.cov["traces_validated_against_impl"] += 1
            if ci != mi:
                drift += 1
    run.cov["model_fatal_cases"] = len(fatal)
    # 4. an unrecognized HWLOC_CPUKINDS_RANKING value: default strategy, and a message on stderr when
    #    critical errors are shown (separate process: the HWLOC_HIDE_ERRORS value is cached)
    loud = []
    for i in range(3):
        c = ["case loud%d 4" % i,
             G.reg_line(G.BS(3), 2 + i, 0, [("CoreType", "IntelAtom")]),
             G.reg_line(G.BS(12), 1, 0, [("CoreType", "IntelCore")]),
             "env " + G.hexs(["bogus", "Default", "frequency "][i]), "rank", "env " + G.hexs("none"), "rank"]
        loud.append(c)
    rc, outs, err = ctx.impl(loud, HWLOC_HIDE_ERRORS="0")
    ml = ctx.model(loud)
    nmsg = err.count("Failed to recognize HWLOC_CPUKINDS_RANKING value")
    for c in loud:
        n = c[0].split()[1]
        run.count("\n".join(outs.get(n, [])), True, None, "unrecognized-ranking-value")
        if rc != 0 or G.public_view(outs.get(n, [])) != G.public_view(ml.get(n, [])) or G.spec_check(c, outs.get(n, [])):
            _report(ctx, c, shrink=False)
    if rc == 0 and nmsg != 3:
        run.violation("unrecognized-ranking-message", "expected 3 'Failed to recognize HWLOC_CPUKINDS_RANKING value' messages on stderr with HWLOC_HIDE_ERRORS=0, got %d" % nmsg,
                      _replay_text("input", sum(loud, []), [err[-1500:]], []))
    run.cov["drift"] = drift
    run.cov["further_failing_cases"] = {"count": len(more), "first": more[:20]}
    run.cov["hypothesis_frequencies"] = hyp
    run.cov["harness_crashes"] = crashes
    if _scratch is not None:
        _scratch.close()
    return run.finish(proof, trusted=_trusted())


def _trusted():
    return ["cpusets are abstracted to finite/cofinite sets (Base/BSet.v); hwloc_bitmap_compare_inclusion/and/andnot/iszero are taken at their set-level meaning (C03's subject), exercised here incl. multiword and infinite sets",
            "qsort is taken to sort (ranking values are distinct whenever it is called, so the result is unique)",
            "hwloc_topology_restrict/dup/XML export+import outside cpukinds.c are driven for real but only their cpukinds part is modelled",
            "allocation failures (realloc/strdup returning NULL) are not modelled",
            "glibc atoi as modelled in Base/Strto.v"]
