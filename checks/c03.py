"""C03: bitmap operations implement exact finite/cofinite set semantics.

proof      : coq/Props/Properties_C03.v (model coq/Bitmap/BitmapModel.v refines Base/BSet.v)
tie        : harness/hwv_bitmap.c (#includes the current hwloc/bitmap.c) vs the extracted model,
             same case file, L1 = return value + canonical set, L2 = count/alloc/raw words
search     : the extracted BSet specification (coq/Bitmap/BitmapSpec.v) evaluated on every op and
             compared with what the C code produced (so a C defect is a violation even if model == C)
"""
import collections
import concurrent.futures
import hashlib
import os
import re
import subprocess
import tempfile

from hv import common as C
from gen import bitmap_gen as G

KNOWN_CMPF = "compare_first-empty-vs-infinite-from-64k"
KNOWN_NR0 = "from_ulongs-nr0"
CORPUS = os.path.join(C.VERIF, "corpus", "c03")


class Tools:
    def __init__(self):
        self.drv = C.extract("C03", "drv_c03.ml")
        self.exe = C.build_harness("hwv_bitmap", ["hwv_bitmap.c"], with_lib=False,
                                   extra_flags=['-DHV_BITMAP_C="%s"' % os.path.join(C.REPO, "hwloc/bitmap.c")])
        self.env = C.run_env()
        self.tmp = tempfile.mkdtemp(prefix="hwv-c03-")

    def run3(self, lines, name="case", want_model=True):
        """-> (rc_c, out_c lines, err_c text, out_m lines, out_s lines)"""
        path = os.path.join(self.tmp, "%s-%d-%s.txt" % (name, os.getpid(), hashlib.md5("\n".join(lines).encode()).hexdigest()[:10]))
        with open(path, "w") as f:
            f.write("\n".join(lines) + "\n")
        pc = subprocess.Popen([self.exe, path], stdout=subprocess.PIPE, stderr=subprocess.PIPE, env=self.env)
        pm = subprocess.Popen([self.drv, path], stdout=subprocess.PIPE, stderr=subprocess.PIPE) if want_model else None
        ps = subprocess.Popen([self.drv, "--spec", path], stdout=subprocess.PIPE, stderr=subprocess.PIPE)
        try:
            oc, ec = pc.communicate(timeout=600)
            rc = pc.returncode
        except subprocess.TimeoutExpired:
            pc.kill()
            oc, ec = pc.communicate()
            rc, ec = 124, ec + b"\nTIMEOUT"
        om = pm.communicate(timeout=900)[0] if pm else b""
        os_ = ps.communicate(timeout=900)[0]
        try:
            os.unlink(path)
        except OSError:
            pass
        sp = lambda b: b.decode(errors="replace").split("\n")[:-1]
        return rc, sp(oc), ec.decode(errors="replace"), sp(om), sp(os_)


def l1(line):
    return line.split(" | ")[0]


def in_model_domain(op):
    t = op.split()
    return not (t[0] == "fromuls" and t[2] == "0")


def known_class(op, spec_line):
    """the violation class excluded by compare_first_partial: one operand empty, the other an
    infinite set whose least element is a positive multiple of 64 (= {64k, 64k+1, ...})."""
    if not op.startswith("cmpf "):
        return False
    m = re.match(r"R=\S+ T=(\d):(\S+) S=(\d):(\S+)", spec_line)
    if not m:
        return False
    a = (m.group(3), m.group(4))
    b = (m.group(1), m.group(2))
    def empty(x): return x == ("0", "-")
    def from64k(x): return x[0] == "1" and x[1] != "-" and all(w == "0" for w in x[1].split(","))
    return (empty(a) and from64k(b)) or (empty(b) and from64k(a))


class Checker:
    def __init__(self, run, tools):
        self.run, self.t = run, tools
        self.drift = 0
        self.shrunk = 0
        self.kinds = collections.Counter()
        self.alias = collections.Counter()
        self.hyp = collections.Counter()
        self.ops = 0
        self.l1_agree = 0
        self.per_kind = collections.Counter()

    # ---- one failing case --------------------------------------------------
    def _fails_spec(self, sub):
        rc, oc, ec, _, osp = self.t.run3(sub, "dd", want_model=False)
        if rc != 0:
            return True
        return len(oc) == len(sub) and len(osp) == len(sub) and l1(oc[-1]) != osp[-1]

    def _fails_model(self, sub):
        rc, oc, ec, om, osp = self.t.run3(sub, "dd")
        return rc == 0 and len(oc) == len(sub) == len(om) and l1(oc[-1]) != l1(om[-1])

    def _fails_crash(self, sub):
        rc, oc, ec, _, _ = self.t.run3(sub, "dd", want_model=False)
        return rc != 0

    def report(self, kind, case, j, why):
        """case: list of op lines; j: index of the failing op"""
        pre = [l for l in case[:j + 1] if l != "reset"]
        op = pre[-1]
        opk = op.split()[0]
        self.per_kind[(kind, opk)] += 1
        if self.per_kind[(kind, opk)] > 3:
            return            # same op kind already reported three times (each with its shrunk case)
        if self.shrunk < 12:
            self.shrunk += 1
            pred = {"spec": self._fails_spec, "model": self._fails_model, "crash": self._fails_crash}[kind]
            if pred(pre):
                pre = G.ddmin(pre, pred)
        rc, oc, ec, om, osp = self.t.run3(pre, "rep")
        body = "kind: %s\ncase:\n%s\n\nimpl:\n%s\n\nmodel:\n%s\n\nspec:\n%s\n\nstderr:\n%s\n" % (
            "input" if kind != "model" else "correspondence", "\n".join(pre), "\n".join(oc), "\n".join(om), "\n".join(osp), ec[-3000:])
        h = hashlib.md5("\n".join(pre).encode()).hexdigest()[:8]
        if kind == "spec":
            if osp and known_class(op, osp[-1]):
                key = KNOWN_CMPF
            else:
                key = "%s:%s" % (opk, h)
            self.run.violation(key, "hwloc_bitmap %s: C result differs from the set-semantics specification (%s) after %d ops: %s"
                               % (opk, why, len(pre), " ; ".join(pre[-6:])), body)
        elif kind == "crash":
            if opk == "fromuls" and op.split()[2] == "0":
                key = KNOWN_NR0
            else:
                key = "sanitizer:%s:%s" % (opk, h)
            first = next((l for l in ec.split("\n") if "runtime error" in l or "ERROR" in l), ec[:200])
            self.run.violation(key, "C harness died (rc=%d) in %s: %s" % (rc, op, first.strip()), body)
        else:
            self.run.violation("correspondence:%s" % opk,
                               "model and implementation differ on observable behaviour (both may satisfy the spec): " + why, body, no_input=True)

    # ---- one chunk of cases ------------------------------------------------
    def check_lines(self, lines, meta=None, model=True):
        """lines: op lines including `reset` separators.  Returns number of L1 problems."""
        rc, oc, ec, om, osp = self.t.run3(lines, "chunk", want_model=model)
        problems = 0
        # case boundaries
        starts = [i for i, l in enumerate(lines) if l == "reset"] + [len(lines)]
        if not starts or starts[0] != 0:
            starts = [0] + starts
        reported_cases = set()
        def case_of(i):
            k = max(s for s in starts if s <= i)
            e = min(s for s in starts if s > i)
            return k, e
        n = min(len(oc), len(lines))
        for i in range(n):
            op = lines[i]
            if op == "reset":
                continue
            c, s = oc[i], (osp[i] if i < len(osp) else "<spec missing>")
            self.ops += 1
            if op.split()[0] in ("ffsl", "flsl", "popc"):
                m = om[i] if i < len(om) else "<model missing>"
                if c != m:
                    problems += 1
                    self.run.violation("leaf:" + op.replace(" ", "-"), "misc.h leaf function differs from its specification: impl=%r spec=%r" % (c, m),
                                       "kind: input\ncase:\n%s\n\nimpl:\n%s\n\nmodel:\n%s\n" % (op, c, m))
                else:
                    self.l1_agree += 1
                continue
            c1 = l1(c)
            if op.startswith("cmpf "):
                self.hyp["cmpf_total"] += 1
                if known_class(op, s):
                    self.hyp["cmpf_in_excluded_class"] += 1
            if c1 != s:
                problems += 1
                k, e = case_of(i)
                if (k, "spec") not in reported_cases or known_class(op, s):
                    reported_cases.add((k, "spec"))
                    if known_class(op, s) and KNOWN_CMPF in self.run.known_hit:
                        continue          # already reported once (known finding), do not shrink again
                    self.report("spec", lines[k:e], i - k, "impl %r, spec %r" % (c1, s))
                continue
            if model and in_model_domain(op):
                m = om[i] if i < len(om) else "<model missing>"
                if c1 != l1(m):
                    problems += 1
                    k, e = case_of(i)
                    if (k, "model") not in reported_cases:
                        reported_cases.add((k, "model"))
                        self.report("model", lines[k:e], i - k, "impl %r, model %r" % (c1, l1(m)))
                    continue
                if c != m:
                    self.drift += 1
            self.l1_agree += 1
        if rc != 0:
            problems += 1
            i = len(oc)
            if i < len(lines):
                k, e = case_of(i)
                self.report("crash", lines[k:e], i - k, "rc=%d" % rc)
            else:
                self.run.violation("sanitizer:exit", "C harness exit code %d (leak or late report)" % rc,
                                   "kind: input\ncase:\n%s\n\nstderr:\n%s\n" % ("\n".join(lines[-200:]), ec[-3000:]))
        return problems


# Indexes around INT_MAX.  A bitmap holding bit 2^31-1 needs 2^25 words (256 MB): far beyond what the
# extracted model (lists indexed by Peano naturals) can execute, so these few cases run on the C code only
# and are compared with hand-written expected return values (the BSet spec evaluated by hand).  The int
# return type cannot represent an index or a weight above INT_MAX: cases whose true result is above
# INT_MAX are outside the property (expected = None: only "no sanitizer report" is required of them).
INT_MAX = 2147483647
BIG_CASES = [
    ("quick", "int-max-bit", [
        ("set 0 2147483647", "0"), ("last 0", "2147483647"), ("first 0", "2147483647"), ("weight 0", "1"),
        ("next 0 -1", "2147483647"), ("next 0 2147483646", "2147483647"), ("isset 0 2147483647", "1"),
        ("isset 0 2147483646", "0"), ("nr 0", "33554432"), ("nextu 0 -1", "0"),
        ("next 0 2147483647", "-1"),          # what a foreach loop calls after having returned INT_MAX
        ("lastu 0", "-1"), ("iszero 0", "0"), ("clr 0 2147483647", "0"), ("iszero 0", "1"), ("last 0", "-1")]),
    ("thorough", "top-range", [
        ("setr 0 2147483500 2147483647", "0"), ("weight 0", "148"), ("first 0", "2147483500"), ("last 0", "2147483647"),
        ("next 0 2147483583", "2147483584"), ("next 0 2147483646", "2147483647"), ("nextu 0 2147483499", None),
        ("setr 1 2147483583 -1", "0"), ("first 1", "2147483583"), ("last 1", "-1"), ("lastu 1", "2147483582"),
        ("isincl 0 1", "0"), ("inter 0 1", "1"), ("and 2 0 1", "0"), ("first 2", "2147483583"), ("last 2", "2147483647"),
        ("weight 2", "65"), ("cmp 0 1", "-1"), ("cmpf 0 1", "-1"), ("cmpi 0 1", "3"),
        ("next 1 2147483647", None)]),       # true answer 2^31: not representable
    ("thorough", "above-int-max", [           # outside the property: only robustness (no UB) and the non-index queries
        ("set 0 2147483648", "0"), ("isset 0 2147483648", "1"), ("weight 0", "1"), ("iszero 0", "0"),
        ("last 0", None), ("first 0", None), ("next 0 -1", None), ("nr 0", None),
        ("set 1 4294967000", "0"), ("isset 1 4294967000", "1"), ("isset 1 4294966999", "0"), ("weight 1", "1"),
        ("last 1", None), ("first 1", None), ("isincl 0 1", "0"), ("inter 0 1", "0"), ("isequal 0 1", "0"),
        ("or 2 0 1", "0"), ("weight 2", "2"), ("clr 2 2147483648", "0"), ("isequal 2 1", "1")]),
]


def check_big_indexes(run, t, thorough):
    observed = {}
    for tier, name, steps in BIG_CASES:
        if tier == "thorough" and not thorough:
            continue
        lines = [op for op, _ in steps]
        path = os.path.join(t.tmp, "big-%s.txt" % name)
        with open(path, "w") as f:
            f.write("\n".join(lines) + "\n")
        rc, oc, ec = C.sh([t.exe, path], env=t.env, timeout=900)
        out = oc.decode(errors="replace").split("\n")[:-1]
        body = "kind: input\ncase:\n%s\n\nimpl:\n%s\n\nexpected:\n%s\n\nstderr:\n%s\n" % (
            "\n".join(lines), "\n".join(out), "\n".join("%s -> %s" % s_ for s_ in steps), ec.decode(errors="replace")[-3000:])
        for (op, exp), got in zip(steps, out):
            run.bump("big-index-op")
            m = re.match(r"R=(\S+)", got)
            r = m.group(1) if m else got
            if exp is None:
                observed["%s: %s" % (name, op)] = r
            elif r != exp:
                run.violation("bigidx:%s:%s" % (name, op.replace(" ", "-")),
                              "hwloc_bitmap %s on a bitmap with indexes near INT_MAX returned %s, expected %s" % (op, r, exp), body)
        if rc != 0:
            op = lines[len(out)] if len(out) < len(lines) else "exit"
            first = next((l for l in ec.decode(errors="replace").split("\n") if "runtime error" in l or "ERROR" in l), "rc=%d" % rc)
            run.violation("bigidx:%s:sanitizer:%s" % (name, op.replace(" ", "-")),
                          "C harness died (rc=%d) in %s: %s" % (rc, op, first.strip()), body)
    run.cov["big_index_cases"] = [n for tr, n, _ in BIG_CASES if tr == "quick" or thorough]
    run.cov["big_index_outside_observed"] = observed


def read_case_file(path):
    ls = []
    for l in open(path):
        l = l.strip()
        if l and not l.startswith("#"):
            ls.append(l)
    return ls


def parse_replay(path):
    txt = open(path).read()
    m = re.search(r"^case:\n(.*?)(?:\n\n|\Z)", txt, re.S | re.M)
    if m:
        return [l.strip() for l in m.group(1).split("\n") if l.strip()]
    return read_case_file(path)


def prebuild():
    Tools()


def check(run, replay=None):
    proof = C.prove("C03")
    t = Tools()
    ck = Checker(run, t)
    trusted = [
        "ENOMEM paths are outside: the allocator always succeeds in the harness, the model has no failure branch",
        "theorems cover indexes < 2^31-64 (word count <= 2^25-1, explicit hypotheses IDXMAX / wf); the remaining indexes up to INT_MAX are checked on the C code only by a handful of hand-evaluated cases (256 MB bitmaps, not executable by the model); indexes, weights and results above INT_MAX are outside the property: the int return type cannot represent them (observed values recorded in big_index_outside_observed, only the absence of sanitizer reports is required)",
        "hwloc_ffsl (__builtin_ffsl) and hwloc_weight_long (__builtin_popcountll) are modelled by their specifications (ctz+1 / popcount) and validated against the compiled functions by the leaf sweep (all single bits, all pairs of bits, prefix/suffix masks, random words); hwloc_flsl (= hwloc_flsl_manual in this configuration) is modelled statement by statement and proved equal to N.size (flsl_manual_is_size), and swept too",
        "aliasing (res==op1, res==op2, op1==op2) is covered by differential execution against the functional model, not by a store-level proof",
        "gcc -O1 -fsanitize=address,undefined build of hwloc/bitmap.c included textually in harness/hwv_bitmap.c",
    ]
    run.assumptions += [
        "all indexes and range ends < 2^31-64, range end >= -1, prev_cpu >= -1 (theorem hypotheses; generators stay inside)",
        "hwloc_bitmap_from_ulongs nr >= 1 in the model (nr = 0 is exercised against the spec only)",
    ]

    if replay:
        case = parse_replay(replay)
        rc, oc, ec, om, osp = t.run3(case, "replay")
        print("case:\n  " + "\n  ".join(case))
        print("impl (rc=%d):\n  " % rc + "\n  ".join(oc))
        print("model:\n  " + "\n  ".join(om))
        print("spec:\n  " + "\n  ".join(osp))
        if ec.strip():
            print("stderr:\n" + ec[-2000:])
        ck.check_lines(case)
        run.cov["evaluations"] = ck.ops
        run.cov["traces_validated_against_impl"] = ck.l1_agree
        run.cov["replayed"] = replay
        return run.finish(proof, trusted=trusted)

    rng = run.rng
    thorough = run.tier == "thorough"

    # 1. corpus (minimised regression cases) first
    if os.path.isdir(CORPUS):
        for n in sorted(os.listdir(CORPUS)):
            if n.endswith(".case"):
                case = read_case_file(os.path.join(CORPUS, n))
                bad = ck.check_lines(["reset"] + case)
                run.count("corpus:" + n, kind="corpus-case", sample={"corpus": n, "ops": len(case), "problems": bad})

    # 2. malformed stream (outside the model's domain; C vs spec only, own process each)
    for case in [["set 0 70", "fromuls 0 0", "iszero 0", "first 0", "nr 0", "toul 0"]]:
        ck.check_lines(["reset"] + case, model=False)
        run.bump("malformed-case")

    # 2b. indexes around INT_MAX (C only, hand-written expectations)
    check_big_indexes(run, t, thorough)

    # 3. leaf functions of misc.h
    ws = G.leaf_words(rng, 20000 if thorough else 2000)
    leaf = []
    for w in ws:
        leaf += ["ffsl %x" % w, "flsl %x" % w, "popc %x" % w]
    ck.check_lines(leaf)
    run.bump("leaf-evaluations", len(leaf))

    # 4. enumerated family: every binary op / query on every pair, aliasing forms included
    fam = G.family("large" if thorough else "small")
    run.cov["family_size"] = len(fam)
    chunks = []
    cur = []
    for na, ra in fam:
        cur += ["reset"] + G.self_case(ra)
    if thorough:
        pairs = [(a, b) for a in fam for b in fam]
    else:
        small = fam[:24]
        pairs = [(a, b) for a in small for b in small]
        pairs += [(rng.choice(fam), rng.choice(fam)) for _ in range(150)]
    for (na, ra), (nb, rb) in pairs:
        cur += ["reset"] + G.pair_case(ra, rb)
        if len(cur) > 40000:
            chunks.append(cur)
            cur = []
    run.cov["family_pairs"] = len(pairs)
    rel = G.relation_matrix(3 if thorough else 2)
    run.cov["relation_matrix_cases"] = len(rel)
    for ops in rel:
        cur += ["reset"] + ops
        if len(cur) > 40000:
            chunks.append(cur)
            cur = []
    if cur:
        chunks.append(cur)
        cur = []
    n_family_ops = sum(len(c) for c in chunks)

    # 5. random sequences
    target = 2000000 if thorough else 14000
    drift_before = None
    ops_done = 0
    rchunks = []
    cur = []
    while ops_done < target:
        nops = rng.choice([12, 25, 40, 60])
        ops, kinds, pats = G.gen_case(rng, nops)
        ck.kinds.update(kinds)
        ck.alias.update(p for p in pats if p)
        cur += ["reset"] + ops
        ops_done += len(ops)
        if len(cur) > 40000:
            rchunks.append(cur)
            cur = []
    if cur:
        rchunks.append(cur)

    allchunks = chunks + rchunks
    with concurrent.futures.ThreadPoolExecutor(max_workers=max(2, min(C.NCPU, 16) // 2)) as ex:
        for lines, bad in zip(allchunks, ex.map(ck.check_lines, allchunks)):
            # distinct non-trivial evaluations: one per case (hash of its script)
            k = 0
            starts = [i for i, l in enumerate(lines) if l == "reset"] + [len(lines)]
            for a, b in zip(starts, starts[1:]):
                run.count("\n".join(lines[a:b]), kind=None)

    for k, v in ck.kinds.items():
        run.bump("op:" + k, v)
    run.bump("family-ops", n_family_ops)
    run.cov["evaluations"] = ck.ops
    run.cov["traces_validated_against_impl"] = ck.l1_agree
    run.cov["drift"] = {"L2_only_differences": ck.drift,
                        "note": "count/alloc/raw words differ between model and C while return value and set agree"}
    run.cov["alias_patterns"] = dict(ck.alias)
    run.cov["hypothesis_coverage"] = dict(ck.hyp)
    run.cov["boundaries_enumerated"] = G.BOUNDS
    return run.finish(proof, trusted=trusted)
