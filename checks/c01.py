"""C01: every successfully loaded topology is a well-formed object tree.

Tie/search part: load topologies from every source x filters x flags with the
real library (ASan/UBSan), dump them through public fields/accessors
(harness/hwv_dump.h), run the extracted *verified* checker wf_check on every
dump, and hwloc_topology_check() in a child process."""
import os
import shutil
import re
import random

from hv import common as C
from gen import topo_sources as S

DEPS = ["hwv_dump.h", "hwv_load.h"]
PRELUDE = ["hvnum.ml", "hvdump.ml"]


def prebuild():
    C.build_harness("hwv_topo", ["hwv_topo.c"], deps=DEPS)
    C.extract("C01", "drv_c01.ml", prelude=PRELUDE)
    with S.Scratch(cache=True) as scratch:      # unpack the bundled snapshots once (keyed by tarball hash)
        scratch.unpack_all(S.snapshots("linux") + S.snapshots("x86"))


def flag_choices(rng, kind):
    # flags legal for a non-native source: INCLUDE_DISALLOWED(1), IS_THISSYSTEM(2) (harmless here only for synthetic/xml
    # when no binding is attempted), IMPORT_SUPPORT(8), NO_DISTANCES(128), NO_MEMATTRS(256), NO_CPUKINDS(512)
    pool = [1, 8, 128, 256, 512]
    f = 0
    for b in pool:
        if rng.random() < 0.3:
            f |= b
    return f


def gen_interleaved_tree(rng, RG):
    """Sibling subtrees with INTERLEAVED PU numbering and disallowed PUs: K packages of C cores, PU (p, c) numbered
    c*K+p (or by a random permutation that keeps the siblings ordered), one or two intermediate levels, and an allowed
    cpuset that leaves most packages a single core.  Loaded without INCLUDE_DISALLOWED the emptied cores go away, the
    package keeps its complete cpuset (which still starts at the disallowed PU) and a KEEP_STRUCTURE filter on the
    package level replaces each package by its only child (defect found while proving level_merge_keeps_children_ordered:
    the children of the Machine ended up out of order)."""
    k = rng.choice([2, 2, 3, 4])
    ncore = rng.choice([2, 2, 3])
    upper = rng.choice([["Package"], ["Package"], ["Group"], ["Package", "Die"], ["Package", "L3Cache"], ["Group", "Package"]])
    root = RG.Node("Machine", 0)
    numbering = {}
    for p in range(k):
        for c in range(ncore):
            numbering[(p, c)] = c * k + p
    if rng.random() < 0.3:          # shift whole rows, the first row keeps the packages ordered
        rows = list(range(1, ncore))
        rng.shuffle(rows)
        for p in range(k):
            for j, c in enumerate(rows):
                numbering[(p, c)] = (j + 1) * k + (k - 1 - p if rng.random() < 0.5 else p)
        # make the numbering a permutation again row by row
        for j in range(1, ncore):
            vals = sorted(numbering[(p, rows[j - 1])] for p in range(k))
            if len(set(vals)) != k:
                for p in range(k):
                    numbering[(p, rows[j - 1])] = j * k + p
    cnt = {}
    for p in range(k):
        cur = root
        for t in upper:
            cnt[t] = cnt.get(t, 0) + 1
            n = RG.Node(t, cnt[t] - 1)
            cur.n.append(n)
            cur = n
        for c in sorted(range(ncore), key=lambda c: numbering[(p, c)]):
            co = RG.Node("Core", p * ncore + c)
            co.n.append(RG.Node("PU", numbering[(p, c)]))
            cur.n.append(co)
    nn = RG.Node("NUMANode", 0)
    nn.attrs["local_memory"] = str(1 << 20)
    root.m.append(nn)

    def fill(o):
        o.cs = (1 << o.os) if o.ty == "PU" else 0
        for c in o.n:
            o.cs |= fill(c)
        o.nds = 1
        return o.cs
    fill(root)
    nn.cs, nn.nds = root.cs, 1
    # keep one core per package in most packages; which one is kept varies from package to package
    keep = 0
    for p in range(k):
        if rng.random() < 0.85:
            keep |= 1 << numbering[(p, rng.randrange(ncore))]
        else:
            for c in range(ncore):
                if rng.random() < 0.6:
                    keep |= 1 << numbering[(p, c)]
    if not keep:
        keep = 1 << numbering[(0, ncore - 1)]
    xml = RG.tree_to_xml(root, allowed_cs=keep)
    return xml, upper


def gen_numa_packages(rng, RG):
    """K packages (sometimes below two Groups) with one NUMA node each, some nodes other than node 0 disallowed: loaded
    with RESTRICT_TO_MEMBINDING while this thread's memory is really bound to node 0 (seeded change C01n: the
    restriction by nodeset skipped objects that hold a dropped node only in their complete_nodeset)."""
    k = rng.choice([3, 3, 4, 5])
    root = RG.Node("Machine", 0)
    groups = None
    if rng.random() < 0.4:
        groups = [RG.Node("Group", 0), RG.Node("Group", 1)]
        root.n += groups
    for p in range(k):
        pk = RG.Node("Package", p)
        for j in range(2):
            pk.n.append(RG.Node("PU", 2 * p + j))
        nn = RG.Node("NUMANode", p)
        nn.attrs["local_memory"] = str(1 << 20)
        pk.m.append(nn)
        (groups[0 if p < (k + 1) // 2 else 1] if groups else root).n.append(pk)

    def fill(o):
        o.cs = (1 << o.os) if o.ty == "PU" else 0
        o.nds = 0
        for c in o.n:
            fill(c)
            o.cs |= c.cs
            o.nds |= c.nds
        for c in o.m:
            c.nds = 1 << c.os
            o.nds |= c.nds
        for c in o.m:
            c.cs = o.cs
        return o
    fill(root)

    def packages(o):
        return [o] if o.ty == "Package" else [q for c in o.n for q in packages(c)]
    for pk in packages(root):
        for pu in pk.n:
            pu.nds = pk.nds
    drop = rng.sample(range(1, k), rng.randint(1, k - 2))
    ands = root.nds & ~sum(1 << b for b in drop)
    return RG.tree_to_xml(root, allowed_nds=ands)


def gen_chain_tree(rng, RG):
    """Level-merging stress (seeded change C01c): K columns below Machine, each a chain of single-child levels
    of the same type sequence (a column may skip a level) ending in one or two PUs; memory children are attached
    asymmetrically (first column without, later ones with, or any subset), sometimes to the PUs' parents only.
    Returns the XML text."""
    types = [t for t in RG.NORMAL_ORDER if rng.random() < 0.45] or [rng.choice(RG.NORMAL_ORDER)]
    k = rng.choice([2, 3, 3, 4, 6])
    root = RG.Node("Machine", 0)
    npu = [0]
    numa = [0]
    cnt = {}
    io_bus = [1]
    pattern = rng.choice(["first-without", "last-without", "random", "none", "all", "pu-parents"])
    for col in range(k):
        cur = root
        chain = []
        for t in types:
            if len(types) > 1 and rng.random() < 0.12:
                continue                     # this column skips the level
            cnt[t] = cnt.get(t, 0) + 1
            c = RG.Node(t, cnt[t] - 1)
            cur.n.append(c)
            cur = c
            chain.append(c)
        for _ in range(1 if rng.random() < 0.8 else 2):
            cur.n.append(RG.Node("PU", npu[0]))
            npu[0] += 1
        if not chain:
            continue
        # Misc and I/O children on several levels of the chain, so that a merged-away parent AND its single child both
        # own some (seeded change C01h: prepend_siblings_list miscounts the prepended list, sibling ranks collide)
        if rng.random() < 0.5:
            for c in (chain if rng.random() < 0.6 else rng.sample(chain, max(1, len(chain) // 2))):
                for j in range(rng.choice([0, 1, 1, 2, 3])):
                    mo = RG.Node("Misc")
                    mo.attrs["name"] = "m%d-%s-%d" % (col, c.ty, j)
                    c.x.append(mo)
                if rng.random() < 0.35:
                    for j in range(rng.choice([1, 1, 2])):
                        bus = io_bus[0]
                        io_bus[0] += 1
                        hb = RG.Node("Bridge")
                        hb.attrs.update({"bridge_type": "0-1", "depth": "0", "bridge_pci": "0000:[%02x-%02x]" % (bus, bus)})
                        dev = RG.Node("PCIDev")
                        dev.attrs.update({"pci_busid": "0000:%02x:00.0" % bus, "pci_type": "0200 [8086:10c9] [003c:003f] 01 00"})
                        hb.i.append(dev)
                        c.i.append(hb)
        want = {"first-without": col > 0, "last-without": col < k - 1, "random": rng.random() < 0.5,
                "none": False, "all": True, "pu-parents": rng.random() < 0.6}[pattern]
        if want:
            host = chain[-1] if pattern == "pu-parents" or rng.random() < 0.6 else rng.choice(chain)
            nn = RG.Node("NUMANode", numa[0])
            numa[0] += 1
            nn.attrs["local_memory"] = str(1 << 20)
            if rng.random() < 0.25:
                mc = RG.Node("MemCache")
                mc.attrs.update({"cache_size": "1048576", "depth": "1", "cache_linesize": "64", "cache_associativity": "1", "cache_type": "0"})
                mc.m.append(nn)
                host.m.append(mc)
                # Misc objects below memory objects, the memory-side cache included (seeded change C01j: the special-level
                # walk skipped the Misc children of a MemCache)
                for mo_host in (mc, nn):
                    for j in range(rng.choice([0, 1, 1, 2])):
                        mo = RG.Node("Misc")
                        mo.attrs["name"] = "mm%d-%s-%d" % (col, mo_host.ty, j)
                        if rng.random() < 0.3:
                            mo2 = RG.Node("Misc")
                            mo2.attrs["name"] = "mm%d-%s-%d-below" % (col, mo_host.ty, j)
                            mo.x.append(mo2)
                        mo_host.x.append(mo)
            else:
                host.m.append(nn)
                if rng.random() < 0.2:
                    mo = RG.Node("Misc")
                    mo.attrs["name"] = "mn%d" % col
                    nn.x.append(mo)
    if numa[0] == 0 or rng.random() < 0.3:
        nn = RG.Node("NUMANode", numa[0])
        nn.attrs["local_memory"] = str(1 << 20)
        root.m.append(nn)

    def fill_cs(o):
        if o.ty == "PU":
            o.cs = 1 << o.os
        else:
            o.cs = 0
            for c in o.n:
                o.cs |= fill_cs(c)
        return o.cs
    fill_cs(root)

    def below_nodes(mo):
        return (1 << mo.os) if mo.ty == "NUMANode" else sum(below_nodes(c) for c in mo.m)

    def fill_nds(o, inherited):
        local = sum(below_nodes(c) for c in o.m)
        below = local
        for c in o.n:
            below |= fill_nds(c, inherited | local)
        o.nds = inherited | below

        def fill_mem(mo):
            mo.cs = o.cs
            mo.nds = below_nodes(mo)
            for cc in mo.m:
                fill_mem(cc)
        for c in o.m:
            fill_mem(c)
        return below
    fill_nds(root, 0)
    # disallowed PUs and NUMA nodes (root allowed sets smaller than the root sets): loaded without INCLUDE_DISALLOWED they are
    # stripped from every set, also below memory-side caches (seeded change C01l: remove_unused_sets did not recurse into
    # the memory children of memory objects)
    acs = ands = None
    if rng.random() < 0.35:
        pus_ = [b for b in range(npu[0]) if root.cs >> b & 1]
        nodes_ = [b for b in range(numa[0] + 1) if root.nds >> b & 1]
        if len(pus_) > 1 and rng.random() < 0.7:
            drop = rng.sample(pus_, rng.randint(1, max(1, len(pus_) // 3)))
            acs = root.cs & ~sum(1 << b for b in drop)
        if len(nodes_) > 1 and rng.random() < 0.7:
            drop = rng.sample(nodes_, rng.randint(1, max(1, len(nodes_) // 2)))
            ands = root.nds & ~sum(1 << b for b in drop)
            if not ands:
                ands = None
    xml = RG.tree_to_xml(root, dont_merge_groups=rng.random() < 0.1, allowed_cs=acs, allowed_nds=ands)
    gen_chain_tree.last_has_disallowed_behind_memcache = (acs is not None or ands is not None) and "MemCache" in xml
    return xml, types


def make_cases(run, scratch):
    rng = run.rng
    quick = run.tier == "quick"
    cases = []   # (name, script lines)
    # regression corpus first (minimised inputs of fixed defects)
    cdir = os.path.join(C.VERIF, "corpus", "c01")
    for n in sorted(x for x in os.listdir(cdir) if x.endswith(".case")) if os.path.isdir(cdir) else []:
        lines = []
        for l in open(os.path.join(cdir, n)):
            l = l.rstrip("\n")
            if not l or l.startswith("#"):
                continue
            l = l.replace("{REPO}", C.REPO).replace("{VERIF}", C.VERIF)
            m = re.search(r"\{SNAP:([^}]+)\}", l)
            if m:
                l = l.replace(m.group(0), scratch.unpack(os.path.join(C.REPO, "tests/hwloc", m.group(1))))
            lines.append(l)
        cases.append(("corpus:" + n, lines, "corpus"))
    nsyn = 250 if quick else 8000
    for i in range(nsyn):
        desc = S.gen_synthetic(rng)
        cfg = S.filter_lines(rng) + ["flags %d" % flag_choices(rng, "syn")]
        cases.append(("synthetic:%s|%s" % (desc, ";".join(cfg)), cfg + ["src synthetic " + desc], "synthetic"))
    # deep descriptions: hwloc_connect_levels doubles its level arrays at 16, 32, 64 levels (Group KEEP_ALL keeps
    # the single-child levels; without it the load-time merging removes them again after the levels were built)
    for nlev in ([14, 15, 16, 17, 31, 32, 33, 63, 64, 65] if quick else list(range(10, 70)) + [100, 126]):
        for keep in (True, False):
            parts = ["group:%d" % (2 if j == k2 else 1) for k2 in [rng.randrange(nlev)] for j in range(nlev)]
            if rng.random() < 0.5:
                j = rng.randrange(nlev)
                parts[j] = rng.choice(["pack", "core", "l2", "numa", "die"]) + parts[j][5:]
            desc = " ".join(parts) + " pu:2"
            cfg = (["filter 13 0"] if keep else []) + ["flags 0"]
            cases.append(("synthetic:%s|%s" % (desc, ";".join(cfg)), cfg + ["src synthetic " + desc], "synthetic-deep"))
    # one type on several levels (hwloc_get_type_depth must answer MULTIPLE; seeded change C01g), in loads where no level is
    # merged afterwards (NUMA attached below the root, NUMA as a normal level, Group filtered out) and where one is
    rep_types = ["l2:2 l2:2 pu:2", "pack:2 [numa] l2:2 l2:2 pu:2", "numa:2 l2:2 l2:2 pu:1", "pack:2 [numa] l1:2 l2:1 l1:2 pu:1",
                 "group:2 pack:1 group:2 pu:2", "pack:2 [numa] group:2 core:1 group:2 pu:1", "l3:2 [numa] l3:2 l3:1 pu:2",
                 "pack:2 [numa] l1i:2 l1i:2 pu:1", "numa:2 group:2 group:2 group:2 pu:1"]
    for desc in rep_types:
        for cfg in (["flags 0"], ["filter 13 1", "flags 0"], ["filter 13 0", "flags 0"], ["filter all 0", "flags 0"], ["filter 13 2", "filter 6 2", "filter 5 2", "flags 0"]):
            cases.append(("synthetic:%s|%s" % (desc, ";".join(cfg)), cfg + ["src synthetic " + desc], "synthetic"))
    # richer streams from the other builders' generators: synthetic grammar (typed/untyped, index
    # interleaving, attached memory) and random XML trees (asymmetric, MemCache, Groups, I/O, Misc)
    try:
        from gen import synthetic_gen as SG
        for i in range(120 if quick else 4000):
            desc = SG.gen_valid(rng, maxpus=64) if rng.random() < 0.8 else SG.gen_untyped(rng)
            cfg = S.filter_lines(rng) + ["flags %d" % flag_choices(rng, "syn")]
            cases.append(("synthetic2:%s|%s" % (desc, ";".join(cfg)), cfg + ["src synthetic " + desc], "synthetic2"))
    except Exception as e:      # the generator belongs to another check: its absence must not break this one
        run.cov["synthetic2_generator_unavailable"] = repr(e)
    try:
        from gen import restrict_gen as RG
        for i in range(100 if quick else 3000):
            root, pus, numas = RG.gen_tree(rng)
            xml = RG.tree_to_xml(root, dont_merge_groups=rng.random() < 0.1)
            path = os.path.join(scratch.dir, "gen%d.xml" % i)
            with open(path, "w") as f:
                f.write(xml)
            cfg = (S.filter_lines(rng) if rng.random() < 0.7 else []) + ["flags %d" % flag_choices(rng, "xml")]
            cases.append(("genxml:%d|%s" % (i, ";".join(cfg)), ["env HWLOC_LIBXML_IMPORT %d" % (i % 2)] + cfg + ["src xml " + path], "genxml"))
        tynum = {"Group": 13, "Package": 1, "Die": 2, "L3Cache": 7, "L2Cache": 6, "L1Cache": 5, "Core": 3}
        for i in range(150 if quick else 4000):
            xml, types = gen_chain_tree(rng, RG)
            path = os.path.join(scratch.dir, "chain%d.xml" % i)
            with open(path, "w") as f:
                f.write(xml)
            r = rng.random()
            if gen_chain_tree.last_has_disallowed_behind_memcache and r < 0.7:
                # memory-side caches kept, disallowed resources stripped (no INCLUDE_DISALLOWED)
                cases.append(("chainxml:%d|filter 15 0;filter 19 0;flags 0" % i, ["env HWLOC_LIBXML_IMPORT %d" % (i % 2), "filter 15 0", "filter 19 0", "flags 0", "src xml " + path], "genxml"))
                continue
            if r < 0.3:
                cfg = []
            elif r < 0.75:      # the chain types under KEEP_STRUCTURE (what the level-merging pass looks at) or KEEP_ALL
                cfg = ["filter %d %d" % (tynum[t], rng.choice([2, 2, 0])) for t in types]
            else:
                cfg = S.filter_lines(rng)
            if rng.random() < 0.6:        # keep Misc and I/O objects (filtered out by default), and memory-side caches
                cfg += ["filter 19 0"] + (["filter 16 0", "filter 17 0", "filter 18 0"] if rng.random() < 0.7 else []) + (["filter 15 0"] if rng.random() < 0.7 else [])
            cfg += ["flags %d" % flag_choices(rng, "xml")]
            cases.append(("chainxml:%d|%s" % (i, ";".join(cfg)), ["env HWLOC_LIBXML_IMPORT %d" % (i % 2)] + cfg + ["src xml " + path], "genxml"))
        # memory binding: the thread is really bound to node 0, sources with disallowed nodes (own random stream)
        mrng = random.Random("membind-%s" % run.seed)
        for i in range(12 if quick else 300):
            xml = gen_numa_packages(mrng, RG)
            path = os.path.join(scratch.dir, "numapk%d.xml" % i)
            with open(path, "w") as f:
                f.write(xml)
            fl = 2 | 32 | (16 if mrng.random() < 0.3 else 0) | (1 if mrng.random() < 0.15 else 0)
            cfg = (["filter 13 0"] if mrng.random() < 0.5 else []) + ["membindself 0", "flags %d" % fl]
            cases.append(("numapkxml:%d|%s" % (i, ";".join(cfg)), ["env HWLOC_LIBXML_IMPORT %d" % (i % 2)] + cfg + ["src xml " + path], "restrict-to-binding"))
        # interleaved numbering + disallowed PUs + the upper levels under KEEP_STRUCTURE (own random stream: adding
        # cases here does not shift the other streams)
        irng = random.Random("interleaved-%s" % run.seed)
        for i in range(24 if quick else 600):
            xml, upper = gen_interleaved_tree(irng, RG)
            path = os.path.join(scratch.dir, "inter%d.xml" % i)
            with open(path, "w") as f:
                f.write(xml)
            r = irng.random()
            if r < 0.7:
                cfg = ["filter %d 2" % tynum[t] for t in upper]
            elif r < 0.85:
                cfg = ["filter %d 2" % tynum[t] for t in upper + ["Core"]]
            else:
                cfg = ["filter %d %d" % (tynum[t], irng.choice([2, 0])) for t in upper]
            cfg += ["flags %d" % (0 if irng.random() < 0.8 else flag_choices(irng, "xml"))]
            cases.append(("interxml:%d|%s" % (i, ";".join(cfg)), ["env HWLOC_LIBXML_IMPORT %d" % (i % 2)] + cfg + ["src xml " + path], "genxml"))
        # documents in the 2.x format, whose import TRANSLATES types before the filters apply: a Die written as a
        # Group with subtype "Die" / kind 104 (what hwloc 2.0 exported), loaded with the filter of the translated
        # type and of the written type set to each value in turn (own random stream)
        lrng = random.Random("legacy-%s" % run.seed)
        nleg = 0
        for i in range(200 if quick else 4000):
            if nleg >= (16 if quick else 400):
                break
            root, pus, numas = RG.gen_tree(lrng)
            xml = RG.tree_to_xml(root, dont_merge_groups=lrng.random() < 0.1)
            if 'type="Die"' not in xml or "OSDev" in xml:
                continue
            how = lrng.choice(['subtype="Die" kind="104" subkind="0"', 'subtype="Die" kind="0" subkind="0"', 'kind="104" subkind="0"'])
            xml = xml.replace('<topology version="3.0">', '<topology version="2.0">').replace('type="Die"', 'type="Group" ' + how)
            path = os.path.join(scratch.dir, "legacy%d.xml" % nleg)
            with open(path, "w") as f:
                f.write(xml)
            for cfg in (["filter 2 1"], ["filter 13 1"], ["filter 2 2"], ["filter 2 1", "filter 13 2"], S.filter_lines(lrng)):
                cfg = cfg + ["flags %d" % (0 if lrng.random() < 0.7 else flag_choices(lrng, "xml"))]
                cases.append(("legacyxml:%d|%s" % (nleg, ";".join(cfg)), ["env HWLOC_LIBXML_IMPORT %d" % (nleg % 2)] + cfg + ["src xml " + path], "genxml"))
            nleg += 1
        run.cov["legacy_2x_documents"] = nleg
    except Exception as e:
        run.cov["genxml_generator_unavailable"] = repr(e)
    xmls = S.xml_corpus()
    reps = 1 if quick else 12
    for x in xmls:
        for r in range(reps):
            cfg = (S.filter_lines(rng) if r else []) + ["flags %d" % (flag_choices(rng, "xml") if r else 0)]
            for backend in ("0", "1"):
                if quick and backend == "1" and rng.random() < 0.5:
                    continue
                cases.append(("xml:%s|%s|libxml=%s" % (os.path.basename(x), ";".join(cfg), backend),
                              ["env HWLOC_LIBXML_IMPORT " + backend] + cfg + ["src xml " + x], "xml"))
    lin = S.snapshots("linux")
    x86 = S.snapshots("x86")
    scratch.unpack_all(lin + x86)
    # "no object of a filtered-out type is present": every filterable normal type set to KEEP_NONE, one at a time,
    # on every x86 dump (cheap) and on the sampled Linux snapshots (seeded change C01b: Die objects built under the
    # wrong filter in topology-x86.c)
    per_type = [1, 2, 3, 5, 6, 7, 8, 9, 10, 11, 12, 13]
    # every bundled snapshot once with the default configuration, in every tier
    for tb in lin:
        d = scratch.unpack(tb)
        cases.append(("linux:%s|default" % os.path.basename(tb),
                      ["env HWLOC_COMPONENTS linux,stop", "env HWLOC_THISSYSTEM 0", "env HWLOC_CPUID_PATH", "flags 0", "src fsroot " + d], "linux-default"))
    for tb in x86:
        d = scratch.unpack(tb)
        cases.append(("x86:%s|default" % os.path.basename(tb),
                      ["env HWLOC_COMPONENTS x86,stop", "env HWLOC_THISSYSTEM 0", "env HWLOC_FSROOT", "flags 0", "src cpuid " + d], "x86-default"))
    if quick:
        lin = rng.sample(lin, min(8, len(lin)))
    for tb in x86:
        d = scratch.unpack(tb)
        for ty in per_type:
            cases.append(("x86:%s|filter %d 1" % (os.path.basename(tb), ty),
                          ["env HWLOC_COMPONENTS x86,stop", "env HWLOC_THISSYSTEM 0", "env HWLOC_FSROOT", "filter %d 1" % ty, "src cpuid " + d], "x86-type-none"))
    for tb in lin:
        d = scratch.unpack(tb)
        for ty in (per_type if not quick else rng.sample(per_type, 4)):
            cases.append(("linux:%s|filter %d 1" % (os.path.basename(tb), ty),
                          ["env HWLOC_COMPONENTS linux,stop", "env HWLOC_THISSYSTEM 0", "env HWLOC_CPUID_PATH", "filter %d 1" % ty, "src fsroot " + d], "linux-type-none"))
    # memory objects under filters (seeded change C01e: fixup_sets order with MemCache kept and the Group it hangs from
    # filtered out): sources with memory-side caches / several NUMA nodes per place x (Group, MemCache, Package, L3) filters
    mem_syn = ["pack:2 [numa(memory=1GB memorysidecachesize=256MB)] core:2 pu:2",
               "[numa(memorysidecachesize=64MB)] pack:2 [numa] [numa(memorysidecachesize=16MB)] l3:2 pu:2",
               "group:2 [numa(memorysidecachesize=1GB)] pack:2 [numa] core:1 pu:2",
               "pack:2 l3:2 [numa(memorysidecachesize=8MB)] [numa] pu:1"]
    mem_xml = [x for x in xmls if any(k in os.path.basename(x) for k in ("memorysidecache", "KNL", "memattrs", "hmat", "hbm"))]
    mem_lin = [t for t in S.snapshots("linux") if any(k in os.path.basename(t) for k in ("memorysidecaches", "fakeKNL", "fakeheteromemtiers", "fakememinitiators", "nvidiagpunumanodes", "dax"))]
    combos = [(g, m, pk, l3) for g in (0, 1, 2) for m in (0, 1) for pk in (0, 1) for l3 in (0, 1)]
    for (g, m, pk, l3) in (combos if not quick else [c for c in combos if c[1] == 0 or rng.random() < 0.3]):
        cfg = ["filter 13 %d" % g, "filter 15 %d" % m, "filter 1 %d" % pk, "filter 7 %d" % l3, "flags 0"]
        for desc in mem_syn:
            cases.append(("synthetic:%s|%s" % (desc, ";".join(cfg)), cfg + ["src synthetic " + desc], "memory-filters"))
        for x in mem_xml:
            cases.append(("xml:%s|%s|libxml=0" % (os.path.basename(x), ";".join(cfg)), ["env HWLOC_LIBXML_IMPORT 0"] + cfg + ["src xml " + x], "memory-filters"))
        for tb in (mem_lin if not quick else rng.sample(mem_lin, min(3, len(mem_lin)))):
            d = scratch.unpack(tb)
            cases.append(("linux:%s|%s" % (os.path.basename(tb), ";".join(cfg)),
                          ["env HWLOC_COMPONENTS linux,stop", "env HWLOC_THISSYSTEM 0", "env HWLOC_CPUID_PATH"] + cfg + ["src fsroot " + d], "memory-filters"))
    # (the total-memory tie compares the phase-5 tree with the final one: not applicable here, hwloc_topology_load restricts after phase 5)
    # the load-time restriction to the binding of the process (flags IS_THISSYSTEM|RESTRICT_TO_CPUBINDING [|RESTRICT_TO_MEMBINDING
    # |THISSYSTEM_ALLOWED_RESOURCES]) on foreign sources, with the process really bound to a few CPUs (seeded change C01f:
    # restrict skips objects whose cpuset is empty but whose complete_cpuset is not).  Sources with disallowed/offline PUs first.
    ncpu_here = os.cpu_count() or 1
    bind_choices = ["0", "0,1", "1,3", "0,2,5"] if ncpu_here >= 6 else ["0"]
    rb_xml = [x for x in xmls if any(k in os.path.basename(x) for k in ("cpusets", "offline", "cgroup", "disallowed", "8n2c", "4n2t"))] or xmls[:4]
    rb_syn = ["pack:2 [numa(indexes=1,0)] pu:8", "node:4 core:2 pu:2", "pack:2 core:2 pu:2", "group:2 [numa] pack:2 pu:2"]
    rb_lin = [t for t in S.snapshots("linux") if any(k in os.path.basename(t) for k in ("cpusets", "cgroup", "offline"))]
    for r in range(30 if quick else 400):
        fl = 2 | 16 | (32 if rng.random() < 0.3 else 0) | (4 if rng.random() < 0.4 else 0) | (1 if rng.random() < 0.15 else 0)
        cfg = (S.filter_lines(rng) if rng.random() < 0.3 else []) + ["bindself " + rng.choice(bind_choices), "flags %d" % fl]
        k = rng.random()
        if k < 0.45 and rb_xml:
            x = rng.choice(rb_xml)
            cases.append(("xml:%s|%s|libxml=0" % (os.path.basename(x), ";".join(cfg)), ["env HWLOC_LIBXML_IMPORT 0"] + cfg + ["src xml " + x], "restrict-to-binding"))
        elif k < 0.75 or not rb_lin:
            desc = rng.choice(rb_syn)
            cases.append(("synthetic:%s|%s" % (desc, ";".join(cfg)), cfg + ["src synthetic " + desc], "restrict-to-binding"))
        else:
            tb = rng.choice(rb_lin)
            d = scratch.unpack(tb)
            cases.append(("linux:%s|%s" % (os.path.basename(tb), ";".join(cfg)),
                          ["env HWLOC_COMPONENTS linux,stop", "env HWLOC_THISSYSTEM 1", "env HWLOC_CPUID_PATH"] + cfg + ["src fsroot " + d], "restrict-to-binding"))
    # Fabricated sysfs trees with INCONSISTENT locality information (what a buggy firmware/kernel reports): packages numbered
    # round-robin or in blocks, cores of one or two threads, and NUMA nodes / dies / clusters whose cpu masks cut across the
    # packages, so that insertions by cpuset adopt some siblings and then fail on an intersection - the put-back path of
    # hwloc___insert_object_by_cpuset with NON-adjacent adopted siblings (seeded change C01i), fully traced (the model
    # Topo/Insert.v has the put-back; insert_tie compares the trees before/after every call).
    def fake_sysfs(idx):
        dst = os.path.join(scratch.dir, "fakesys%d" % idx)
        if os.path.isdir(dst):
            return dst
        def put(rel, txt):
            pth = os.path.join(dst, rel)
            os.makedirs(os.path.dirname(pth), exist_ok=True)
            with open(pth, "w") as f:
                f.write(txt)
        targeted = rng.random() < 0.5       # a node made of whole packages that are NOT neighbours plus a part of a later one
        npkg = rng.choice([4, 5, 6]) if targeted else rng.choice([2, 3, 4])
        ncpu = npkg * rng.choice([2, 3]) if targeted else rng.choice([4, 6, 8, 8, 12, 16])
        rr = True if targeted else rng.random() < 0.6
        pkg_of = [(c % npkg) if rr else (c * npkg // ncpu) for c in range(ncpu)]
        smt = rng.random() < 0.4
        os.makedirs(os.path.join(dst, "proc"), exist_ok=True)
        put("sys/devices/system/cpu/online", "0-%d\n" % (ncpu - 1))
        put("sys/devices/system/cpu/possible", "0-%d\n" % (ncpu - 1))
        def mask(cs):
            return "%x\n" % sum(1 << c for c in cs)
        for c in range(ncpu):
            mates = [d for d in range(ncpu) if pkg_of[d] == pkg_of[c]]
            rank = mates.index(c)
            core = rank // 2 if smt else rank
            sib = [d for d in mates if (mates.index(d) // 2 if smt else mates.index(d)) == core]
            base = "sys/devices/system/cpu/cpu%d/topology/" % c
            put(base + "physical_package_id", "%d\n" % pkg_of[c])
            put(base + "core_id", "%d\n" % core)
            put(base + "thread_siblings", mask(sib))
            put(base + "core_siblings", mask(mates))
            if rng.random() < 0.25:      # a die / cluster mask that may cut across
                cut = sorted(rng.sample(range(ncpu), rng.randint(1, ncpu - 1)))
                if c in cut:
                    put(base + rng.choice(["die_cpus", "cluster_cpus"]), mask(cut))
        nn = rng.choice([1, 2, 2, 3])
        left = list(range(ncpu))
        rng.shuffle(left)
        put("sys/devices/system/node/online", "0-%d\n" % (nn - 1))
        if targeted:
            whole = sorted(rng.sample(range(npkg - 1), rng.randint(2, npkg - 2)))
            if whole == list(range(whole[0], whole[0] + len(whole))):      # make sure one untouched package lies between two taken ones
                whole = [p for p in whole if p != whole[1]] + ([whole[-1] + 1] if whole[-1] + 1 < npkg - 1 else [])
                whole = sorted(set(whole))
            later = [p for p in range(npkg) if p > max(whole)] or [npkg - 1]
            part_pkg = rng.choice(later)
            part = [c for c in range(ncpu) if pkg_of[c] == part_pkg][:1]
            n0 = sorted([c for c in range(ncpu) if pkg_of[c] in whole] + part)
            rest = [c for c in range(ncpu) if c not in n0]
            nn = 2 if rest else 1
            put("sys/devices/system/node/online", "0-%d\n" % (nn - 1))
            put("sys/devices/system/node/node0/cpumap", mask(n0))
            put("sys/devices/system/node/node0/meminfo", "Node 0 MemTotal:       1048576 kB\n")
            if rest:
                put("sys/devices/system/node/node1/cpumap", mask(rest if rng.random() < 0.5 else rest[:max(1, len(rest) // 2)]))
                put("sys/devices/system/node/node1/meminfo", "Node 1 MemTotal:       1048576 kB\n")
            return dst
        for n in range(nn):
            take = left if n == nn - 1 else [left.pop() for _ in range(rng.randint(0, max(0, len(left) - (nn - 1 - n))))]
            if n == nn - 1:
                left = []
            if rng.random() < 0.2 and take:
                take = take + rng.sample(range(ncpu), 1)        # overlapping nodes
            put("sys/devices/system/node/node%d/cpumap" % n, mask(sorted(set(take))) if take else "0\n")
            put("sys/devices/system/node/node%d/meminfo" % n, "Node %d MemTotal:       1048576 kB\n" % n)
        return dst
    for idx in range(60 if quick else 1500):
        d = fake_sysfs(idx)
        cfg = rng.choice([["flags 0"], ["filter 13 0", "flags 0"], ["filter 13 1", "flags 0"], ["filter 13 2", "filter 1 2", "flags 0"], ["filter 2 0", "filter 13 0", "flags 0"]])
        cases.append(("linux:fakesys-%d|%s" % (idx, ";".join(cfg)),
                      ["env HWLOC_COMPONENTS linux,stop", "env HWLOC_THISSYSTEM 0", "env HWLOC_CPUID_PATH"] + cfg + ["src fsroot " + d], "linux-mutated"))
    # x86 CPUID dumps restricted to the binding (PUs outside of it are never looked at: /repo 7faf46d, summarize() read the
    # unknown-level ids of such PUs), pristine and with the outermost level of the extended-topology leaves (0xb, 0x1f,
    # 0x80000026) rewritten to a type hwloc does not know (what a newer processor reports)
    def unknown_level_copy(src, name):
        dst = os.path.join(scratch.dir, name)
        if os.path.isdir(dst):
            return dst
        shutil.copytree(src, dst, symlinks=True)
        for fn in os.listdir(dst):
            if not re.fullmatch(r"pu\d+", fn):
                continue
            lines = open(os.path.join(dst, fn)).read().split("\n")
            last = {}
            for i, l in enumerate(lines):
                m = re.match(r"^([0-9a-f]+) (b|1f|80000026) ([0-9a-f]+) ([0-9a-f]+) ([0-9a-f]+) => ([0-9a-f]+) ([0-9a-f]+) ([0-9a-f]+) ([0-9a-f]+)$", l)
                if m and int(m.group(7), 16) & 0xffff and int(m.group(8), 16) & 0xff00:
                    last[m.group(2)] = i
            for leaf, i in last.items():
                f = lines[i].split(" ")
                f[8] = "%x" % ((int(f[8], 16) & ~0xff00) | 0x900)
                lines[i] = " ".join(f)
            open(os.path.join(dst, fn), "w").write("\n".join(lines))
        return dst
    x86_all = S.snapshots("x86")
    rbx = [t for t in x86_all if any(k in os.path.basename(t) for k in ("CPUID.1F", "CPUID.1A", "Zen4", "SapphireRapids", "RaptorLake", "Skylake"))] or x86_all[:3]
    for tb in (rbx if not quick else rbx[:4]):
        src = scratch.unpack(tb)
        base = os.path.basename(tb)[:-8]
        for variant, d in (("", src), ("+unknown-level", unknown_level_copy(src, "x86unk-" + base))):
            for b in (bind_choices if not quick else bind_choices[:2]):
                for fl in (2 | 16, 2):
                    cfg = ["bindself " + b, "flags %d" % fl]
                    cases.append(("x86:%s%s|%s" % (base, variant, ";".join(cfg)),
                                  ["env HWLOC_COMPONENTS x86,stop", "env HWLOC_THISSYSTEM", "env HWLOC_FSROOT"] + cfg + ["src cpuid " + d], "restrict-to-binding"))
    # CPU-less NUMA nodes behind a memory-side cache (/repo 6bc5bae, memory-parent search of Topo/MemAttach.v): copies of the
    # memorysidecaches snapshot in which one or two nodes that have a memory_side_cache directory lose their cpumap bits
    for tb in S.snapshots("linux"):
        if "memorysidecaches" not in os.path.basename(tb):
            continue
        src = scratch.unpack(tb)
        nodes = sorted(n for n in os.listdir(os.path.join(src, "sys/devices/system/node"))
                       if re.fullmatch(r"node\d+", n) and os.path.isdir(os.path.join(src, "sys/devices/system/node", n, "memory_side_cache")))
        variants = [[n] for n in nodes[:4]] + ([nodes[:2]] if len(nodes) >= 2 else [])
        for vi, vs in enumerate(variants if not quick else variants[:3]):
            dst = os.path.join(scratch.dir, "mscache-cpuless-%d" % vi)
            if not os.path.isdir(dst):
                shutil.copytree(src, dst, symlinks=True)
                for n in vs:
                    with open(os.path.join(dst, "sys/devices/system/node", n, "cpumap"), "w") as f:
                        f.write("0\n")
            # HWLOC_USE_NUMA_DISTANCES=1: distances kept but not used to give the CPU-less nodes a locality (they stay CPU-less)
            for cfg in (["env HWLOC_USE_NUMA_DISTANCES 1", "filter 15 0", "flags 0"], ["env HWLOC_USE_NUMA_DISTANCES 0", "filter 15 0", "filter 13 1", "flags 0"],
                        ["env HWLOC_USE_NUMA_DISTANCES", "filter 15 0", "flags 0"], ["env HWLOC_USE_NUMA_DISTANCES 1", "flags 0"]):
                cases.append(("linux:0mscache-cpuless-%s|%s" % ("+".join(vs), ";".join(cfg)),
                              ["env HWLOC_COMPONENTS linux,stop", "env HWLOC_THISSYSTEM 0", "env HWLOC_CPUID_PATH"] + cfg + ["src fsroot " + dst], "linux-mutated"))
    # I/O type filters on the snapshots that have a PCI bus: every (Bridge, PCIDevice) pair of {ALL, NONE, IMPORTANT}
    # with OSDevice/Misc drawn (all 27 triples in the thorough tier).  Seeded change C18b: the Linux PCI discovery
    # tested the PCIDevice filter where it should test the Bridge filter.
    for tb in S.snapshots("linux"):
        if not any(k in os.path.basename(tb) for k in ("pci", "+8ve", "nvidiagpu", "dax+nvme")):
            continue
        d = scratch.unpack(tb)
        for fb in (0, 1, 3):
            for fp in (0, 1, 3):
                for fo in ((rng.choice((0, 1, 3)),) if quick else (0, 1, 3)):
                    cfg = ["filter 16 %d" % fb, "filter 17 %d" % fp, "filter 18 %d" % fo, "filter 19 %d" % rng.choice((0, 1))]
                    cases.append(("linux:%s|%s" % (os.path.basename(tb), ";".join(cfg)),
                                  ["env HWLOC_COMPONENTS linux,stop", "env HWLOC_THISSYSTEM 0", "env HWLOC_CPUID_PATH"] + cfg + ["src fsroot " + d], "linux-io-filters"))
                    # the same with Groups (and sometimes Packages) filtered out: a PCI locality that matches no object then has
                    # no Group to live in (seeded change C18i: the I/O-locality Group inserted although Groups are KEEP_NONE)
                    if fp != 1:
                        cfg2 = cfg + ["filter 13 %d" % rng.choice((1, 1, 0))] + (["filter 1 1"] if rng.random() < 0.3 else [])
                        cases.append(("linux:%s|%s" % (os.path.basename(tb), ";".join(cfg2)),
                                      ["env HWLOC_COMPONENTS linux,stop", "env HWLOC_THISSYSTEM 0", "env HWLOC_CPUID_PATH"] + cfg2 + ["src fsroot " + d], "linux-io-filters"))
    if quick:
        x86 = rng.sample(x86, min(6, len(x86)))
    for tb in lin:
        d = scratch.unpack(tb)
        for r in range(1 if quick else 8):
            cfg = (S.filter_lines(rng) if r else []) + ["flags %d" % (flag_choices(rng, "linux") if r else 0)]
            cases.append(("linux:%s|%s" % (os.path.basename(tb), ";".join(cfg)),
                          ["env HWLOC_COMPONENTS linux,stop", "env HWLOC_THISSYSTEM 0", "env HWLOC_CPUID_PATH"] + cfg + ["src fsroot " + d], "linux"))
    for tb in x86:
        d = scratch.unpack(tb)
        for r in range(1 if quick else 8):
            cfg = (S.filter_lines(rng) if r else []) + ["flags %d" % (flag_choices(rng, "x86") if r else 0)]
            cases.append(("x86:%s|%s" % (os.path.basename(tb), ";".join(cfg)),
                          ["env HWLOC_COMPONENTS x86,stop", "env HWLOC_THISSYSTEM 0", "env HWLOC_FSROOT"] + cfg + ["src cpuid " + d], "x86"))
    cases.append(("native", ["env HWLOC_COMPONENTS", "env HWLOC_FSROOT", "env HWLOC_CPUID_PATH", "env HWLOC_THISSYSTEM", "src native"], "native"))
    # the live machine under every flag subset that is legal for a native load (all ten flag bits) x filters x
    # component selections
    base = ["env HWLOC_FSROOT", "env HWLOC_CPUID_PATH", "env HWLOC_THISSYSTEM"]
    for r in range(40 if quick else 600):
        fl = 0
        for b in (1, 2, 4, 8, 16, 32, 64, 128, 256, 512):
            if rng.random() < 0.3:
                fl |= b
        comp = rng.choice(["env HWLOC_COMPONENTS", "env HWLOC_COMPONENTS linux,stop", "env HWLOC_COMPONENTS x86,stop",
                           "env HWLOC_COMPONENTS -linux", "env HWLOC_COMPONENTS x86,linux,stop", "env HWLOC_COMPONENTS no_os,stop"])
        cfg = (S.filter_lines(rng) if rng.random() < 0.7 else []) + ["flags %d" % fl]
        cases.append(("native|%s|%s" % (comp[4:], ";".join(cfg)), [comp] + base + cfg + ["src native"], "native"))
    return cases


def synthetic_pus(name):
    """Number of PUs of a synthetic description (product of the arities; attributes in parentheses/brackets ignored)."""
    desc = name.split("|", 1)[0].split(":", 1)[1] if ":" in name else name
    desc = re.sub(r"\([^)]*\)|\[[^\]]*\]", " ", desc)
    n = 1
    for tok in desc.split():
        m = re.search(r"(\d+)$", tok)
        if m:
            n *= max(1, int(m.group(1)))
    return n


def trace_inserts(name, kind):
    """Insertion tracing prints the whole raw tree around every insertion (quadratic): small inputs only."""
    if kind in ("synthetic", "synthetic2", "corpus", "synthetic-deep") or (kind == "memory-filters" and name.startswith("synthetic:")):
        return synthetic_pus(name) <= 128
    if kind in ("linux", "x86", "x86-type-none", "linux-type-none", "linux-io-filters", "linux-default", "x86-default", "memory-filters", "linux-mutated"):
        m = re.match(r"\w+:(\d+)", name)
        if not m:          # bundled Linux snapshots without a PU count in their name (fake*, offline-*, memorysidecaches...) are small;
            return name.startswith("linux:")      # x86 dumps are named after the processor: not traced
        return int(m.group(1)) <= 32
    return False


def light_trace(name, kind):
    """Only the objects handed to the core are printed (linear): every synthetic and Linux load that is too large for the full trace."""
    return kind in ("synthetic", "synthetic2", "corpus", "synthetic-deep", "linux", "linux-type-none", "linux-io-filters", "linux-default",
                    "memory-filters", "linux-mutated", "x86", "x86-default", "x86-type-none") or (kind == "restrict-to-binding" and name.startswith("x86:"))


def script_of(indexed):
    out = []
    for i, (name, lines, kind) in indexed:
        out.append("echo CASE %d" % i)
        out.append("new")
        out.append("phases 2" if trace_inserts(name, kind) else "phases 3" if light_trace(name, kind) else "phases 1")
        if not any(l.startswith("bindself ") for l in lines):
            out.append("bindself all")
        if not any(l.startswith("membindself ") for l in lines):
            out.append("membindself default")
        for var in ("HWLOC_USE_NUMA_DISTANCES",):      # several cases share one process: no leftovers from the previous one
            if not any(l.startswith("env " + var) for l in lines):
                out.append("env " + var)
        out += lines
        out += ["load", "dump", "check", "destroy"]
    return "\n".join(out) + "\n"


def run_cases(run, cases, exe, drv):
    """Runs the cases in shards (one process per shard; a crash loses only the shard's tail).
    hwloc caches the XML backend choice (HWLOC_LIBXML_IMPORT) in a static on first use, so
    a shard only holds cases of one backend choice."""
    results = {}   # idx -> dict(load, wf, levels, sets, totals, check, crash)
    shard = 12
    import concurrent.futures as cf

    groups = {}
    for i, c in enumerate(cases):
        key = next((l for l in c[1] if l.startswith("env HWLOC_LIBXML_IMPORT")), "")
        groups.setdefault(key, []).append((i, c))
    shards = []
    for key in sorted(groups):
        g = groups[key]
        shards += [g[lo:lo + shard] for lo in range(0, len(g), shard)]

    def one(part):
        scr = script_of(part)
        env = {k: v for k, v in C.run_env().items() if k != "HWLOC_DEBUG_CHECK"}
        rc, out, err = C.sh([exe], input=scr.encode(), env=env, timeout=900)
        rc2, out2, err2 = C.sh([drv], input=out, timeout=900)
        return part, rc, out2.decode(errors="replace"), err.decode(errors="replace"), rc2, err2.decode(errors="replace")

    with cf.ThreadPoolExecutor(max_workers=C.NCPU) as ex:
        for part, rc, txt, err, rc2, err2 in ex.map(one, shards):
            cur = None
            seen = []
            for line in txt.split("\n"):
                m = re.match(r"echo CASE (\d+)$", line)
                if m:
                    cur = int(m.group(1))
                    seen.append(cur)
                    results[cur] = {"load": None, "wf": None, "check": None, "lines": []}
                elif cur is not None:
                    r = results[cur]
                    r["lines"].append(line)
                    for tag in ("load", "wf", "levels", "sets", "totals", "removal", "merge", "mergehyp", "inserts", "meminserts", "synthreq", "linuxcpu", "x86req", "check"):
                        if line.startswith(tag + " "):
                            r[tag] = line
            if rc != 0 or rc2 != 0:
                # the case being executed when the process died
                last = seen[-1] if seen else part[0][0]
                results.setdefault(last, {"load": None, "wf": None, "check": None, "lines": []})
                results[last]["crash"] = "harness rc=%d driver rc=%d\n%s\n%s" % (rc, rc2, err[-3000:], err2[-1500:])
    return results


def _with_files(script, lines):
    """Replays stay usable after the scratch directory is gone: the generated XML documents a case reads are appended."""
    out = script
    for l in lines:
        if l.startswith("src xml ") and "/hwv-snap-" in l:
            pth = l[8:]
            try:
                txt = open(pth).read()
                if len(txt) < 60000:
                    out += "\n--- file %s\n%s" % (pth, txt)
            except OSError:
                pass
    return out


def judge(run, cases, results):
    for i, (name, lines, kind) in enumerate(cases):
        r = results.get(i)
        script = _with_files("\n".join(["new"] + lines + ["load", "dump", "check", "destroy"]), lines)
        if r is None:
            run.violation("not-run:" + kind, "case did not run (earlier crash in the same shard)", script, no_input=True)
            continue
        tr = "\n".join(r["lines"])
        ok_load = r["load"] is not None and "rc=0" in r["load"]
        run.count(name + "|" + str(r["wf"]), nontrivial=ok_load, sample={"case": name, "load": r["load"], "wf": r["wf"], "check": r["check"]}, kind=kind + (":loaded" if ok_load else ":rejected"))
        if "crash" in r:
            run.violation("crash:%s" % name, "crash / sanitizer report while loading %s" % name, script + "\n--- output\n" + r["crash"])
            continue
        if ok_load:
            if r.get("mergehyp") is not None:
                # hypotheses of level_merge_pass_keeps_children_ordered (distinct ids, ordered children) on the tree
                # observed right before the load-time KEEP_STRUCTURE pass
                ck = "merge_passes_inside_order_theorem" if r["mergehyp"].strip() == "mergehyp 1" else "merge_passes_outside_order_theorem"
                run.cov[ck] = run.cov.get(ck, 0) + 1
            if r["wf"] is None or not r["wf"].startswith("wf ok"):
                clauses = sorted(set(re.findall(r"([a-z-]+)@", r["wf"] or "")))
                run.violation("wf:%s:%s" % (kind, ",".join(clauses)), "loaded topology violates WF clause(s) %s: %s" % (clauses, name),
                              script + "\n--- verdict\n" + (r["wf"] or "no verdict") )
            if r.get("levels") == "levels ok after-merge":
                # the load-time KEEP_STRUCTURE pass left level arrays that a fresh hwloc_connect_levels would not build
                # (Topo/InsertTie.v levels_agree_after_merge: the arrays built before the pass minus the removed objects)
                run.cov["loads_with_levels_kept_from_before_the_merge"] = run.cov.get("loads_with_levels_kept_from_before_the_merge", 0) + 1
            if r.get("levels") not in ("levels ok", "levels ok after-merge"):
                # the model of hwloc_connect_levels disagrees with the implementation: if wf_check is also unhappy
                # this is a violation with a concrete input (above); otherwise the correspondence is broken
                run.violation("correspondence:levels:%s" % kind, "model of hwloc_connect_levels/special lists disagrees with the implementation on %s" % name,
                              script + "\n--- verdict\n" + str(r.get("levels"))[:3000], no_input=(r["wf"] or "").startswith("wf ok"))
            elif r.get("inserts") is not None and not r["inserts"].startswith("inserts ok"):
                run.violation("correspondence:insert-by-cpuset:%s" % kind,
                              "model of hwloc___insert_object_by_cpuset (Topo/Insert.v) disagrees with the implementation on %s" % name,
                              script + "\n--- verdict\n" + r["inserts"][:2000], no_input=(r["wf"] or "").startswith("wf ok"))
            elif r.get("meminserts") is not None and not r["meminserts"].startswith("meminserts ok"):
                run.violation("correspondence:memory-insert:%s" % kind,
                              "model of hwloc__find_insert_memory_parent / hwloc___attach_memory_object_by_nodeset (Topo/MemAttach.v) disagrees with the implementation on %s" % name,
                              script + "\n--- verdict\n" + r["meminserts"][:2000], no_input=(r["wf"] or "").startswith("wf ok"))
            elif r.get("synthreq") is not None and not r["synthreq"].startswith("synthreq ok"):
                run.violation("correspondence:synthetic-requests:%s" % kind,
                              "model of the synthetic backend (parser Text/Synthetic.v + request generation Topo/SynthBuild.v) disagrees with the objects the backend hands to the core on %s" % name,
                              script + "\n--- verdict\n" + r["synthreq"][:2000], no_input=(r["wf"] or "").startswith("wf ok"))
            elif r.get("x86req") is not None and not (r["x86req"].startswith("x86req ok") or r["x86req"].startswith("x86req skipped")):
                run.violation("correspondence:x86-requests:%s" % kind,
                              "model of the x86 backend's summarize() (Topo/X86.v) disagrees with the objects the backend hands to the core on %s" % name,
                              script + "\n--- verdict\n" + r["x86req"][:2000], no_input=(r["wf"] or "").startswith("wf ok"))
            elif r.get("linuxcpu") is not None and not r["linuxcpu"].startswith("linuxcpu ok"):
                run.violation("correspondence:linux-cpu-requests:%s" % kind,
                              "model of look_sysfscpu (Topo/LinuxCpu.v, composed with the sysfs parser models) disagrees with the objects the Linux backend hands to the core on %s" % name,
                              script + "\n--- verdict\n" + r["linuxcpu"][:2000], no_input=(r["wf"] or "").startswith("wf ok"))
            elif r.get("sets") != "sets ok" or (r.get("totals") != "totals ok" and kind != "restrict-to-binding") or r.get("removal") != "removal ok" or r.get("merge") != "merge ok":
                run.violation("correspondence:sets-pipeline:%s" % kind,
                              "model of the set post-processing (root fix-up, propagate_nodeset, fixup_sets, remove_unused_sets, filter_bridges, remove_empty, KEEP_STRUCTURE merging, propagate_total_memory) disagrees with the implementation on %s" % name,
                              script + "\n--- verdict\n%s\n%s\n%s" % (r.get("sets"), r.get("totals"), str(r.get("removal")) + " " + str(r.get("merge"))), no_input=(r["wf"] or "").startswith("wf ok"))
            elif (r["wf"] or "").startswith("wf ok"):
                run.cov["traces_validated_against_impl"] += 1
                m = re.match(r"inserts ok n=(\d+)", r.get("inserts") or "")
                if m:
                    run.cov["insertions_replayed_in_model"] = run.cov.get("insertions_replayed_in_model", 0) + int(m.group(1))
                    # hypotheses of discovery_insertions_keep_order (Topo/DiscInsertProofs.v) evaluated on every traced call:
                    # inthm = inside the theorem (and its conclusion was checked on the C tree after the call), putback = the put-back
                    # outcome, inside failed_insertion_leaves_the_tree_unchanged (conclusion checked: the C tree did not change), noord = the tree before the call is not ordered, nohyp = OBJ without a usable
                    # cpuset / the known sibling defect would be met
                    m2 = re.search(r"inthm=(\d+) putback=(\d+) noord=(\d+) nohyp=(\d+)", r["inserts"])
                    if m2:
                        for key, v in zip(("insertions_inside_order_theorem", "putback_insertions_inside_identity_theorem", "insertions_outside_tree_not_ordered", "insertions_outside_hypotheses"), m2.groups()):
                            run.cov[key] = run.cov.get(key, 0) + int(v)
                        # hypotheses of discovery_children_cover_cpusets on the whole load: every traced call inside the order
                        # theorem and every cpu of every requested cpuset requested alone
                        ck = "loads_inside_cover_theorem" if " cover=1" in r["inserts"] else "loads_outside_cover_theorem"
                        run.cov[ck] = run.cov.get(ck, 0) + 1
                        if int(m2.group(3)) + int(m2.group(4)) > 0 and len(run.cov.setdefault("inputs_with_insertions_outside_order_theorem", [])) < 40:
                            run.cov["inputs_with_insertions_outside_order_theorem"].append(name[:160])
                m = re.match(r"synthreq ok n=(\d+)", r.get("synthreq") or "")
                if m:
                    run.cov["synthetic_requests_compared_with_model"] = run.cov.get("synthetic_requests_compared_with_model", 0) + int(m.group(1))
                    # do the hypotheses of synthetic_requests_are_laminar (shape of the level array, distinct PU indexes) hold
                    # on this description?  (non-vacuity at scale; a description accepted by hwloc for which they do not
                    # hold is listed, it is outside the theorem, not a violation)
                    hk = "synthetic_theorem_hypotheses_" + ("hold" if " hyp=1" in r["synthreq"] else "fail")
                    run.cov[hk] = run.cov.get(hk, 0) + 1
                    if " hyp=1" not in r["synthreq"]:
                        run.cov.setdefault("synthetic_descriptions_outside_theorem", []).append(name[:200])
                m = re.match(r"x86req ok n=(\d+)", r.get("x86req") or "")
                if m:
                    run.cov["x86_requests_compared_with_model"] = run.cov.get("x86_requests_compared_with_model", 0) + int(m.group(1))
                    run.cov["x86_loads_compared_with_model"] = run.cov.get("x86_loads_compared_with_model", 0) + 1
                m = re.match(r"linuxcpu ok n=(\d+)", r.get("linuxcpu") or "")
                if m:
                    run.cov["linux_cpu_requests_compared_with_model"] = run.cov.get("linux_cpu_requests_compared_with_model", 0) + int(m.group(1))
                m = re.match(r"meminserts ok n=(\d+)", r.get("meminserts") or "")
                if m:
                    run.cov["memory_insertions_replayed_in_model"] = run.cov.get("memory_insertions_replayed_in_model", 0) + int(m.group(1))
            if r["check"] != "check ok":
                run.violation("topology_check-abort:%s" % kind, "hwloc_topology_check() aborts on %s" % name, script)


def check(run, replay=None):
    import time as _t
    t0 = _t.time()
    proof = C.prove("C01")
    exe = C.build_harness("hwv_topo", ["hwv_topo.c"], deps=DEPS)
    drv = C.extract("C01", "drv_c01.ml", prelude=PRELUDE)
    run.cov["seconds_prove_build_extract"] = round(_t.time() - t0, 1)
    with S.Scratch(cache=True) as scratch:
        if replay:
            txt = open(replay).read().split("---\n", 1)[1].split("\n--- ")[0]
            lines = [l for l in txt.split("\n") if l and l not in ("new", "load", "dump", "check", "destroy")]
            cases = [("replay", lines, "replay")]
        else:
            t1 = _t.time()
            cases = make_cases(run, scratch)
            run.cov["seconds_generate_cases"] = round(_t.time() - t1, 1)
        t2 = _t.time()
        results = run_cases(run, cases, exe, drv)
        run.cov["seconds_run_cases"] = round(_t.time() - t2, 1)
        judge(run, cases, results)
    run.cov["rule"] = "one case = (source, type filters, flags); non-trivial = load succeeded; distinct = distinct (case, verdict)"
    run.assumptions += ["Linux/x86/PCI backends are not modelled: for them C01 is decided by the verified checker wf_check run on the dump of every loaded topology (spec evaluation), not by a theorem about the backend"]
    return run.finish(proof, trusted=["harness/hwv_dump.h (dump through public fields/accessors), ocaml/hvdump.ml (dump parser)"])
