"""C09: traversal and locality helpers agree with their set-theoretic definitions.

proof obligations (Props/Properties_C09.v) + correspondence of the extracted
models (Topo/Helpers.v, Topo/Distrib.v) with the real helpers on generated
topologies and queries + the brute-force definitions (right-hand sides of the
theorems, extracted checkers) evaluated on every answer of the C code."""
import concurrent.futures as cf
import glob
import os
import random
import re

from hv import common as C
from gen import helpers_gen as G

DEPS = ["hwv_dump.h", "hwv_load.h"]
PRELUDE = ["hvnum.ml", "hvdump.ml"]


def build():
    exe = C.build_harness("hwv_helpers", ["hwv_helpers.c"], deps=DEPS)
    drv = C.extract("C09", "drv_c09.ml", prelude=PRELUDE)
    return exe, drv


def prebuild():
    build()


def harness_env():
    return {k: v for k, v in C.run_env().items() if k != "HWLOC_DEBUG_CHECK"}


def first_pass(exe, topos):
    """dump every topology once; returns {index: Topo or None}"""
    res = {}
    shard = 16

    def one(lo):
        scr = []
        for i in range(lo, min(lo + shard, len(topos))):
            scr += ["echo CASE %d" % i, "new"] + topos[i][2] + ["dump", "destroy"]
        rc, out, err = C.sh([exe], input=("\n".join(scr) + "\n").encode(), env=harness_env(), timeout=600)
        return lo, rc, out.decode(errors="replace"), err.decode(errors="replace")

    with cf.ThreadPoolExecutor(max_workers=C.NCPU) as ex:
        for lo, rc, txt, err in ex.map(one, range(0, len(topos), shard)):
            cur, blk = None, None
            for line in txt.split("\n"):
                m = re.match(r"echo CASE (\d+)$", line)
                if m:
                    cur = int(m.group(1))
                    res[cur] = None
                elif line.startswith("T ") and cur is not None:
                    blk = [line]
                elif blk is not None:
                    if line == "E":
                        res[cur] = G.Topo(blk)
                        blk = None
                    else:
                        blk.append(line)
            if rc != 0:
                res.setdefault("crash", []).append((lo, rc, err[-3000:]))
    return res


def run_scripts(exe, drv, cases):
    """cases: list of (name, kind, setup lines, queries).  Returns {index: dict}"""
    results = {}
    # shards balanced by number of queries
    shards, cur, load = [], [], 0
    for i, c in enumerate(cases):
        cur.append(i)
        load += len(c[3]) + 20
        if load > 2500:
            shards.append(cur)
            cur, load = [], 0
    if cur:
        shards.append(cur)

    def one(idxs):
        scr = []
        for i in idxs:
            name, kind, setup, qs = cases[i]
            scr += ["echo CASE %d" % i, "new"] + setup + ["dump"] + ["q " + x for x in qs] + ["destroy"]
        rc, out, err = C.sh([exe], input=("\n".join(scr) + "\n").encode(), env=harness_env(), timeout=900)
        rc2, out2, err2 = C.sh([drv], input=out, timeout=900)
        return idxs, rc, err.decode(errors="replace"), rc2, out2.decode(errors="replace"), err2.decode(errors="replace")

    with cf.ThreadPoolExecutor(max_workers=C.NCPU) as ex:
        for idxs, rc, err, rc2, txt, err2 in ex.map(one, shards):
            cur = None
            for line in txt.split("\n"):
                m = re.match(r"echo CASE (\d+)$", line)
                if m:
                    cur = int(m.group(1))
                    results[cur] = {"lines": [], "steps": [], "done": False}
                elif cur is not None:
                    r = results[cur]
                    r["lines"].append(line)
                    if line.startswith("Q "):
                        r["steps"].append({"q": line[2:], "r": None, "m": None, "s": None})
                    elif line[:2] in ("R ", "M ", "S ") and r["steps"]:
                        r["steps"][-1][line[0].lower()] = line[2:]
                    elif line == "destroy":
                        r["done"] = True
            if rc != 0 or rc2 != 0:
                last = max([i for i in idxs if i in results], default=idxs[0])
                results.setdefault(last, {"lines": [], "steps": [], "done": False})
                results[last]["crash"] = "harness rc=%d driver rc=%d\n%s\n%s" % (rc, rc2, err[-3000:], err2[-1500:])
    return results


def script_text(setup, queries):
    return "\n".join(["new"] + setup + ["dump"] + ["q " + x for x in queries] + ["destroy"])


def judge(run, cases, results):
    for i, (name, kind, setup, qs) in enumerate(cases):
        r = results.get(i)
        if r is None:
            run.violation("not-run:" + kind, "case did not run (earlier crash in the same shard): " + name, script_text(setup, qs[:3]), no_input=True)
            continue
        loaded = any(l.startswith("load rc=0") for l in r["lines"])
        tree_ok = any(l.startswith("dump ") and "tree=ok" in l for l in r["lines"])
        if "crash" in r:
            lastq = [s["q"] for s in r["steps"][-1:]]
            run.violation("crash:%s:%s" % (kind, (lastq[0].split(" ")[0] if lastq else "load")),
                          "crash / sanitizer report in the harness on %s (last query: %s)" % (name, lastq),
                          script_text(setup, lastq) + "\n--- output\n" + r["crash"])
        if not loaded:
            run.count(name, nontrivial=False, kind=kind + ":rejected")
            continue
        for l in r["lines"]:
            if l.startswith("dump ") and "tree_wf=" in l:
                for kv in l.split()[3:]:
                    k, v = kv.split("=")
                    run.bump("hypothesis:%s=%s" % (k, v))
                if "tree_wf=0" in l or "level_ok=0" in l:
                    run.cov.setdefault("dumps_outside_hypotheses", []).append(name[:120])
        if not tree_ok:
            run.violation("tree-of-dump:" + kind, "the dump of %s does not rebuild into a tree (C01 territory)" % name, script_text(setup, []), no_input=True)
            continue
        for s in r["steps"]:
            qk = s["q"].split(" ")[0]
            if s["r"] in ("bad", "notopo", "unknown") or s["r"] is None:
                run.bump("skipped-query")
                continue
            nontriv = s["r"] not in ("-", "0 -", "-1 -")
            run.count(name + "|" + s["q"] + "|" + s["r"], nontrivial=nontriv,
                      sample={"topology": name, "query": s["q"], "C": s["r"][:200], "model": (s["m"] or "")[:200], "spec": s["s"]},
                      kind=kind + ":" + qk)
            spec_ok = (s["s"] or "").startswith("ok")
            if (s["s"] or "").endswith("disjoint-claimed"):
                run.bump("hypothesis:distrib_disjoint-applies")
            replay = script_text(setup, [s["q"]]) + "\n--- implementation\nR %s\n--- model\nM %s\n--- spec\nS %s" % (s["r"], s["m"], s["s"])
            if not spec_ok:
                clause = (s["s"] or "FAIL no-verdict").split(" ", 1)[-1].strip()
                key = "%s:%s:%s" % (clause, qk, kind)
                run.violation(key, "%s fails on the answer of the C code: topology %s, query '%s', C answer '%s'" % (clause, name, s["q"], s["r"][:300]), replay)
            elif s["m"] != s["r"]:
                if s["m"] in ("skip", "unknown"):
                    run.bump("model-skipped")
                else:
                    run.violation("correspondence:" + qk, "model and implementation differ on '%s' (%s) while the definition holds on the C answer: C '%s' model '%s'" % (
                        s["q"], name, s["r"][:200], (s["m"] or "")[:200]), replay, no_input=True)
            else:
                run.cov["traces_validated_against_impl"] += 1


def corpus_cases():
    res = []
    for p in sorted(glob.glob(os.path.join(C.VERIF, "corpus", "c09", "*.case"))):
        lines = [l.rstrip("\n") for l in open(p) if l.strip() and not l.startswith("#")]
        setup = [l for l in lines if not l.startswith("q ") and l not in ("new", "dump", "destroy")]
        qs = [l[2:] for l in lines if l.startswith("q ")]
        res.append(("corpus:" + os.path.basename(p), "corpus", setup, qs))
    return res


def check(run, replay=None):
    proof = C.prove("C09")
    exe, drv = build()
    if replay:
        txt = open(replay).read().split("---\n", 1)[1].split("\n--- ")[0]
        lines = [l for l in txt.split("\n") if l]
        setup = [l for l in lines if not l.startswith("q ") and l not in ("new", "dump", "destroy")]
        cases = [("replay", "replay", setup, [l[2:] for l in lines if l.startswith("q ")])]
    else:
        cases = corpus_cases()
        topos = G.gen_topologies(run.rng, run.tier)
        dumps = first_pass(exe, topos)
        for lo, rc, err in dumps.get("crash", []):
            run.violation("crash:load", "crash / sanitizer report while loading or dumping a topology (shard %d)" % lo, err, no_input=True)
        for i, (name, kind, setup) in enumerate(topos):
            t = dumps.get(i)
            if t is None or not t.objs:
                run.count(name, nontrivial=False, kind=kind + ":rejected")
                continue
            nobj = len(t.objs)
            if run.tier == "quick":
                budget = 900 if nobj <= 40 else (220 if nobj <= 200 else 90)
            else:
                budget = 3000 if nobj <= 40 else (800 if nobj <= 200 else 250)
            cases.append((name, kind, setup, G.gen_queries(random.Random("C09/%d/%s" % (run.seed, name)), t, run.tier, budget)))
    results = run_scripts(exe, drv, cases)
    judge(run, cases, results)
    run.cov["rule"] = ("one evaluation = one helper call on one topology; distinct = distinct (topology, query, C answer); "
                       "non-trivial = the answer is not NULL / empty / -1")
    run.assumptions += [
        "cousin iterators are modelled over the level as a list (next_cousin = successor): the pointer/level consistency is C01's statement and wf_check's job",
        "hwloc_distrib: C unsigned arithmetic modelled modulo 2^32; theorems under the no-wrap domain hypothesis (tot_weight+1)*(n+1) <= 2^32; overflow is not exercised on the C side",
        "subtype/nameprefix arguments of hwloc_get_obj_with_same_locality are NULL in every query",
    ]
    return run.finish(proof, trusted=["harness/hwv_helpers.c, harness/hwv_dump.h (answers and dump printed through public fields, sets as raw words)",
                                      "ocaml/drv_c09.ml + ocaml/hvdump.ml (parsing of the dump and of the answers)"])
