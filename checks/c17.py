"""C17 - documented thread-safety: concurrent readers and independent topologies.

proof    Props/Properties_C17.v (event model Conc/Events.v).
tie      harness/hwv_mt.c runs every case on the real library twice (ASan+UBSan build, ThreadSanitizer
         build); the flag trajectory (OBJS_VALID / CACHE_VALID of every structure after every call),
         "did this consulting call change a cache" and the result codes are compared with the
         extracted model; the model's predicted conflict locations of every concurrent section are
         compared with what ThreadSanitizer reports; the library's writable statics (nm) are compared
         with the statics the model knows.
spec     on the C outputs: load / refresh end with every flag set; a consulting call on an all-valid
         topology changes no cache; every thread's digest equals the digest of a sequential run.
ThreadSanitizer observes the schedules that happened and the hardware they ran on: supporting
evidence, not proof (the proof is over the model's interleavings)."""
import os
import re
import subprocess
import sys

from hv import common as C

sys.path.insert(0, os.path.join(C.VERIF, "gen"))
import mt_gen as G  # noqa: E402

STATIC_FUNCS = ["hwloc_nolibxml_export", "hwloc_nolibxml_import", "hwloc_libxml2_init_once", "hwloc__xml_verbose", "hwloc_hide_errors",
                "hwloc__export_synthetic_memory_children"]
BIND_FLAGS = (1 << 4) | (1 << 5)

# every writable static object of the library (object file, symbol without the compiler's numeric
# suffix) and what the model says about it
STATIC_CENSUS = {
    ("topology.o", "checked"): "model SHideErrors (first use)", ("topology.o", "hide"): "model SHideErrors value",
    ("topology.o", "reported"): "written only when an insert error is shown (HWLOC_HIDE_ERRORS<2); modifying path",
    ("topology-xml.o", "checked"): "model SXmlVerbose/SNolibxmlImport/SNolibxmlExport (first use)",
    ("topology-xml.o", "nolibxml"): "model SNolibxml* value", ("topology-xml.o", "verbose"): "model SXmlVerbose value",
    ("topology-xml.o", "reported"): "XML import error path only",
    ("topology-xml.o", "hwloc_libxml_callbacks"): "model LRegistry", ("topology-xml.o", "hwloc_nolibxml_callbacks"): "model LRegistry",
    ("topology-xml-libxml.o", "checked"): "model SLibxmlInit", ("topology-xml-libxml.o", "hwloc_libxml2_needs_cleanup"): "model SLibxmlInit value",
    ("components.o", "hwloc_components_users"): "model LRefcount", ("components.o", "hwloc_components_mutex"): "the mutex",
    ("components.o", "hwloc_components_verbose"): "model LRegistry", ("components.o", "hwloc_disc_components"): "model LRegistry",
    ("components.o", "hwloc_component_finalize_cbs"): "model LRegistry", ("components.o", "hwloc_component_finalize_cb_count"): "model LRegistry",
    ("components.o", "hwloc_static_components"): "constant table",
    ("pci-common.o", "reported"): "PCI discovery error path only", ("topology-pci.o", "hwloc_pciaccess_mutex"): "a mutex",
    ("topology-synthetic.o", "warned"): "model SSynthWarned (first use under HWLOC_SYNTHETIC_VERBOSE)",
    ("traversal.o", "names"): "constant table",
}
CENSUS_OUT_OF_SCOPE_OBJS = {"topology-linux.o", "topology-x86.o"}   # native discovery backends: load of the running machine, not modelled


INFRA_RC = (124, -9, 137, -15)      # timeout, killed (OOM killer), terminated
PER_CLASS_CAP = 5
_vcount = {}


def V(run, key, what, replay_text, no_input=False):
    """run.violation with a cap per key class (text before the first ':'): the first PER_CLASS_CAP distinct
    keys of a class are reported, the rest only counted (coverage key violations_per_class)."""
    cls = key.split(":")[0]
    seen = _vcount.setdefault(cls, set())
    if key in seen:
        return
    seen.add(key)
    if len(seen) <= PER_CLASS_CAP:
        run.violation(key, what, replay_text, no_input=no_input)


def hrun(ctx, cmd, inp, env=None, timeout=60):
    """Run a harness / driver.  A timeout or a kill is never evidence about hwloc on a loaded machine: retry
    twice with ten times the limit.  -> (rc, out, err, hung); rc None = skipped as infrastructure (the process was
    killed again); hung = it timed out twice more with the long limit (a hang that reproduces)."""
    long_limit = timeout * 10
    timeout *= float(os.environ.get("HWV_C17_TSCALE", "1"))     # self-test of the retry path only
    rc, out, err = C.sh(cmd, input=inp, env=env, timeout=timeout)
    timeout = long_limit / 10
    n = 0
    while rc in INFRA_RC and n < 2:
        n += 1
        ctx.infra["retried_after_timeout_or_kill"] += 1
        try:     # keep the input of what was retried, for a post-mortem
            dd = os.path.join(C.BUILD, "c17-retried")
            os.makedirs(dd, exist_ok=True)
            with open(os.path.join(dd, "%d-%d.case" % (os.getpid(), ctx.infra["retried_after_timeout_or_kill"])), "wb") as f:
                f.write(("# cmd: %s rc=%s limit=%s\n" % (os.path.basename(cmd[0]), rc, timeout)).encode() + inp)
        except OSError:
            pass
        rc, out, err = C.sh(cmd, input=inp, env=env, timeout=timeout * 10)
    if rc in INFRA_RC:
        if rc == 124:
            return rc, out, err, True
        ctx.infra["skipped_killed"] += 1
        return None, out, err, False
    return rc, out, err, False


def static_census(run):
    lib = C.build_lib("tsan")
    rc, out, err = C.sh(["nm", lib], timeout=60)
    obj, seen, unknown = None, set(), []
    for line in out.decode().split("\n"):
        m = re.match(r"(\S+\.o):$", line)
        if m:
            obj = m.group(1)
            continue
        m = re.match(r"[0-9a-f]+ ([bBdDcC]) (\S+)$", line)
        if not m or obj is None:
            continue
        name = re.sub(r"\.\d+$", "", m.group(2))
        if name.startswith("hwloc_verif_"):     # HWLOC_VERIF hook pointers (DESIGN section 7), NULL by default, set before any thread starts
            continue
        if name.startswith("__gcov") or name.startswith(".LPBX") or name.startswith("__sancov"):   # coverage-survey builds (HWV_COV=1)
            continue
        if name.startswith("__tsan") or name.startswith(".LC") or name.startswith("_ZL") or name.endswith("_component") or name.endswith("_callbacks") and obj != "topology-xml.o":
            continue
        if obj in CENSUS_OUT_OF_SCOPE_OBJS:
            continue
        seen.add((obj, name))
        if (obj, name) not in STATIC_CENSUS:
            unknown.append("%s:%s" % (obj, name))
    run.cov["static_census"] = {"writable_statics_seen": len(seen), "unclassified": unknown,
                                "out_of_scope_objects": sorted(CENSUS_OUT_OF_SCOPE_OBJS)}
    if unknown:
        V(run, "static-census:" + unknown[0] + ("+%d-more" % (len(unknown) - 1) if len(unknown) > 1 else ""),
          "the library has writable static object(s) the thread-safety model does not know: %s "
          "(a new process-wide cache must be added to Conc/Events.v static_id or classified in checks/c17.py)" % ", ".join(unknown[:20]),
          "kind: correspondence\nunclassified statics:\n%s\n" % "\n".join(unknown), no_input=True)


def backend_write_sites(run):
    """Translator-style tie for the process-wide XML backend pointers: every statement of the current
    topology-xml.c that assigns hwloc_libxml_callbacks / hwloc_nolibxml_callbacks outside the (mutex-protected)
    register/reset functions must be the ENOSYS fallback the model knows (Conc/Events.v c_enosys)."""
    src = open(os.path.join(C.REPO, "hwloc/topology-xml.c")).read().split("\n")
    sites, bad = [], []
    func = None
    for i, l in enumerate(src):
        m = re.match(r"^(hwloc_[A-Za-z0-9_]+)\s*\(", l)
        if m:
            func = m.group(1)
        if re.search(r"\bhwloc_(no)?libxml_callbacks\s*=[^=]", l) and not l.lstrip().startswith("static"):
            cond = next((src[j].strip() for j in range(i - 1, max(0, i - 4), -1) if src[j].strip().startswith("if")), "")
            sites.append((func, i + 1, cond))
            if func in ("hwloc_xml_callbacks_register", "hwloc_xml_callbacks_reset"):
                continue
            if not re.fullmatch(r"if \((ret|err) < 0 && errno == ENOSYS\) \{", cond):
                bad.append("%s:%d guarded by %r" % (func, i + 1, cond))
    run.cov["xml_backend_pointer_write_sites"] = ["%s:%d %s" % s for s in sites]
    for b in bad:
        V(run, "backend-write-site:" + b.split(" ")[0].split(":")[0],
                      "topology-xml.c writes the process-wide XML backend pointer at a site / under a condition the model does not know: %s "
                      "(the model only has the errno==ENOSYS fallback; a write after first use is an interference event between independent topologies)" % b,
                      "kind: correspondence\nsite: %s\n" % b, no_input=True)


def make_docs(ctx):
    """Document factory: the harness exports two topologies, gen/mt_gen.py derives well-formed variants a
    minimal parser may refuse (single quotes, comments, character references, entities, encodings) and malformed ones."""
    d = os.path.join(C.BUILD, "c17-docs")
    os.makedirs(d, exist_ok=True)
    bases = {"syn": "synthetic pack:2 numa:2 core:2 pu:2", "ma": "xml " + G.xml_path(C.REPO, "8intel64-4n2t-memattrs.xml")}
    script = ""
    for k, (b, src) in enumerate(sorted(bases.items())):
        script += "init %d\nload %d 0 bind=0 %s\nmod %d maset 2 0\nmod %d distadd PU 4\nmod %d refresh\nexportfile %d %s\ndestroy %d\n" % (
            k, k, src, k, k, k, k, os.path.join(d, "base-%s.%d.xml" % (b, os.getpid())), k)
    rc, out, err, hung = hrun(ctx, [ctx.exe_asan], script.encode(), env=C.run_env(), timeout=60)
    if rc is None or hung or not all(os.path.exists(os.path.join(d, "base-%s.%d.xml" % (b, os.getpid()))) for b in bases):
        ctx.infra["skipped_cases"].append("document-factory")
        return None
    docs = {}
    for b in sorted(bases):
        tmp = os.path.join(d, "base-%s.%d.xml" % (b, os.getpid()))
        txt = open(tmp).read()
        os.unlink(tmp)
        docs[b] = {}
        for v, data in G.make_doc_variants(txt).items():
            p = os.path.join(d, "%s-%s.xml" % (b, v))
            if not os.path.exists(p) or open(p, "rb").read() != data:
                with open(p + ".tmp%d" % os.getpid(), "wb") as f:
                    f.write(data)
                os.rename(p + ".tmp%d" % os.getpid(), p)
            docs[b][v] = p
    return docs


def thread_ops(transcript):
    res = {}
    for l in transcript.split("\n"):
        m = re.match(r"T (\d+) .* bad=(\d+) ops=(\S*)", l)
        if m:
            res[int(m.group(1))] = (m.group(3).split(",") if m.group(3) else [], m.group(2))
    return res


def faulty_divergences(ctx, case):
    """Run the histories concurrently and each one alone in a fresh process (ASan build).
    -> (divergences [(thread, call index, command, concurrent, alone)], stderr, rc, per-thread ops, status)
    status: "ok" | "infra" (a run was killed, or a result is missing without a sanitizer/crash exit code: nothing can
    be concluded) | "hang" (a run timed out again twice with ten times the limit)."""
    T = 30 if ctx.tier == "quick" else 60
    rc, out, err, hung = hrun(ctx, [ctx.exe_asan], case.encode(), env=C.run_env(), timeout=T)
    if hung:
        return [], err.decode(errors="replace"), 124, {}, "hang"
    if rc is None:
        return [], "", 0, {}, "infra"
    conc = thread_ops(out.decode(errors="replace"))
    ctx.last_faulty_transcript = out.decode(errors="replace")
    progs = {}
    for l in case.split("\n"):
        if l.startswith("prog "):
            t = l.split(None, 2)
            progs.setdefault(int(t[1]), []).append(t[2])
    div, status = [], "ok"
    for i in sorted(progs):
        rc1, out1, err1, hung1 = hrun(ctx, [ctx.exe_asan], G.solo_case(case, i).encode(), env=C.run_env(), timeout=T)
        if hung1:
            return [], err1.decode(errors="replace"), 124, conc, "hang"
        if rc1 is None:
            return [], "", 0, conc, "infra"
        solo = thread_ops(out1.decode(errors="replace")).get(0, ([], "1"))[0]
        c = conc.get(i, ([], "1"))[0]
        if rc1 != 0 and rc == 0:
            rc = rc1
            err = err1
        if len(c) != len(progs[i]) or len(solo) != len(progs[i]):
            # a digest is missing: the process did not get to print it.  With a sanitizer / crash exit code that is
            # reported by the caller (rc); otherwise it says nothing about hwloc
            status = "infra" if rc == 0 else status
            continue
        for k in range(len(c)):
            if c[k] != solo[k]:
                div.append((i, k, progs[i][k], c[k], solo[k]))
                break
    return div, err.decode(errors="replace"), rc, conc, status


def run_faulty(ctx, run, name, case):
    import time
    replay = "kind: input\ncase: %s\n<<<CASE\n%s>>>CASE\n" % (name, case)
    div, err, rc, conc, status = faulty_divergences(ctx, case)
    ctx.first_faulty_transcript = getattr(ctx, "last_faulty_transcript", "")
    for _ in range(2):
        if status != "infra":
            break
        ctx.infra["missing_digest_reruns"] += 1
        div, err, rc, conc, status = faulty_divergences(ctx, case)
    if status == "infra":
        ctx.infra["skipped_for_timeout"] += 1
        ctx.infra["skipped_cases"].append(name)
        return
    if status == "hang":
        V(run, "harness-hang:indep-faulty", "the ASan build timed out three times on %s, twice with ten times the limit: a hang that reproduces" % name, replay)
        return
    run.count(case, nontrivial=True, sample={"case": name, "kind": "indep-faulty"}, kind="indep-faulty")
    # the sequential calls around the section (slots 60-63: warm-up before, "the registry still works" after) are all
    # designed to succeed, whatever the threads did to THEIR topologies
    for l in getattr(ctx, "first_faulty_transcript", "").split("\n"):
        if re.match(r"S \d+ dupto ", l) and fieldv(l, "rc") == "1" and ("0" in (fieldv(l, "new_dv") or "") or "0" in (fieldv(l, "new_mv") or "")):
            V(run, "dup-ends-invalid", "hwloc_topology_dup returned 0 but the new (loaded) topology has invalid distances/memattr caches (dv=%s mv=%s): "
              "concurrent consulting calls on it refresh them concurrently" % (fieldv(l, "new_dv"), fieldv(l, "new_mv")), replay + "\n" + l)
        m = re.match(r"S (\d+) (init|load|cons|destroy) (6[0-3])\b(.*)", l)
        if m and m.group(3) != "62" and fieldv(l, "rc") != "1":
            V(run, "components-registry-broken:%s-%s" % (m.group(2), m.group(3)),
              "after the threads' histories (error paths included) the sequential call `%s %s` fails: the process-wide component registry / reference count was damaged" % (m.group(2), m.group(3)),
              replay + "\n" + l)
    for i, (ops, bad) in conc.items():
        for o in ops:
            run.count("%s/%d/%s" % (name, i, o), nontrivial=True, kind="faulty-call-rc%s" % (o[-1] if o else "?"))
        if bad != "0":
            V(run, "harness-parse", "thread program not understood in %s" % name, replay, no_input=True)
    if rc != 0:
        ma = re.search(r"(\S+): (\w+): Assertion `([^']*)' failed", err)
        ms = re.search(r"ERROR: (\w+Sanitizer): ((?:attempting )?[\w-]+)", err)
        if ms and not ma:
            fr = re.search(r"#\d+ \S+ in (hwloc_\w+) ", err)
            V(run, "sanitizer:%s:%s" % (ms.group(2).replace("attempting ", ""), fr.group(1) if fr else "?"),
              "%s: %s in %s while independent histories ran on distinct topologies (%s)" % (ms.group(1), ms.group(2), fr.group(1) if fr else "?", name),
              replay + "\nstderr:\n" + err[:4000])
        elif ma:
            V(run, "library-abort:" + ma.group(2), "the library aborted in %s on assert(%s) (%s) while independent histories ran: %s" % (ma.group(2), ma.group(3), ma.group(1), name),
              replay + "\nstderr:\n" + err[-3000:])
        else:
            V(run, "harness-asan:indep-faulty", "ASan/UBSan build failed rc=%d on %s: %s" % (rc, name, err[-600:]), replay + "\nstderr:\n" + err[-3000:])
    if div:
        t0 = time.time()

        def still(c):
            if time.time() - t0 > 25:
                return False
            d = faulty_divergences(ctx, c)
            return d[4] == "ok" and d[2] == 0 and bool(d[0])
        small = G.shrink(case, still) if not getattr(ctx, "replaying", False) else case
        again = faulty_divergences(ctx, small)
        d2 = again[0] if again[4] == "ok" else []
        if not d2:
            small, d2 = case, div
        i, k, cmd, a, b = d2[0]
        toks = cmd.split()
        site = toks[0] + ("-" + toks[4] + "-" + os.path.basename(toks[5]).replace(".xml", "") if toks[0] == "load" and len(toks) > 5 else ("-" + toks[2] if len(toks) > 2 else ""))
        V(run, "interference:" + site,
                      "independent topologies interfere: thread %d, call %d `%s` gives %s next to the other threads' histories but %s when the same history runs alone in a fresh process"
                      % (i, k, cmd, a, b),
                      "kind: input\ncase: %s\n<<<CASE\n%s>>>CASE\nthread %d call %d: %s\nconcurrent: %s\nalone: %s\n" % (name, small, i, k, cmd, a, b))
    rc_t, out_t, err_t, hung_t = hrun(ctx, [ctx.exe_tsan], case.encode(), env=C.run_env(TSAN_OPTIONS="halt_on_error=0 exitcode=66 report_signal_unsafe=0 history_size=4"), timeout=60 if ctx.tier == "quick" else 90)
    if hung_t:
        V(run, "harness-hang:indep-faulty-tsan", "the TSan build timed out three times on %s, twice with ten times the limit" % name, replay)
        return
    if rc_t is None:
        ctx.infra["skipped_for_timeout"] += 1
        ctx.infra["skipped_cases"].append(name + "(tsan)")
        return
    if rc_t not in (0, 66):
        V(run, "harness-tsan:indep-faulty", "TSan build failed rc=%d on %s" % (rc_t, name), replay + "\nstderr:\n" + err_t.decode(errors="replace")[-3000:])
    cats = parse_tsan(err_t.decode(errors="replace"))
    ctx.tsan_reports += len(cats)
    for c in sorted(set(cats)):
        if c in ("dist", "memattr") and "# expect: dup-ends-invalid" in case:
            V(run, "dup-ends-invalid", "ThreadSanitizer: readers of a freshly duplicated topology race in the %s cache refresh" % c,
              replay + "\ntsan:\n" + err_t.decode(errors="replace")[:6000])
            continue
        if c.startswith("linuxstatic:"):
            V(run, "always-writes-static:" + c.split(":", 1)[1],
              "ThreadSanitizer: concurrent native discoveries of independent topologies race on a function-local static of the Linux backend (%s)" % c.split(":", 1)[1],
              replay + "\ntsan:\n" + err_t.decode(errors="replace")[:6000])
            continue
        if c.startswith("static:"):
            # a first use that the sequential preamble did not warm (e.g. libxml2's lazily created catalog mutex on the
            # first load of a missing file): the known first-use class, not an interference between the histories
            V(run, "first-use-static:" + c.split(":", 1)[1], "ThreadSanitizer: first-use race (%s) inside a section with failing loads" % c,
              replay + "\ntsan:\n" + err_t.decode(errors="replace")[:6000])
            continue
        V(run, "tsan:indep-faulty:%s" % c, "ThreadSanitizer data race between independent histories (with failing loads): %s" % c,
                      replay + "\ntsan:\n" + err_t.decode(errors="replace")[:6000])
    ctx.faulty_cases += 1
    ctx.faulty_calls += sum(len(o[0]) for o in conc.values())


def parse_tsan(err):
    """-> list of categories, one per ThreadSanitizer data-race report"""
    cats = []
    for blk in re.split(r"={18}\n", err):
        if "WARNING: ThreadSanitizer" not in blk:
            continue
        if "data race" not in blk:
            m = re.search(r"WARNING: ThreadSanitizer: ([^\n(]+)", blk)
            cats.append("other:" + (m.group(1).strip().replace(" ", "-") if m else "unknown"))
            continue
        frames = re.findall(r"#0 (\S+) (\S+)", blk)
        allframes = re.findall(r"#\d+ (\S+) (\S+)", blk)
        cat = None
        for fn, where in frames:
            if fn in STATIC_FUNCS:
                cat = "static:" + fn
                break
        if cat is None and frames and "/hwloc/topology-linux.c" in frames[0][1]:
            cat = "linuxstatic:" + frames[0][0]      # process-wide caches of the native Linux backend
        if cat is None:
            for fn, where in allframes[:12]:
                if "/hwloc/distances.c" in where:
                    cat = "dist"
                    break
                if "/hwloc/memattrs.c" in where:
                    cat = "memattr"
                    break
        if cat is None and any("libxml2" in blk_l for blk_l in blk.split("\n")[:12]):
            cat = "static:libxml2"
        if cat is None:
            fn = next((f for f, w in allframes if "/hwloc/" in w), frames[0][0] if frames else "unknown")
            cat = "other:" + fn
        cats.append(cat)
    return cats


def fieldv(line, key):
    m = re.search(r" %s=(\S+)" % key, line)
    return m.group(1) if m else None


def model_case(case, transcript):
    """Build the model's case from the harness transcript (which supplies the tree-level inputs)."""
    S = {}
    for l in transcript.split("\n"):
        m = re.match(r"S (\d+) ", l)
        if m:
            S[int(m.group(1))] = l
    out, skipped = ["glob libxml=1"], set()

    def conv(n, cmd, prefix):
        toks = cmd.split()
        kind = toks[0]
        sl = S.get(n, "")
        if kind in ("init", "destroy"):
            return "%s%s %s" % (prefix, kind, toks[1])
        if kind == "load":
            if prefix != "" and not sl:   # inside a thread program: no oracle line, derive from the command
                src_xml = " xml " in cmd
                flags = int(toks[2])
                return "%sload %s nodist=%d nomemattr=%d nocpukinds=%d xml=%d extra=0 dists=- bind=%s" % (
                    prefix, toks[1], bool(flags & G.FLAG_NO_DISTANCES), bool(flags & G.FLAG_NO_MEMATTRS), bool(flags & G.FLAG_NO_CPUKINDS), src_xml,
                    "flag" if flags & BIND_FLAGS else "-")
            if fieldv(sl, "rc") != "1":
                return None
            nma = int(fieldv(sl, "nma"))
            nomem = fieldv(sl, "nomemattr") == "1"
            return "%sload %s nodist=%s nomemattr=%s nocpukinds=%s xml=%s extra=%d dists=%s bind=%s" % (
                prefix, toks[1], fieldv(sl, "nodist"), fieldv(sl, "nomemattr"), fieldv(sl, "nocpukinds"), fieldv(sl, "xml"),
                0 if nomem else max(0, nma - 8), fieldv(sl, "dists"),
                "none" if fieldv(sl, "restricted") == "1" else ("flag" if int(toks[2]) & BIND_FLAGS else "-"))
        if kind == "mod":
            what = toks[2]
            if what == "restrict":
                if prefix != "" and not sl:
                    return "%smod %s restrict ok=1 lives=-" % (prefix, toks[1])
                return "%smod %s restrict ok=%s lives=%s" % (prefix, toks[1], fieldv(sl, "rc"), fieldv(sl, "lives") or "-")
            if what == "distadd":
                if sl and fieldv(sl, "rc") != "1":
                    return None
                nb = fieldv(sl, "nb") if sl else toks[4]
                return "%smod %s distadd nb=%s" % (prefix, toks[1], nb)
            if what == "maset":
                if sl and fieldv(sl, "skip") == "1":
                    return None
                return "%smod %s maset %s new=%s" % (prefix, toks[1], toks[3], (fieldv(sl, "new") if sl else "1"))
            if sl and fieldv(sl, "rc") != "1" and what in ("insertmisc", "insertgroup", "allow", "distremove", "maregister"):
                return None      # rejected for a tree-level reason (type filter, ...): no cache is touched; later lines would show otherwise
            return "%smod %s %s" % (prefix, toks[1], what)
        if kind == "cons":
            if sl and fieldv(sl, "warns") is not None and ("warns=1" in toks) != (fieldv(sl, "warns") == "1"):
                return prefix + " ".join(t for t in toks if not t.startswith("warns=")) + " warns=" + fieldv(sl, "warns")
            return prefix + " ".join(toks)
        return None

    n = 0
    for line in case.split("\n"):
        n += 1
        line = line.rstrip("\r")
        if not line or line.startswith("#"):
            continue
        if line.startswith("threads "):
            out.append(line)
            continue
        if line.startswith("prog "):
            toks = line.split(None, 2)
            c = conv(n, toks[2], "prog %s " % toks[1])
            if c:
                out.append(c)
            continue
        if line.startswith("run"):
            out.append("%d run" % n)
            continue
        c = conv(n, line, "")
        if c is None:
            skipped.add(n)
        else:
            out.append("%d %s" % (n, c))
    return "\n".join(out) + "\n", skipped


class Ctx:
    pass


def run_case(ctx, run, name, case, replaying=False):
    """Run one case on both builds and on the model; report violations.  Returns a dict of observations."""
    kind = (re.search(r"# kind: (\S+)", case) or [None, "readers-warm"])[1]
    inp = case.encode()
    replay = "kind: input\ncase: %s\n<<<CASE\n%s>>>CASE\n" % (name, case)
    rc_a, out_a, err_a, hung_a = hrun(ctx, [ctx.exe_asan], inp, env=C.run_env(), timeout=30 if ctx.tier == "quick" else 60)
    rc_t, out_t, err_t, hung_t = hrun(ctx, [ctx.exe_tsan], inp, env=C.run_env(TSAN_OPTIONS="halt_on_error=0 exitcode=66 report_signal_unsafe=0 history_size=4"), timeout=60 if ctx.tier == "quick" else 90)
    if hung_a or hung_t:
        V(run, "harness-hang:%s" % kind, "the %s build timed out three times on %s, twice with ten times the limit: a hang that reproduces" % ("ASan" if hung_a else "TSan", name), replay)
        return {}
    if rc_a is None or rc_t is None:
        ctx.infra["skipped_for_timeout"] += 1
        ctx.infra["skipped_cases"].append(name)
        return {}
    ta, tt = out_a.decode(errors="replace"), out_t.decode(errors="replace")
    run.count(ta, nontrivial=True, sample={"case": name, "kind": kind, "first_lines": ta.split("\n")[:3]}, kind=kind)
    if rc_a != 0:
        V(run, "harness-asan:%s" % kind, "ASan/UBSan build failed rc=%d on %s: %s" % (rc_a, name, err_a.decode(errors="replace")[-600:]), replay + "\nstderr:\n" + err_a.decode(errors="replace")[-3000:])
    if rc_t not in (0, 66):
        V(run, "harness-tsan:%s" % kind, "TSan build failed rc=%d on %s" % (rc_t, name), replay + "\nstderr:\n" + err_t.decode(errors="replace")[-3000:])
    # ---- model
    mcase, skipped = model_case(case, ta)
    rc_m, out_m, err_m, hung_m = hrun(ctx, [ctx.drv], mcase.encode(), timeout=60)
    if rc_m is None:
        ctx.infra["skipped_for_timeout"] += 1
        ctx.infra["skipped_cases"].append(name + "(model)")
        return {}
    tm = out_m.decode(errors="replace")
    if rc_m != 0:
        V(run, "correspondence:driver-failed", "model driver failed on %s: %s" % (name, err_m.decode(errors="replace")[-400:]), replay + "\nmodel case:\n" + mcase, no_input=True)
        return {}
    M = {}
    for l in tm.split("\n"):
        m = re.match(r"([SR]) (\d+) ", l)
        if m:
            M[(m.group(1), int(m.group(2)))] = l
    # ---- sequential lines: spec on the C side, then correspondence
    diverged = False
    for tr, label in ((ta, "asan"), (tt, "tsan")):
        for l in tr.split("\n"):
            m = re.match(r"S (\d+) (\S+) (\d+) ?(\S*)", l)
            if not m:
                continue
            n, k, what = int(m.group(1)), m.group(2), m.group(4)
            if n in skipped:
                continue
            rc, dv, mv, chg = fieldv(l, "rc"), fieldv(l, "dv"), fieldv(l, "mv"), fieldv(l, "chg")
            if rc == "-2":
                V(run, "harness-parse", "harness could not parse line %d of %s" % (n, name), replay, no_input=True)
                continue
            allv = "0" not in (dv or "") and "0" not in (mv or "")
            # spec: load and refresh end with everything valid
            if k == "load" and rc == "1" and not allv:
                key = "load-ends-invalid:bind-restrict" if fieldv(l, "restricted") == "1" else "load-ends-invalid:%s" % kind
                V(run, key, "hwloc_topology_load returned 0 but left caches invalid (dv=%s mv=%s): concurrent consulting calls on the just-loaded topology refresh them concurrently" % (dv, mv), replay + "\n" + l)
            if k == "mod" and what == "refresh" and rc == "1" and not allv:
                key = "refresh-leaves-invalid:nomemattr-user-attr" if kind == "nomemattr" else "refresh-leaves-invalid:%s" % kind
                V(run, key, "hwloc_topology_refresh left caches invalid (dv=%s mv=%s)" % (dv, mv), replay + "\n" + l)
            ml = M.get(("S", n))
            if label == "asan" and ml is not None and not diverged:
                # spec: a consulting call on an all-valid topology changes no cache (pre-state = model's, checked equal below)
                cmpf = ["rc", "nd", "dv", "mv"] + (["chg"] if k == "cons" else [])
                diff = [f for f in cmpf if fieldv(l, f) != fieldv(ml, f)]
                if diff:
                    diverged = True      # later lines of this case follow from the same divergence
                    V(run, "correspondence:%s-%s:%s" % (k, what, ",".join(diff)),
                                  "model and implementation differ on %s line %d (%s): impl %r model %r" % (name, n, ",".join(diff), l, ml),
                                  "kind: correspondence\n" + replay + "\nimpl: %s\nmodel: %s\n" % (l, ml), no_input=True)
                else:
                    run.cov["traces_validated_against_impl"] += 1
                    run.count(l, nontrivial=True, kind="call:" + k)
    # consulting call with all flags valid before and chg=1 after: spec violation on the implementation
    prev_valid = {}
    for l in ta.split("\n"):
        m = re.match(r"S (\d+) (\S+) (\d+) ?(\S*)", l)
        if not m:
            continue
        t = m.group(3)
        dv, mv = fieldv(l, "dv") or "", fieldv(l, "mv") or ""
        if m.group(2) == "cons" and fieldv(l, "tree") == "1":
            V(run, "reader-writes-topology:%s" % m.group(4),
              "consulting call %s changed the topology itself (canonical dump, level arrays incl. the special levels in order, CPU kinds), single-threaded" % m.group(4),
              replay + "\n" + l)
        if m.group(2) == "cons" and prev_valid.get(t) and fieldv(l, "chg") == "1":
            V(run, "valid-reader-writes:%s" % m.group(4), "consulting call %s on a topology whose caches were all valid changed a cache" % m.group(4), replay + "\n" + l)
        prev_valid[t] = "0" not in dv and "0" not in mv
    # ---- concurrent sections
    obs = {"kind": kind, "tsan": [], "model_races": []}
    if kind == "control-unrefreshed":
        ctx.control_ran = True
    cats = parse_tsan(err_t.decode(errors="replace"))
    obs["tsan"] = sorted(set(cats))
    predicted = set()
    for (tag, n), l in M.items():
        if tag == "R":
            r = fieldv(l, "races")
            if r and r != "-":
                predicted |= set(r.split(","))
    obs["model_races"] = sorted(predicted)
    if any(p.startswith("static:") for p in predicted):
        predicted.add("static:libxml2")     # libxml2's own first-use initialisation, triggered by the same first call
    for tr, label in ((ta, "asan"), (tt, "tsan")):
        for l in tr.split("\n"):
            if l.startswith("T "):
                if fieldv(l, "bad") != "0":
                    V(run, "harness-parse", "thread program not understood in %s" % name, replay, no_input=True)
                if fieldv(l, "eq") != "1" and kind in ("readers-warm", "readers-noexport", "readers-cold", "indep-warm", "indep-cold"):
                    V(run, "digest-mismatch:%s" % kind, "thread %s saw results different from the sequential run (%s build) in %s" % (l.split()[1], label, name), replay + "\n" + l)
            if l.startswith("R ") and kind in ("readers-warm", "readers-noexport", "readers-cold", "control-unrefreshed", "load-bind", "nomemattr", "synth-warned") and fieldv(l, "tree_chg") == "1":
                V(run, "reader-writes-topology:concurrent", "the topology itself (dump, level arrays, CPU kinds) changed during a section made of consulting calls only (%s build)" % label, replay + "\n" + l)
            if l.startswith("R ") and kind in ("readers-warm", "readers-noexport", "readers-cold") and fieldv(l, "cache_chg") != "0":
                V(run, "valid-reader-writes:concurrent", "a cache of a refreshed topology changed during a readers-only section (%s build)" % label, replay + "\n" + l)
    for c in sorted(set(cats)):
        if c in predicted:
            if c.startswith("static:"):
                fn = c.split(":", 1)[1]
                V(run, "first-use-static:" + fn,
                              "ThreadSanitizer: data race on the function-local static of %s when two threads call it concurrently (%s)" % (fn, kind),
                              replay + "\ntsan:\n" + err_t.decode(errors="replace")[:6000])
                ctx.confirmed.add(c)
            elif kind == "control-unrefreshed":
                ctx.control_seen = True
            elif kind in ("load-bind", "nomemattr"):
                ctx.confirmed.add(kind + ":" + c)   # the violation itself is raised by the flag check above
            else:
                V(run, "tsan:%s:%s" % (kind, c), "ThreadSanitizer data race in %s (the model predicts it: caches not valid at the start of the section)" % c,
                              replay + "\ntsan:\n" + err_t.decode(errors="replace")[:6000])
        else:
            V(run, "tsan:%s:%s" % (kind, c), "ThreadSanitizer data race the model does not predict: %s in a %s section" % (c, kind),
                          replay + "\ntsan:\n" + err_t.decode(errors="replace")[:6000])
    for p in predicted - set(cats):
        ctx.unobserved[p] = ctx.unobserved.get(p, 0) + 1
    ctx.tsan_reports += len(cats)
    return obs


def check(run, replay=None):
    proof = C.prove("C17")
    ctx = Ctx()
    ctx.drv = C.extract("C17", "drv_c17.ml")
    ctx.exe_asan = C.build_harness("hwv_mt", ["hwv_mt.c"], san=True, deps=["hwv_dump.h"])
    ctx.exe_tsan = C.build_harness("hwv_mt", ["hwv_mt.c"], san="tsan", deps=["hwv_dump.h"])
    ctx.confirmed, ctx.control_seen, ctx.unobserved, ctx.tsan_reports = set(), False, {}, 0
    ctx.tier = run.tier
    ctx.infra = {"retried_after_timeout_or_kill": 0, "skipped_killed": 0, "missing_digest_reruns": 0, "skipped_for_timeout": 0, "skipped_cases": []}
    _vcount.clear()
    run.assumptions.append("ThreadSanitizer and the per-thread digests observe the schedules that actually happened on this machine and its memory model; "
                           "they are supporting evidence. What is proved is over ALL interleavings of the MODEL's event lists (Conc/Events.v).")
    run.assumptions.append("the model takes three tree-level facts from the implementation run (objects of a distances structure surviving a restrict, "
                           "whether a memattr target is new, what the discovery registered); they belong to C08/C13/C14")
    if replay:
        txt = open(replay).read()
        m = re.search(r"<<<CASE\n(.*?)>>>CASE", txt, re.S)
        if not m:
            V(run, "replay-without-input", "this replay file names a theorem or a correspondence, not an input: re-run ./check.py C17", txt[:2000], no_input=True)
            return run.finish(proof, trusted=TRUSTED)
        body = m.group(1)
        if "# kind: indep-faulty" in body:
            ctx.replaying, ctx.faulty_cases, ctx.faulty_calls = True, 0, 0
            make_docs(ctx)
            run_faulty(ctx, run, "replay", body)
            return run.finish(proof, trusted=TRUSTED)
        run_case(ctx, run, "replay", body, replaying=True)
        return run.finish(proof, trusted=TRUSTED)
    static_census(run)
    backend_write_sites(run)
    ctx.faulty_cases = ctx.faulty_calls = 0
    docs = make_docs(ctx)
    cases = []
    cdir = os.path.join(C.VERIF, "corpus", "c17")
    if os.path.isdir(cdir):
        for n in sorted(os.listdir(cdir)):
            if n.endswith(".case"):
                cases.append(("corpus/" + n, open(os.path.join(cdir, n)).read().replace("@REPO@", C.REPO).replace("@CORPUS@", cdir)))
    rng = run.rng
    thorough = run.tier == "thorough"
    reps = 24 if thorough else 3
    for r in range(reps):
        for T in (2, 4, 16):
            cases.append(("readers-warm-T%d-%d" % (T, r), G.readers(rng, C.REPO, T, "readers-warm")))
            cases.append(("readers-noexport-T%d-%d" % (T, r), G.readers(rng, C.REPO, T, "readers-noexport")))
            cases.append(("indep-warm-T%d-%d" % (T, r), G.indep(rng, C.REPO, T, True)))
        cases.append(("readers-cold-%d" % r, G.readers(rng, C.REPO, rng.choice([2, 4]), "readers-cold")))
        cases.append(("indep-cold-%d" % r, G.indep(rng, C.REPO, rng.choice([2, 4]), False)))
    cases.append(("control-unrefreshed", G.control_unrefreshed(rng, C.REPO)))
    cases.append(("load-bind", G.load_bind(rng, C.REPO)))
    cases.append(("nomemattr", G.nomemattr(rng, C.REPO)))
    kinds = {}
    rng_f = run.rng
    for r in range((12 if run.tier == "thorough" else 2) if docs else 0):
        for T in ((2, 4, 16) if run.tier == "thorough" else (2, 4)):
            cases.append(("indep-faulty-T%d-%d" % (T, r), G.indep_faulty(rng_f, C.REPO, docs, T, ordered=(r % 2 == 0))))
            cases.append(("indep-errors-T%d-%d" % (T, r), G.indep_errors(rng_f, C.REPO, docs, T, lockstep=False)))
        cases.append(("indep-errors-lockstep-%d" % r, G.indep_errors(rng_f, C.REPO, docs, 2, lockstep=True)))
        cases.append(("indep-dups-%d" % r, G.indep_dups(rng_f, C.REPO, docs, lockstep=False)))
        cases.append(("indep-dups-lockstep-%d" % r, G.indep_dups(rng_f, C.REPO, docs, lockstep=True)))
        cases.append(("indep-native-bound-%d" % r, G.indep_native(rng_f, rng_f.choice([2, 4]) if run.tier == "quick" else rng_f.choice([2, 4, 8, 16]), True)))
        cases.append(("indep-native-free-%d" % r, G.indep_native(rng_f, rng_f.choice([2, 4]), False)))
        cases.append(("indep-components-%d" % r, G.indep_components(rng_f, C.REPO, docs, 8, 30)))
    for name, case in cases:
        if "# kind: indep-faulty" in case:
            if not docs:
                continue
            run_faulty(ctx, run, name, case.replace("@DOCS@", os.path.join(C.BUILD, "c17-docs")))
            continue
        o = run_case(ctx, run, name, case)
        if o:
            k = kinds.setdefault(o["kind"], {"cases": 0, "tsan": set(), "model": set()})
            k["cases"] += 1
            k["tsan"] |= set(o["tsan"])
            k["model"] |= set(o["model_races"])
    if getattr(ctx, "control_ran", False) and not ctx.control_seen:
        V(run, "tsan-control-blind", "ThreadSanitizer did not report the cache race of the unrefreshed-readers control: the race observation is blind",
                      "kind: infrastructure\n", no_input=True)
    run.cov["sections"] = {k: {"cases": v["cases"], "tsan_categories": sorted(v["tsan"]), "model_conflicts": sorted(v["model"])} for k, v in kinds.items()}
    run.cov["tsan_reports_total"] = ctx.tsan_reports
    run.cov["infrastructure"] = ctx.infra
    run.cov["violations_per_class"] = {k: len(v) for k, v in _vcount.items()}
    run.cov["indep_faulty"] = {"cases": ctx.faulty_cases, "calls_compared_with_fresh_process_reference": ctx.faulty_calls,
                               "documents": {b: sorted(v) for b, v in (docs or {}).items()}}
    run.cov["findings_confirmed_by_tsan"] = sorted(ctx.confirmed)
    run.cov["model_conflicts_not_observed_in_this_run"] = ctx.unobserved
    run.cov["threads"] = [2, 4, 16]
    return run.finish(proof, trusted=TRUSTED)


TRUSTED = ["gcc -fsanitize=thread (libtsan) on this machine: reports are observations of real schedules, absence of a report is not a proof",
           "harness/hwv_mt.c reads the OBJS_VALID / CACHE_VALID flags and cache arrays through include/private/private.h",
           "nm on the ThreadSanitizer build of the library for the census of writable statics",
           "libxml2 is not instrumented: races inside it are seen only through intercepted libc calls"]


def prebuild():
    C.build_lib("tsan")
    C.build_harness("hwv_mt", ["hwv_mt.c"], san=True, deps=["hwv_dump.h"])
    C.build_harness("hwv_mt", ["hwv_mt.c"], san="tsan", deps=["hwv_dump.h"])
