"""C18: discovery from Linux/x86 snapshots is robust, deterministic and self-consistent.

proof   : coq/Props/Properties_C18.v (model Text/LinuxParse.v: sysfs cpumask / cpulist parsers over checked
          strings, kernel printers, disallowed-view checker)
tie     : harness/hwv_linuxparse.c (the real static parsers of topology-linux.c, through real files) vs the
          extracted model (ocaml/drv_c18.ml parse), same case file; parse o print = id evaluated on the C outputs
search  : harness/hwv_snapshot.c loads every selected bundled snapshot x component selection x type filters x
          flags x removal set (removable = regular files, symlinks, directories whose name does not end in a
          digit) on a scratch copy; per case: clean 0/-1, wf_check + levels (extracted verified checker),
          hwloc_topology_check (child), two loads give identical dumps, XML export -> reload gives the same dump,
          INCLUDE_DISALLOWED view vs default view (disallowed_check).  Failing cases are delta-debugged.

Replay / corpus case format (text after the '---' line of a replay file, or a corpus/c18/*.case file):
  snapshot: linux/<name>.tar.bz2          remove: <relative path>  (0..n lines)
  config: <hwv_load.h line>  (0..n)       flags: <n>
  or, for the parsers:   parse: mask|list <hexbytes|->
"""
import concurrent.futures as cf
import os
import queue
import re
import shutil
import subprocess
import tempfile
import threading

from hv import common as C
from gen import topo_sources as S
from gen import snapshot_gen as G

DEPS = ["hwv_dump.h", "hwv_load.h"]
PRELUDE = ["hvnum.ml", "hvdump.ml"]
FLAG_POOL = [1, 8, 64, 128, 256, 512]
# every environment variable a case may set: each case sets or unsets all of them (one process runs many cases)
ENV_VARS = ["HWLOC_COMPONENTS", "HWLOC_THISSYSTEM", "HWLOC_FSROOT", "HWLOC_CPUID_PATH", "HWLOC_DUMPED_HWDATA_DIR",
            "HWLOC_X86_TOPOEXT_NUMANODES", "HWLOC_KNL_MSCACHE_L3", "HWLOC_KEEP_NVIDIA_GPU_NUMA_NODES",
            "HWLOC_DEBUG_ALLOW_OVERLAPPING_NODE_CPUSETS", "HWLOC_CPUKINDS_MAXFREQ", "HWLOC_CPUKINDS_RANKING",
            "HWLOC_PCI_LOCALITY", "HWLOC_LIBXML_EXPORT", "HWLOC_LIBXML_IMPORT", "HWLOC_KNL_NUMA_QUIRK",
            "HWLOC_USE_NUMA_DISTANCES", "HWLOC_DONT_MERGE_CLUSTER_GROUPS", "HWLOC_ANNOTATE_GLOBAL_COMPONENTS",
            "HWLOC_HIDE_ERRORS", "HWLOC_COMPONENTS_VERBOSE", "HWLOC_SYNTHETIC", "HWLOC_XMLFILE", "HWLOC_CPUKINDS_HOMOGENEOUS",
            "HWLOC_NO_HARDWIRED_TOPOLOGY", "HWLOC_KNL_HDH_FALLBACK", "HWLOC_DONT_MERGE_DIE_GROUPS", "HWLOC_PCI_LOCALITY_QUIRK_FAKE"]
# value of a variable a case does not mention (others are unset)
ENV_DEFAULTS = {"HWLOC_HIDE_ERRORS": "2"}
BLACKLIST_FLAG = 1      # HWLOC_TOPOLOGY_COMPONENTS_FLAG_BLACKLIST


def _tools():
    snap = C.build_harness("hwv_snapshot", ["hwv_snapshot.c"], deps=DEPS)
    par = C.build_harness("hwv_linuxparse", ["hwv_linuxparse.c"], deps=["hwv_dump.h"],
                          extra_flags=['-DHV_TOPOLOGY_LINUX_C="%s"' % os.path.join(C.REPO, "hwloc/topology-linux.c")])
    drv = C.extract("C18", "drv_c18.ml", prelude=PRELUDE)
    return snap, par, drv


def prebuild():
    _tools()


def _env():
    e = C.run_env()
    e.pop("HWLOC_DEBUG_CHECK", None)
    for v in ENV_VARS:
        e.pop(v, None)
    return e


# ===========================================================================
# Part A: the sysfs parsers, model vs real code
# ===========================================================================

def set_text(v):
    """hwv_pset rendering of a finite set given as an int."""
    n = max(1, (v.bit_length() + 63) // 64)
    return "0:%0*x" % (16 * n, v)


def parser_cases(run, drv):
    """[(kind, bytes, expected set text or None, label)]"""
    rng = run.rng
    quick = run.tier == "quick"
    cases = []
    # corpus first
    cdir = os.path.join(C.VERIF, "corpus", "c18")
    for n in sorted(os.listdir(cdir)) if os.path.isdir(cdir) else []:
        for l in open(os.path.join(cdir, n)):
            m = re.match(r"parse:\s+(mask|list)\s+(\S+)", l)
            if m:
                cases.append((m.group(1), b"" if m.group(2) == "-" else bytes.fromhex(m.group(2)), None, "corpus"))
    # kernel-format texts printed by the Coq printers (the ones the theorems quantify over)
    sets = G.gen_sets(rng, 300 if quick else 4000)
    req = []
    for v in sets:
        need = max(1, (v.bit_length() + 31) // 32)
        req.append("pmask %d %x" % (need + rng.choice([0, 0, 0, 1, 2, 5]), v))
        req.append("plist %x" % v)
    def run_print(part):
        rc, out, err = C.sh([drv, "print"], input=("\n".join(part) + "\n").encode(), timeout=900)
        if rc != 0:
            raise RuntimeError("model printer failed: " + err.decode(errors="replace")[-2000:])
        return out.decode().split("\n")[:len(part)]
    step = max(2, 2 * ((len(req) // 2 + C.NCPU - 1) // C.NCPU))
    parts = [req[k:k + step] for k in range(0, len(req), step)]
    texts = []
    with cf.ThreadPoolExecutor(max_workers=C.NCPU) as ex:
        for r in ex.map(run_print, parts):
            texts += r
    for i, v in enumerate(sets):
        cases.append(("mask", bytes.fromhex(texts[2 * i]), set_text(v), "printed"))
        cases.append(("list", bytes.fromhex(texts[2 * i + 1]), set_text(v), "printed"))
    valid = [c for c in cases if c[3] == "printed"]
    # files larger than the initial read buffer of hwloc__read_fd (page size, then doubled)
    for nchunks in (454, 455, 456, 457, 910, 911, 912, 1400):
        v = rng.getrandbits(32 * nchunks) | (1 << (32 * nchunks - 1))
        body = ",".join("%08x" % ((v >> (32 * k)) & 0xffffffff) for k in range(nchunks - 1, -1, -1))
        cases.append(("mask", (body + "\n").encode(), set_text(v), "bigfile"))
    for cnt in (700, 1100, 1500, 2500):
        idx = sorted(rng.sample(range(0, 3 * cnt, 2), cnt))
        v = 0
        for i in idx:
            v |= 1 << i
        cases.append(("list", (",".join(map(str, idx)) + "\n").encode(), set_text(v), "bigfile"))
    for pad in (4094, 4095, 4096, 4097, 8191, 8192, 8193, 8194):
        # exact sizes around the buffer boundaries: zero chunks then one word
        nz = (pad - 9) // 9
        body = "00000000," * nz + "0" * (pad - 9 * nz - 9) + "000000ff\n"
        cases.append(("mask", body.encode(), set_text(0xff), "bigfile"))
    # malformed stream
    for b in G.CURATED_MASK:
        cases.append(("mask", b, None, "curated"))
    for b in G.CURATED_LIST:
        cases.append(("list", b, None, "curated"))
    for b, cheap in G.CURATED_LIST_UB:
        cases.append(("list", b, None, "curated-ub" if cheap else "curated-ub-nomodel"))
    nmal = 400 if quick else 6000
    for i in range(nmal):
        if rng.random() < 0.5:
            kind, b, _, _ = rng.choice(valid)
            if len(b) > 200:
                continue
            b = G.mutate(rng, b, G.MASK_ALPHA if kind == "mask" else G.LIST_ALPHA)
        else:
            kind = rng.choice(["mask", "list"])
            b = G.hostile_bytes(rng, G.MASK_ALPHA if kind == "mask" else G.LIST_ALPHA, 60)
        if kind == "list" and not G.safe_list_text(b):
            continue
        cases.append((kind, b, None, "malformed"))
    return cases


def case_line(kind, b):
    return "%s %s" % (kind, b.hex() or "-")


def run_parser_c(par, lines):
    """Runs the C harness on case lines; a crash loses one case only.  Returns {idx: line | 'CRASH rc err'}."""
    res = {}
    lo = 0
    d = tempfile.mkdtemp(prefix="hwv-c18p-", dir=os.environ.get("TMPDIR", "/tmp"))
    try:
        while lo < len(lines):
            rc, out, err = C.sh([par, d], input=("\n".join(lines[lo:]) + "\n").encode(), env=_env(), timeout=900)
            cur = None
            for l in out.decode(errors="replace").split("\n"):
                m = re.match(r"case (\d+)$", l)
                if m:
                    cur = lo + int(m.group(1))
                    continue
                m = re.match(r"(mask|list) (\d+) (.*)$", l)
                if m:
                    res[lo + int(m.group(2))] = "%s %s" % (m.group(1), m.group(3))
            if rc == 0:
                break
            bad = cur if cur is not None and cur not in res else (max(res) + 1 if res else lo)
            res[bad] = "CRASH rc=%d %s" % (rc, crash_key(rc, err.decode(errors="replace")))
            res[(bad, "err")] = err.decode(errors="replace")[-3000:]
            lo = bad + 1
    finally:
        shutil.rmtree(d, ignore_errors=True)
    return res


def crash_key(rc, err):
    m = re.search(r"([\w./-]+\.[ch]):(\d+):\d+: runtime error: ([^\n]*)", err)
    if m:
        what = re.sub(r"[-+]?\d+", "N", m.group(3))
        return "ubsan:%s:%s:%s" % (os.path.basename(m.group(1)), m.group(2), re.sub(r"[^A-Za-z]+", "-", what)[:60].strip("-"))
    m = re.search(r"ERROR: (AddressSanitizer|LeakSanitizer): ([\w-]+)", err)
    if m:
        fr = re.findall(r"#\d+ 0x[0-9a-f]+ in (\w+) [^\n]*?/hwloc/([\w.-]+):(\d+)", err)
        san = "asan" if m.group(1) == "AddressSanitizer" else "lsan"
        if san == "lsan":       # the function that owns the leaked object, not the allocator it went through
            fr = [f for f in fr if not re.match(r"hwloc_(bitmap|tma)_|hwloc__?(alloc|strdup)|hwloc_alloc", f[0])] or fr
        fn = "%s" % fr[0][0] if fr else "?"
        return "%s:%s:%s" % (san, m.group(2) if san == "asan" else "leak", fn)
    m = re.search(r"Assertion `([^']*)' failed", err)
    if m:
        return "assert:" + re.sub(r"[^A-Za-z0-9_>.-]+", "-", m.group(1))[:80]
    if rc in (-14, 124) or "TIMEOUT" in err:
        return "hang"
    return "signal%d" % (-rc) if rc < 0 else "exit%d" % rc


def check_parsers(run, par, drv, only=None):
    cases = only if only is not None else parser_cases(run, drv)
    lines = [case_line(k, b) for k, b, _, _ in cases]
    model = {}

    def run_model(idx):
        rc, out, err = C.sh([drv, "parse"], input=("\n".join(lines[i] for i in idx) + "\n").encode(), timeout=1800)
        if rc != 0:
            raise RuntimeError("model driver failed (rc=%d) on a shard starting with %s: %s" % (rc, lines[idx[0]][:80], err.decode(errors="replace")[-2000:]))
        res = {}
        for l in out.decode().split("\n"):
            m = re.match(r"(mask|list) (\d+) (.*)$", l)
            if m:
                res[idx[int(m.group(2))]] = "%s %s" % (m.group(1), m.group(3))
        return res
    # longest inputs spread first over the shards
    order = sorted((i for i in range(len(lines)) if cases[i][3] != "curated-ub-nomodel"), key=lambda i: -len(lines[i]))
    for i in range(len(lines)):
        if cases[i][3] == "curated-ub-nomodel":
            model[i] = "list ub"
    mshards = [order[k::C.NCPU] for k in range(C.NCPU) if order[k::C.NCPU]]
    with cf.ThreadPoolExecutor(max_workers=C.NCPU) as ex:
        for r in ex.map(run_model, mshards):
            model.update(r)
    # C side in parallel shards; cases on which the model predicts undefined behaviour run alone
    ub = [i for i in range(len(cases)) if model.get(i, "").endswith(" ub")]
    normal = [i for i in range(len(cases)) if i not in set(ub)]
    nsh = max(1, min(C.NCPU, len(normal) // 50 + 1))
    shards = [normal[k::nsh] for k in range(nsh)]
    cres = {}
    with cf.ThreadPoolExecutor(max_workers=C.NCPU) as ex:
        for sh, r in zip(shards, ex.map(lambda sh: run_parser_c(par, [lines[i] for i in sh]), shards)):
            for j, i in enumerate(sh):
                cres[i] = r.get(j)
                if (j, "err") in r:
                    cres[(i, "err")] = r[(j, "err")]
    for i, (kind, b, exp, label) in enumerate(cases):
        if i in ub:
            continue
        c, m = cres.get(i), model.get(i)
        replay = "parse: %s\n--- implementation\n%s\n--- model\n%s\n" % (lines[i], c, m)
        run.count("%s|%s" % (lines[i], c), nontrivial=c is not None and "parsed" in c, kind="parse:%s:%s" % (kind, label),
                  sample={"case": lines[i][:80], "c": (c or "")[:80], "model": (m or "")[:80]})
        if c is None:
            run.violation("parser-not-run:%s" % kind, "parser case did not run", replay, no_input=True)
            continue
        if c.startswith("CRASH"):
            run.violation("parser-crash:%s:%s" % (kind, c.split(" ", 2)[2]), "hwloc__read_path_as_cpu%s crashes / traps on a file content" % kind,
                          replay + cres.get((i, "err"), ""))
            continue
        # spec on the implementation's output: parse o print = id
        if exp is not None and c != "%s parsed %s" % (kind, exp):
            if kind == "list" and exp == set_text(0) and c == "list parsed " + set_text(1):
                run.violation("cpulist-empty-set", "an empty cpulist file (\"\\n\", what the kernel prints for an empty set) is read as {0}", replay)
            else:
                run.violation("parse-print:%s" % kind, "hwloc__read_path_as_cpu%s does not return the set the kernel printed" % kind, replay)
        if c != m:
            # the property statement (spec above, no crash) decides violations; a pure model/code difference is a broken tie
            run.violation("correspondence:parse:%s" % kind, "model of hwloc__read_path_as_cpu%s disagrees with the implementation" % kind, replay, no_input=True)
        else:
            run.cov["traces_validated_against_impl"] += 1
    # undefined-behaviour class: replay on the real code, one process each
    for i in ub:
        kind, b, exp, label = cases[i]
        r = run_parser_c(par, [lines[i]])
        c = r.get(0)
        run.count("%s|%s" % (lines[i], c), nontrivial=True, kind="parse:%s:ub" % kind)
        replay = "parse: %s\n--- implementation\n%s\n--- model\n%s\n%s" % (lines[i], c, model.get(i), r.get((0, "err"), ""))
        if c and c.startswith("CRASH") and "ubsan" in c and "topology-linux.c" in c:
            run.violation("cpulist-int-overflow", "hwloc__read_path_as_cpulist: signed integer overflow (prevlast+1 / nextfirst-1) on a cpulist holding a value that is INT_MAX or INT_MIN as an int", replay)
        elif c and c.startswith("CRASH"):
            run.violation("parser-crash:%s:%s" % (kind, c.split(" ", 2)[2]), "parser crashes", replay)
        else:
            run.cov.setdefault("drift", []).append("model predicts signed overflow on %s, the build did not trap: %s" % (lines[i], c))
    return len(cases)


# ===========================================================================
# Part B: snapshots
# ===========================================================================

class Snap:
    def __init__(self, tarball):
        self.tarball = tarball
        self.rel = os.path.relpath(tarball, os.path.join(C.REPO, "tests/hwloc"))
        self.kind = self.rel.split("/")[0]            # linux | x86 | x86+linux
        self.name = os.path.basename(tarball)[:-8]
        self.lock = threading.Lock()
        self.free = []                                # unpacked, pristine copies (root dirs)
        self.removable = None
        self.test_env = self._test_env()

    def _test_env(self):
        """env lines of the *.test files using this tarball (+ the .env file of x86 tests)."""
        res = []
        d = os.path.dirname(self.tarball)
        for n in sorted(os.listdir(d)):
            p = os.path.join(d, n)
            if n.endswith(".test") and re.search(r"^source:\s*%s\s*$" % re.escape(os.path.basename(self.tarball)), open(p).read(), re.M):
                for l in open(p):
                    m = re.match(r"env:\s+(HWLOC_\w+)=(.*)$", l)
                    if m and m.group(1) in ENV_VARS and m.group(1) != "HWLOC_COMPONENTS":
                        res.append((m.group(1), m.group(2).strip().strip('"')))
            if n == self.name + ".env":
                for l in open(p):
                    m = re.match(r"(HWLOC_\w+)=(.*)$", l)
                    if m and m.group(1) in ENV_VARS:
                        res.append((m.group(1), m.group(2).strip().strip('"')))
        return sorted(set(res))


class Pool:
    """Scratch copies of snapshots under $TMPDIR.  A tarball may be unpacked several times for parallel
    workers, fewer times the more files it holds (file creation/deletion dominates on big snapshots);
    the copies of a snapshot are removed as soon as its last scheduled chunk is done."""

    def __init__(self):
        # $TMPDIR when set; otherwise a memory file system if there is one (creating and deleting ~10^5 small
        # files per run dominates the wall time on a disk), else /tmp
        base = os.environ.get("TMPDIR") or ("/dev/shm" if os.path.isdir("/dev/shm") and os.access("/dev/shm", os.W_OK) else "/tmp")
        self.dir = tempfile.mkdtemp(prefix="hwv-c18-", dir=base)
        self.n = 0
        self.lock = threading.Lock()

    def acquire(self, snap):
        with snap.lock:
            if getattr(snap, "sem", None) is None:
                # first use: one copy to count files, then decide how many copies may coexist
                snap.sem = threading.Semaphore(1)
                snap.maxc = 1
                snap.counted = False
        snap.sem.acquire()
        with snap.lock:
            if snap.free:
                return snap.free.pop()
        with self.lock:
            self.n += 1
            k = self.n
        top = os.path.join(self.dir, "c%d" % k)
        os.makedirs(os.path.join(top, "root"))
        os.makedirs(os.path.join(top, "stash"))
        subprocess.run(["tar", "xjf", snap.tarball, "-C", os.path.join(top, "root")], check=True)
        with snap.lock:
            if not snap.counted:
                snap.counted = True
                nfiles = sum(len(f) + len(d) for _, d, f in os.walk(os.path.join(top, "root")))
                extra = max(0, min(5, 12000 // max(nfiles, 1)) - 1)
                snap.maxc += extra
                for _ in range(extra):
                    snap.sem.release()
        return top

    def release(self, snap, top, dirty=False):
        if dirty:
            shutil.rmtree(top, ignore_errors=True)
        else:
            with snap.lock:
                snap.free.append(top)
        snap.sem.release()

    def drop(self, snap):
        """Remove the idle copies of a snapshot (its scheduled work is finished)."""
        with snap.lock:
            tops, snap.free = snap.free, []
        for t in tops:
            shutil.rmtree(t, ignore_errors=True)

    def close(self):
        shutil.rmtree(self.dir, ignore_errors=True)


def snap_root(top):
    r = os.path.join(top, "root")
    subs = [os.path.join(r, n) for n in os.listdir(r)]
    subs = [s for s in subs if os.path.isdir(s)]
    return subs[0] if len(subs) == 1 else r


def removable_of(pool, snap):
    if snap.removable is None:
        top = pool.acquire(snap)
        snap.removable = G.removable_paths(snap_root(top))
        pool.release(snap, top)
    return snap.removable


def src_lines(snap, root, comps):
    ls = []
    if snap.kind == "linux":
        ls.append("src fsroot " + root)
        if "x86" in comps:
            ls.append("src cpuid " + os.path.join(root, "cpuid"))       # Linux snapshots that also hold a CPUID dump
    elif snap.kind == "x86":
        ls.append("src cpuid " + root)
    else:
        if "linux" in comps:
            ls.append("src fsroot " + os.path.join(root, "fsroot"))
        if "x86" in comps:
            ls.append("src cpuid " + os.path.join(root, "cpuid"))
    return ls


def gen_config(rng, snap, plain=False):
    """(comps, env dict, filter lines, flags)"""
    if snap.kind == "linux":
        comps = "linux,stop"
    elif snap.kind == "x86":
        comps = "x86,stop"
    else:
        comps = "x86,linux,stop" if plain else rng.choice(["x86,linux,stop", "linux,x86,stop", "linux,stop", "x86,stop", "x86,linux,stop"])
    env = {"HWLOC_COMPONENTS": comps, "HWLOC_THISSYSTEM": "0"}
    if "linux" in comps and (plain or rng.random() < 0.8):
        env["HWLOC_DUMPED_HWDATA_DIR"] = "/var/run/hwloc"
    for k, v in snap.test_env:
        if plain or rng.random() < 0.5:
            env[k] = v
    if plain:
        return comps, env, [], 0
    if "x86" in comps and rng.random() < 0.4:
        env["HWLOC_X86_TOPOEXT_NUMANODES"] = "1"
    if rng.random() < 0.12:
        env["HWLOC_HIDE_ERRORS"] = rng.choice(["0", "1"])
    if rng.random() < 0.3:
        env["HWLOC_LIBXML_EXPORT"] = rng.choice(["0", "1"])
        env["HWLOC_LIBXML_IMPORT"] = rng.choice(["0", "1"])
    if "linux" in comps:
        if rng.random() < 0.1:
            env["HWLOC_USE_NUMA_DISTANCES"] = rng.choice(["0", "1", "3", "7"])
        if rng.random() < 0.1:
            env["HWLOC_DONT_MERGE_CLUSTER_GROUPS"] = "1"
        if rng.random() < 0.1:
            env["HWLOC_KNL_NUMA_QUIRK"] = "0"
    filters = S.filter_lines(rng)
    flags = 0
    for b in FLAG_POOL:
        if rng.random() < 0.3:
            flags |= b
    return comps, env, filters, flags


def case_text(case):
    snap, comps, env, filters, flags, removals = case
    ls = ["snapshot: " + snap.rel]
    ls += [("mutate: " if p.startswith("+") else "remove: ") + p for p in removals]
    ls += ["config: env %s %s" % (k, v) for k, v in sorted(env.items())]
    ls += ["config: " + f for f in filters]
    ls.append("flags: %d" % flags)
    return "\n".join(ls) + "\n"


def parse_case_text(txt, snaps_by_rel):
    snap, env, filters, flags, removals = None, {}, [], 0, []
    for l in txt.split("\n"):
        l = l.rstrip()
        if l.startswith("snapshot: "):
            rel = l[10:].strip()
            snap = snaps_by_rel.get(rel) or Snap(os.path.join(C.REPO, "tests/hwloc", rel))
        elif l.startswith("remove: ") or l.startswith("mutate: "):
            removals.append(l[8:])
        elif l.startswith("config: env "):
            kv = l[12:].split(" ", 1)
            env[kv[0]] = kv[1] if len(kv) > 1 else ""
        elif l.startswith("config: "):
            filters.append(l[8:])
        elif l.startswith("flags: "):
            flags = int(l[7:])
        elif l.startswith("--- "):
            break
    if snap is None:
        return None
    return (snap, env.get("HWLOC_COMPONENTS", "linux,stop"), env, filters, flags, removals)


def config_lines(env, filters):
    cfg = []
    for v in ENV_VARS:
        if v in ("HWLOC_FSROOT", "HWLOC_CPUID_PATH"):
            cfg.append("env " + v)
        elif v in env:
            cfg.append("env %s %s" % (v, env[v]))
        elif v in ENV_DEFAULTS:
            cfg.append("env %s %s" % (v, ENV_DEFAULTS[v]))
        else:
            cfg.append("env " + v)
    cfg += filters
    for name in [x for x in env.get("_blacklist", "").split(";") if x]:
        cfg.append("components %d %s" % (BLACKLIST_FLAG, name))
    cfg.append("bindself " + env.get("_bind", "all"))
    return cfg


def mutation_line(p, root):
    if p.startswith("+put "):
        return "put " + p[5:]
    if p.startswith("+ln "):
        return "symlink " + p[4:]
    return "hide " + p


def case_script(cid, case, top):
    snap, comps, env, filters, flags, removals = case
    root = snap_root(top)
    cfg = config_lines(env, filters)
    src = src_lines(snap, root, comps)
    ls = ["echo CASE %d" % cid, "echo RESET", "root " + root, "stash " + os.path.join(top, "stash"), "trace 1"]
    ls += [mutation_line(p, root) for p in removals]
    after = ["kinds"] if env.get("_kinds") else []
    if env.get("_srcequiv"):
        # a synthetic / XML source given through the API (reference M) and through environment variables
        kind = env["_srcequiv"]
        base = {k: v for k, v in env.items() if k not in ("HWLOC_COMPONENTS",)}
        ref = ["src synthetic pack:2 core:2 pu:2"] if kind == "synthetic" else ["src xml " + SRC_XML]
        ls += ["new"] + config_lines(base, filters) + ["flags %d" % flags] + ref + ["load", "dump", "echo NAME M", "check", "destroy"]
        for name in [n for n in VARIANTS if n.startswith("src-" + kind)]:
            venv, vsrc, pre, post = variant(name, snap, comps, base, root)
            ls += ["echo VARIANT " + name, "new"] + config_lines(venv, filters) + pre + ["flags %d" % flags, "load"] + post + ["dump", "echo NAME V", "check", "destroy"]
            if VARIANTS[name][0] == "same":
                ls += ["echo SAME M V"]
        ls += ["unhide", "echo END %d" % cid]
        return ls
    if env.get("_equiv"):
        # component-selection equivalence: reference load, then one load per variant, each compared with it
        ls += ["new"] + cfg + ["flags %d" % flags] + src + ["load", "dump", "echo NAME M", "check", "destroy"]
        for name in env["_equiv"].split(","):
            venv, vsrc, pre, post = variant(name, snap, comps, env, root)
            ls += ["echo VARIANT " + name, "new"] + config_lines(venv, filters) + pre + ["flags %d" % flags] + vsrc + ["load"] + post + ["dump", "echo NAME V", "check", "destroy"]
            if VARIANTS[name][0] == "same":
                ls += ["echo SAME M V"]
        ls += ["unhide", "echo END %d" % cid]
        return ls
    if env.get("_light"):
        # one load only: dump (wf_check, levels) + hwloc_topology_check; used for the systematic single removals
        ls += ["new"] + cfg + ["flags %d" % flags] + src + ["load"] + after + ["dump", "echo NAME M", "check", "destroy", "unhide", "echo END %d" % cid]
        return ls
    other = flags ^ 1
    ls += ["new"] + cfg + ["flags %d" % flags] + src + ["load"] + after + ["dump", "echo NAME M", "check", "xmlrt", "echo NAME X", "destroy"]
    ls += ["new"] + cfg + ["flags %d" % flags] + src + ["load", "dump", "echo NAME M2", "destroy"]
    ls += ["new"] + cfg + ["flags %d" % other] + src + ["echo OTHER", "load", "dump", "echo NAME O", "check", "destroy"]
    ls += ["echo SAME M M2", "echo SAME M X"]
    ls += ["echo DISALLOWED O M", "echo INCLVIEW M"] if flags & 1 else ["echo DISALLOWED M O", "echo INCLVIEW O"]
    ls += ["unhide", "echo END %d" % cid]
    return ls


# Component selections that must give the same topology as the case's own selection ("same"), or only the
# general clause: clean -1 or a well-formed topology ("any").  value = (expectation, builder(comps, env, root) ->
# (environment changes {name: value|None}, use the case's src lines?, lines before load, lines after load))
def _v(expect, envchg=None, src=True, pre=(), post=(), comps=None):
    return (expect, envchg or {}, src, pre if callable(pre) else list(pre), list(post), comps)


VARIANTS = {
    # HWLOC_COMPONENTS grammar
    "duplicate": _v("same", comps=lambda c: c.replace(",stop", "," + c.split(",")[0] + ",stop")),
    "unknown-name": _v("same", comps=lambda c: "nosuchcomponent," + c),
    "unknown-excluded": _v("same", comps=lambda c: "-nosuchcomponent," + c),
    "exclude-unselected": _v("same", comps=lambda c: "-pci,-opencl,-xml," + c),
    "exclude-unselected-phases": _v("same", comps=lambda c: "-pci:pci,-xml:global,-synthetic:1," + c),
    "empty-entries": _v("same", comps=lambda c: ",," + c.replace(",", ",,")),
    "verbose": _v("same", {"HWLOC_COMPONENTS_VERBOSE": "1"}),
    "nothing-after-stop": _v("same", comps=lambda c: c + ",x86,linux,pci"),
    "no-stop-others-excluded": _v("same", comps=lambda c: "-pci,-no_os," + ("-x86," if "x86" not in c else "") + ("-linux," if "linux" not in c else "") + c.replace(",stop", "")),
    # public API blacklisting
    "api-blacklist-unselected": _v("same", {"_blacklist": "pci;xml;synthetic:global"}),
    "api-blacklist-all-tweak": _v("same", {"_blacklist": "all:tweak"}),
    "api-errors": _v("same", pre=["components 0 pci", "components 3 pci", "components 1 nosuchcomponent"], post=["components 1 pci"]),
    "deprecated-linuxio-name": _v("same", {"HWLOC_COMPONENTS_VERBOSE": "1"}, comps=lambda c: c.replace("linux", "linuxio")),
    "deprecated-linuxpci-name": _v("same", comps=lambda c: c.replace("linux", "linuxpci")),
    "blacklist-twice": _v("same", {"_blacklist": "pci:pci;pci:io;pci", "HWLOC_COMPONENTS_VERBOSE": "1"}),
    "verbose-everything": _v("same", {"HWLOC_COMPONENTS_VERBOSE": "1", "HWLOC_HIDE_ERRORS": "0", "_blacklist": "xml"},
                             comps=lambda c: "nosuch,-pci,-xml:global,-linuxpci:0," + c.replace(",stop", "," + c.split(",")[0] + ",xml,stop")),
    "exclude-io-phases-by-old-name": _v("any", comps=lambda c: "-linuxio," + c),
    # backends forced by environment variables without HWLOC_COMPONENTS (topology.c: FSROOT > CPUID_PATH > SYNTHETIC > XMLFILE)
    "env-fsroot-only": _v("same", {"HWLOC_COMPONENTS": None, "_blacklist": "x86;pci;no_os"}),
    "env-fsroot-beats-synthetic-xml": _v("same", {"HWLOC_COMPONENTS": None, "_blacklist": "x86;pci;no_os", "HWLOC_SYNTHETIC": "pack:1 pu:1", "HWLOC_XMLFILE": "/nonexistent.xml"}),
    "env-cpuid-only": _v("same", {"HWLOC_COMPONENTS": None, "_blacklist": "linux;pci;no_os"}),
    # HWLOC_PCI_LOCALITY: file form = inline form; unparsable entries are skipped
    "pci-locality-file": _v("same", {"HWLOC_PCI_LOCALITY": lambda root, env: root + "/verif-pci-locality"},
                            pre=lambda root, env: ["put verif-pci-locality " + (env["HWLOC_PCI_LOCALITY"].replace(";", "\n") + "\n").encode().hex()]),
    "pci-locality-garbage": _v("same", {"HWLOC_PCI_LOCALITY": lambda root, env: "garbage;zz 0x1;;" + env["HWLOC_PCI_LOCALITY"] + ";no-space"}),
    # the cgroup/cpuset name found through the other files the backend knows (pre lines mutate the snapshot for this variant only)
    "cgroup-via-proc-self-cgroup": _v("same", pre=lambda root, env: ["hide proc/self/cpuset", "put proc/self/cgroup " + (
        "nocolon\n7:memory:/elsewhere\n" + ("0::" if env["_cgroup"] == "2" else "3:cpuset:") + env["_cpuset_name"] + "\n").encode().hex()]),
    "cgroup-via-pid-cpuset": _v("same", pre=lambda root, env: ["pid 4242", "put proc/4242/cpuset " + (env["_cpuset_name"] + "\n").encode().hex()]),
    "cgroup-via-pid-cgroup": _v("same", pre=lambda root, env: ["pid 4243", "put proc/4243/cgroup " + (("0::" if env["_cgroup"] == "2" else "9:cpuset:") + env["_cpuset_name"] + "\n").encode().hex()]),
    "cgroup-pid-without-files": _v("any", pre=["pid 4244"]),
    # the same source given through the API (reference) and through the environment
    "src-synthetic-env": _v("same", {"HWLOC_COMPONENTS": None, "HWLOC_SYNTHETIC": "pack:2 core:2 pu:2"}, src=False),
    "src-synthetic-env-components": _v("same", {"HWLOC_COMPONENTS": "synthetic,stop", "HWLOC_SYNTHETIC": "pack:2 core:2 pu:2"}, src=False),
    "src-synthetic-env-after-failed-xml": _v("same", {"HWLOC_COMPONENTS": "xml,synthetic,stop", "HWLOC_SYNTHETIC": "pack:2 core:2 pu:2"}, src=False),
    "src-xml-env": _v("same", {"HWLOC_COMPONENTS": None, "HWLOC_XMLFILE": lambda root, env: SRC_XML}, src=False),
    "src-xml-env-components": _v("same", {"HWLOC_COMPONENTS": "xml,stop", "HWLOC_XMLFILE": lambda root, env: SRC_XML}, src=False),
    "src-xml-api-after-synthetic-api": _v("same", {"HWLOC_COMPONENTS": None}, src=False, pre=lambda root, env: ["src synthetic pack:1 pu:1", "src xml " + SRC_XML]),
    "src-xml-annotate-global": _v("any", {"HWLOC_COMPONENTS": None, "HWLOC_ANNOTATE_GLOBAL_COMPONENTS": "1", "HWLOC_XMLFILE": lambda root, env: SRC_XML}, src=False),
    "src-synthetic-api-after-xml-api": _v("same", {"HWLOC_COMPONENTS": None}, src=False, pre=lambda root, env: ["src xml " + SRC_XML, "src synthetic pack:2 core:2 pu:2"]),
    "src-xml-env-beaten-by-synthetic": _v("any", {"HWLOC_COMPONENTS": None, "HWLOC_SYNTHETIC": "pack:2 core:2 pu:2", "HWLOC_XMLFILE": lambda root, env: SRC_XML}, src=False),
    # selecting nothing usable
    "self-excluded": _v("any", comps=lambda c: "".join("-%s," % x for x in c.split(",") if x != "stop") + c),
    "api-blacklist-self": _v("any", {"_blacklist": "linux;x86"}),
    "all-cpu-phase-excluded": _v("any", {"_blacklist": "all:cpu"}),
}


SRC_XML = os.path.join(C.REPO, "tests/hwloc/xml/16amd64-8n2c-cpusets.xml")
GRAMMAR_VARIANTS = ["blacklist-twice", "verbose-everything", "duplicate", "unknown-name", "unknown-excluded", "exclude-unselected", "exclude-unselected-phases", "empty-entries", "verbose",
                    "nothing-after-stop", "no-stop-others-excluded", "api-blacklist-unselected", "api-blacklist-all-tweak", "api-errors",
                    "self-excluded", "api-blacklist-self", "all-cpu-phase-excluded"]


def variant(name, snap, comps, env, root):
    expect, envchg, use_src, pre, post, fcomps = VARIANTS[name]
    venv = dict(env)
    if callable(pre):
        pre = pre(root, env)
    for k, v in envchg.items():
        if callable(v):
            v = v(root, env)
        if v is None:
            venv.pop(k, None)
        else:
            venv[k] = v
    if fcomps:
        venv["HWLOC_COMPONENTS"] = fcomps(comps)
    return venv, (src_lines(snap, root, comps) if use_src else []), pre, post


def trace_first_load_only(ls):
    """The look_sysfsnode model is compared on the first load of a case; the other loads of the case (second load,
    other view, variants) read the same files."""
    if "echo NAME M" in ls:
        i = ls.index("echo NAME M")
        return ls[:i + 1] + ["trace 0"] + ls[i + 1:]
    return ls


# malloc()ed memory comes back filled with this byte in the three processes a chunk is run in (ASan fills with 0xbe by
# default, which hides uninitialised reads behind a constant): a result that depends on it is an uninitialised read
HEAP_FILLS = (0, 255)


def first_dumps(raw):
    """{cid: (load line, first dump block as text)} from raw harness output."""
    res, cur, state, blk, load = {}, None, 0, [], None
    for line in raw.split("\n"):
        if line.startswith("echo CASE "):
            cur, state, blk, load = int(line[10:]), 0, [], None
        elif cur is None:
            continue
        elif line.startswith("load ") and load is None:
            load = line
            res[cur] = (load, None)
        elif state == 0 and line.startswith("T "):
            state, blk = 1, [line]
        elif state == 1:
            blk.append(line)
            if line == "E":
                state = 2
                res[cur] = (load, "\n".join(blk))
    return res


def heap_fill_script(cid, case, top):
    """only the main load of the case: dump, no tracing"""
    snap, comps, env, filters, flags, removals = case
    e2 = {k: v for k, v in env.items() if k not in ("_equiv", "_srcequiv", "_kinds")}
    e2["_light"] = "1"
    return [l for l in case_script(cid, (snap, comps, e2, filters, flags, removals), top) if l not in ("trace 1", "check")]


def run_chunk(pool, snapexe, drv, chunk):
    """chunk: [(cid, case)] all of one snapshot.  Returns {cid: result dict}."""
    snap = chunk[0][1][0]
    results = {}
    todo = list(chunk)
    while todo:
        top = pool.acquire(snap)
        script = []
        for cid, case in todo:
            script += trace_first_load_only(case_script(cid, case, top))
        rc, out, err = C.sh([snapexe], input=("\n".join(script) + "\n").encode(), env=_env(), timeout=120 + 40 * len(todo))
        rc2, out2, err2 = C.sh([drv, "dumps"], input=out, timeout=600)
        want_objs = {cid for cid, case in todo if case[2].get("_io") or case[2].get("_scenario")}
        if want_objs:
            collect_objs(out.decode(errors="replace"), want_objs, results)
        cur = None
        done = set()
        for line in out2.decode(errors="replace").split("\n"):
            m = re.match(r"echo CASE (\d+)$", line)
            if m:
                cur = int(m.group(1))
                results.setdefault(cur, {})["lines"] = []
                continue
            m = re.match(r"echo END (\d+)$", line)
            if m:
                done.add(int(m.group(1)))
                cur = None
                continue
            if cur is not None:
                results[cur]["lines"].append(line)
        if rc == 0 and rc2 == 0:
            # heap-content determinism: the main load of every case again, in processes whose malloc() returns other bytes
            cands = [(cid, case) for cid, case in todo if not case[2].get("_srcequiv") and not case[2].get("_noheap")]
            if cands:
                # (the runs are compared with one another, not with the run above: hide/unhide renames change the readdir
                #  order of a memory file system, which is the same in every run only from the second run of a script on)
                script2 = []
                for cid, case in cands:
                    script2 += heap_fill_script(cid, case, top)
                got = {}
                for fill in HEAP_FILLS:
                    e = _env()
                    e["ASAN_OPTIONS"] += ":malloc_fill_byte=%d:max_malloc_fill_size=268435456" % fill
                    rc3, out3, err3 = C.sh([snapexe], input=("\n".join(script2) + "\n").encode(), env=e, timeout=120 + 20 * len(cands))
                    got[fill] = (rc3, first_dumps(out3.decode(errors="replace")))
                (rca, da), (rcb, db) = got[HEAP_FILLS[0]], got[HEAP_FILLS[1]]
                for cid, case in cands:
                    a, b = da.get(cid), db.get(cid)
                    if a is None and b is None:
                        continue
                    if (a is None or b is None) and (rca != 0 or rcb != 0):
                        continue          # a process died: reported by the main run
                    if a is None or b is None or a[0] != b[0] or a[1] != b[1]:
                        diff = "load lines %s / %s" % (a[0] if a else None, b[0] if b else None)
                        if a and b and a[1] and b[1]:
                            la, lb = a[1].split("\n"), b[1].split("\n")
                            k = next((i for i, (x, y) in enumerate(zip(la, lb)) if x != y), min(len(la), len(lb)))
                            fa, fb = (la[k] if k < len(la) else "<end>").split(" "), (lb[k] if k < len(lb) else "<end>").split(" ")
                            diff = "nobj %d/%d; first differing line %s: %s" % (len(la), len(lb), " ".join(fa[:3]), " ".join("%s->%s" % (x, y) for x, y in zip(fa, fb) if x != y)[:300])
                        results[cid].setdefault("heap", []).append("malloc fill 0x%02x vs 0x%02x: %s" % (HEAP_FILLS[0], HEAP_FILLS[1], diff))
            pool.release(snap, top)
            break
        # the process died: the case in flight is the first one not finished
        bad = next((cid for cid, _ in todo if cid not in done), None)
        pool.release(snap, top, dirty=True)
        if bad is None:
            # everything finished, the failure is at exit (leak report): attribute by running each case alone
            if len(todo) == 1:
                results[todo[0][0]]["crash"] = (rc, err.decode(errors="replace"), err2.decode(errors="replace"))
                break
            for item in todo:
                results.update(run_chunk(pool, snapexe, drv, [item]))
            break
        results.setdefault(bad, {"lines": []})
        results[bad]["crash"] = (rc if rc != 0 else rc2, err.decode(errors="replace"), err2.decode(errors="replace"))
        todo = [(cid, c) for cid, c in todo if cid not in done and cid != bad]
    return results


IO_TYPES = (16, 17, 18)     # Bridge, PCIDevice, OSDevice


def unq(x):
    """inverse of hwv_pstr (harness/hwv_dump.h): "-" = NULL, else quoted with %xx escapes"""
    if x is None or x == "-":
        return None
    x = x.strip('"')
    return re.sub(r"%([0-9a-f]{2})", lambda m: chr(int(m.group(1), 16)), x)


def parse_obj(line):
    f = dict(x.split("=", 1) for x in line.split(" ")[2:] if "=" in x)
    inf = {}
    if f.get("inf", "-") != "-":
        for kv in f["inf"].split(";"):
            k, _, v = kv.partition("=")
            inf.setdefault(unq(k), unq(v))
    return {"id": int(line.split(" ")[1]), "ty": int(f.get("ty", -1)), "os": int(f.get("os", -1)), "nm": unq(f.get("nm")), "st": unq(f.get("st")),
            "at": f.get("at", "-"), "inf": inf, "par": f.get("par"), "ccs": (int(f["ccs"][2:], 16) if f.get("ccs", "-") not in ("-",) and f["ccs"][0] == "0" else None)}


def collect_objs(raw, want, results):
    """From the raw harness output: for each wanted case the objects of its first dump (results[cid]['objs'],
    None if there is no dump) and the 'kinds' line."""
    cur, taken = None, False
    for line in raw.split("\n"):
        if line.startswith("echo CASE "):
            cid = int(line[10:])
            cur, taken = (cid if cid in want else None), False
            if cur is not None:
                results.setdefault(cur, {})["objs"] = None
        elif cur is None:
            continue
        elif line.startswith("kinds ") and not taken:
            results[cur]["kinds"] = line
        elif line.startswith("T ") and not taken:
            results[cur]["objs"] = []
        elif line == "E":
            taken = True
        elif line.startswith("O ") and not taken and results[cur]["objs"] is not None:
            results[cur]["objs"].append(parse_obj(line))
    for cid in want:
        objs = results.get(cid, {}).get("objs")
        if objs is not None:
            for o in objs:
                ok = (o["par"] or "-").isdigit() and int(o["par"]) < len(objs)
                o["parccs"] = objs[int(o["par"])]["ccs"] if ok else None
                o["partype"] = objs[int(o["par"])]["ty"] if ok else None
            io = {t: [] for t in IO_TYPES}
            for o in objs:
                if o["ty"] in IO_TYPES:
                    at = ",".join(a for a in o["at"].split(",") if not a.startswith("bdepth:"))
                    io[o["ty"]].append((at, o["nm"], o["st"]))
            for t in io:
                io[t].sort()
            results[cid]["io"] = io


def obj_matches(o, pat):
    for k in ("ty", "nm", "st", "os", "parccs", "partype"):
        if k in pat and o[k] != pat[k]:
            return False
    if "at" in pat and pat["at"] not in o["at"]:
        return False
    for k, v in pat.get("inf", {}).items():
        if o["inf"].get(k) != v:
            return False
    for k in pat.get("noinf", []):
        if k in o["inf"]:
            return False
    return True


def expect_verdicts(name, exp, r):
    """What a fabricated scenario promises, evaluated on the objects of the dump."""
    out = []
    objs = r.get("objs")
    load = next((l for l in r.get("lines", []) if l.startswith("load ")), "")
    if exp.get("load") == 0 and "rc=0" not in load:
        return [("fabricated:%s:load" % name, "scenario %s must load: %s" % (name, load))]
    if exp.get("load") == -1 and "rc=-1" not in load:
        return [("fabricated:%s:load" % name, "scenario %s must be rejected: %s" % (name, load))]
    if objs is None:
        return out
    for pat in exp.get("objs", []):
        if not any(obj_matches(o, pat) for o in objs):
            near = [(o["nm"], o["st"], o["inf"], o["at"]) for o in objs if o["ty"] == pat.get("ty") and ("nm" not in pat or o["nm"] == pat["nm"])][:3]
            out.append(("fabricated:%s:object-missing" % name, "scenario %s: no object matches %s; candidates %s" % (name, pat, near)))
    for pat in exp.get("none", []):
        if any(obj_matches(o, pat) for o in objs):
            out.append(("fabricated:%s:object-unexpected" % name, "scenario %s: an object matches %s" % (name, pat)))
    for ty, n in exp.get("count", []):
        got = sum(1 for o in objs if o["ty"] == ty)
        if got != n:
            out.append(("fabricated:%s:count-type%d" % (name, ty), "scenario %s: %d objects of type %d, expected %d" % (name, got, ty, n)))
    for ty, n in exp.get("mincount", []):
        got = sum(1 for o in objs if o["ty"] == ty)
        if got < n:
            out.append(("fabricated:%s:count-type%d" % (name, ty), "scenario %s: %d objects of type %d, expected at least %d" % (name, got, ty, n)))
    root = objs[0]["inf"] if objs else {}
    for k, v in exp.get("rootinf", {}).items():
        if root.get(k) != v:
            out.append(("fabricated:%s:root-info-%s" % (name, k), "scenario %s: Machine info %s=%r, expected %r" % (name, k, root.get(k), v)))
    for k in exp.get("norootinf", []):
        if k in root:
            out.append(("fabricated:%s:root-info-%s" % (name, k), "scenario %s: Machine info %s=%r must be absent" % (name, k, root[k])))
    if "kinds_n" in exp:
        m = re.match(r"kinds n=(-?\d+)", r.get("kinds", ""))
        if not m or int(m.group(1)) != exp["kinds_n"]:
            out.append(("fabricated:%s:cpukinds" % name, "scenario %s: %s, expected %d CPU kind(s)" % (name, r.get("kinds"), exp["kinds_n"])))
    return out


def io_filters_of(case):
    """(Bridge, PCIDevice, OSDevice) filter numbers of a case (I/O types default to KEEP_NONE = 1)."""
    f = {16: 1, 17: 1, 18: 1}
    for l in case[3]:
        m = re.match(r"filter (\d+|io|all) (\d+)$", l)
        if m and m.group(1) in ("io", "all"):
            for t in f:
                f[t] = int(m.group(2))
        elif m and int(m.group(1)) in f:
            f[int(m.group(1))] = int(m.group(2))
    return tuple(f[t] for t in IO_TYPES)


def sub_multiset(a, b):
    b = list(b)
    for x in a:
        if x in b:
            b.remove(x)
        else:
            return False
    return True


def judge_io(run, cases, results):
    """Spec on the I/O type filters (the filter of a type decides that type only): against the load of the same
    source with the three I/O types KEEP_ALL, a type filtered KEEP_ALL shows the same objects whatever the other
    two filters are (host bridges only a sub-multiset: they exist above kept PCI objects), KEEP_IMPORTANT a sub-multiset, KEEP_NONE nothing."""
    names = {16: "Bridge", 17: "PCIDevice", 18: "OSDevice"}
    groups = {}
    for case, r in zip(cases, results):
        if r is None or not r.get("io") or case[5]:
            continue
        groups.setdefault((case[0].rel, tuple(sorted((k, v) for k, v in case[2].items()))), []).append((case, r))
    for key, items in groups.items():
        ref = next((r for c, r in items if io_filters_of(c) == (0, 0, 0)), None)
        if ref is None:
            continue
        run.cov["io_reference_objects"] = run.cov.get("io_reference_objects", 0) + sum(len(v) for v in ref["io"].values())
        for case, r in items:
            fl = io_filters_of(case)
            for i, t in enumerate(IO_TYPES):
                got, full = r["io"][t], ref["io"][t]
                if t == 16 and fl[i] == 0:
                    # host bridges are created by hwloc_pcidisc_tree_attach() above the PCI objects that were kept:
                    # they depend on the PCIDevice filter by design (subset); PCI-to-PCI bridges must not
                    host = lambda l: [x for x in l if x[0].startswith("bup:0")]
                    p2p = lambda l: [x for x in l if not x[0].startswith("bup:0")]
                    ok, rel = p2p(got) == p2p(full) and sub_multiset(host(got), host(full)), "(PCI-to-PCI: same set, host bridges: subset) differ from"
                    if not ok:
                        got, full = p2p(got), p2p(full)
                elif fl[i] == 0:
                    ok, rel = got == full, "differ from"
                elif fl[i] == 1:
                    ok, rel = not got, "present although KEEP_NONE, unlike"
                else:
                    ok, rel = sub_multiset(got, full), "not a subset of"
                run.count("io|%s|%s|%d|%s" % (case[0].rel, fl, t, len(got)), nontrivial=bool(full), kind="io-filter-spec:%s" % names[t])
                if not ok:
                    extra = [x for x in got if x not in full][:3]
                    lost = [x for x in full if x not in got][:3]
                    run.violation("io-filter:%s:%s-others-%s" % (names[t], {0: "all", 1: "none", 3: "important"}.get(fl[i], fl[i]),
                                                                 "-".join({0: "all", 1: "none", 3: "important"}.get(x, str(x)) for j, x in enumerate(fl) if j != i)),
                                  "%s objects under filters (Bridge,PCIDevice,OSDevice)=%s %s the KEEP_ALL/KEEP_ALL/KEEP_ALL load of the same snapshot: %d vs %d objects; extra %s missing %s [%s]"
                                  % (names[t], fl, rel, len(got), len(full), extra, lost, case[0].rel),
                                  case_text(case))


def verdicts(r):
    """[(key, what)] violations of one executed case; also fills r['loaded']."""
    out = []
    lines = r["lines"]
    loads = [l for l in lines if l.startswith("load ")]
    other_at = lines.index("echo OTHER") if "echo OTHER" in lines else len(lines)
    main_loads = [l for l in lines[:other_at] if l.startswith("load ")]
    other_loads = [l for l in lines[other_at:] if l.startswith("load ")]
    ok_main = bool(main_loads) and "rc=0" in main_loads[0]
    r["loaded"] = ok_main
    if "crash" in r:
        rc, err, err2 = r["crash"]
        out.append(("crash:" + crash_key(rc, err if rc != 0 and err.strip() else err + err2), "crash / sanitizer report / hang while loading"))
        return out
    for h in r.get("heap", [])[:1]:
        out.append(("heap-content-nondeterminism", "the same load gives another result when malloc() returns memory filled with another byte (an uninitialised read reaches the result): " + h))
    for l in lines:
        if l.startswith("load ") and "rc=0" not in l and "rc=-1" not in l:
            out.append(("load-rc", "hwloc_topology_load returned neither 0 nor -1: " + l))
        if l.startswith("hide failed") or l.startswith("unhide-failed") or l.startswith("put failed"):
            out.append(("infrastructure:hide", l))
    has_variants = any(l.startswith("echo VARIANT ") for l in lines)
    if has_variants:
        out += variant_verdicts(lines)
    elif len(main_loads) >= 2 and ("rc=0" in main_loads[0]) != ("rc=0" in main_loads[1]):
        out.append(("nondeterministic:load-rc", "two loads of the same snapshot and configuration: %s / %s" % (main_loads[0], main_loads[1])))
    for l in lines:
        if l.startswith("wf VIOLATION"):
            clauses = sorted(set(re.findall(r"([a-z-]+)@", l)))
            out.append(("wf:" + ",".join(clauses), "loaded topology violates WF clause(s): " + l[:300]))
        elif l.startswith("lnode DIFF"):
            out.append(("correspondence:linuxnode", "model of look_sysfsnode (Text/LinuxNode.v) disagrees with the memory objects the backend requested: " + l[:600]))
        elif l == "mreqs chain BAD":
            out.append(("memory-requests:chain", "a memory request of the Linux backend breaks the request invariants (NUMA nodeset = {os_index}; MemCache followed by the NUMA node sharing its sets)"))
        elif l.startswith("xmlkinds "):
            f = l.split(" ")
            if len(f) == 3 and f[1] != f[2]:
                out.append(("xml-reload:cpukinds", "the topology reloaded from its own XML export (same flags and filters) has %s CPU kinds, the original has %s" % (f[2], f[1])))
        elif l.startswith("levels DIFF"):
            out.append(("correspondence:levels", "model of hwloc_connect_levels disagrees with the implementation: " + l[:300]))
        elif l.startswith("check abort"):
            out.append(("topology_check-abort:" + l[12:].strip(), "hwloc_topology_check() aborts on the loaded topology: " + l))
        elif l.startswith("check2 abort"):
            out.append(("topology_check-abort:xml-reload:" + l[13:].strip(), "hwloc_topology_check() aborts on the topology reloaded from its XML export: " + l))
        elif l.startswith("xmlrt export=") and not l.endswith("load=0"):
            out.append(("xml-reload-fails", "XML export of a loaded topology cannot be exported/reloaded: " + l))
        elif l.startswith("same M M2 DIFF"):
            fields = sorted(set(re.findall(r"(\w+)=[^ ]*->", l)))
            out.append(("nondeterministic:" + ",".join(fields), "two loads of the same snapshot and configuration differ: " + l[:400]))
        elif l.startswith("same M X DIFF") and not any(x.startswith("wf VIOLATION") for x in lines[:other_at]):
            out.append((xml_diff_key(l), "topology reloaded from its own XML export differs: " + l[:500]))
        elif l.startswith("disallowed VIOLATION"):
            clauses = sorted(set(re.findall(r"([a-z-]+)@", l)))
            out.append(("disallowed:" + ",".join(clauses), "INCLUDE_DISALLOWED view vs default view: " + l[:300]))
    if main_loads and other_loads:
        flags_incl_is_other = "echo INCLVIEW O" in lines
        d_ok = ("rc=0" in main_loads[0]) if flags_incl_is_other else ("rc=0" in other_loads[0])
        i_ok = ("rc=0" in other_loads[0]) if flags_incl_is_other else ("rc=0" in main_loads[0])
        if d_ok and not i_ok:
            out.append(("disallowed:incl-load-fails", "the default load succeeds but the INCLUDE_DISALLOWED load of the same source fails"))
    return out


def variant_verdicts(lines):
    """Component-selection equivalence: sections 'echo VARIANT <name>' ... of a case with _equiv."""
    out = []
    ref_load = next((l for l in lines if l.startswith("load ")), None)
    cur, sec = None, {}
    for l in lines:
        if l.startswith("echo VARIANT "):
            cur = l[13:]
            sec[cur] = []
        elif cur is not None:
            sec[cur].append(l)
    for name, ls in sec.items():
        expect = VARIANTS[name][0]
        load = next((l for l in ls if l.startswith("load ")), None)
        if expect == "same":
            if load is None or ref_load is None or ("rc=0" in load) != ("rc=0" in ref_load):
                out.append(("component-selection:%s:load-rc" % name, "component selection variant '%s' must behave like the plain selection: load %s vs %s" % (name, load, ref_load)))
            for l in ls:
                if l.startswith("same M V DIFF"):
                    out.append(("component-selection:%s" % name, "component selection variant '%s' gives another topology than the plain selection: %s" % (name, l[:400])))
        if name == "api-errors":
            got = [l for l in ls if l.startswith("components ")]
            want = ["components rc=-1 errno=EINVAL"] * 3 + ["components rc=-1 errno=EBUSY"]
            if got != want:
                out.append(("set_components-errors", "hwloc_topology_set_components(flags 0 / unknown flag / unknown name / after load) returned %s, expected %s" % (got, want)))
        else:
            for l in ls:
                if l.startswith("components ") and "rc=0" not in l:
                    out.append(("set_components-fails:%s" % name, "hwloc_topology_set_components(BLACKLIST, valid name) failed in variant %s: %s" % (name, l)))
    return out


def xml_diff_key(l):
    """same M X DIFF nlines=a/b | O<id> ty=<t> f=a->f=b ... | ...   -> a key naming the defect class"""
    parts = [p.strip() for p in l.split("|")[1:]]
    if not parts:
        return "xml-reload:structure"
    classes = set()
    for p in parts:
        m = re.match(r"O\d+ ty=(\d+) (.*)$", p)
        if not m:
            classes.add("structure")
            continue
        ty = int(m.group(1))
        fields = sorted(set(re.findall(r"(\w+)=[^ ]*->", m.group(2))))
        if ty in (14, 15) and fields == ["ccs"]:
            classes.add("memory-child-complete-cpuset")
        else:
            classes.add("%s@type%d" % ("+".join(fields) or "line", ty))
    return "xml-reload:" + ",".join(sorted(classes))


class SnapSearch:
    def __init__(self, run, snapexe, drv, pool):
        self.run, self.snapexe, self.drv, self.pool = run, snapexe, drv, pool

    def exec_cases(self, cases):
        """cases: list of case tuples.  Returns list of result dicts (same order)."""
        by_snap = {}
        for cid, c in enumerate(cases):
            by_snap.setdefault(c[0].rel, []).append((cid, c))
        chunks = []
        for rel, items in by_snap.items():
            # bigger snapshots: smaller chunks (more parallelism per unpack is not worth it)
            size = 12
            for k in range(0, len(items), size):
                chunks.append(items[k:k + size])
        # longest first
        chunks.sort(key=lambda ch: -len(ch))
        pending = {}
        for ch in chunks:
            pending[ch[0][1][0].rel] = pending.get(ch[0][1][0].rel, 0) + 1
        plock = threading.Lock()

        def work(ch):
            r = run_chunk(self.pool, self.snapexe, self.drv, ch)
            snap = ch[0][1][0]
            with plock:
                pending[snap.rel] -= 1
                last = pending[snap.rel] == 0
            if last:
                self.pool.drop(snap)
            return r
        results = {}
        with cf.ThreadPoolExecutor(max_workers=C.NCPU) as ex:
            for r in ex.map(work, chunks):
                results.update(r)
        return [results.get(i) for i in range(len(cases))]

    def fails_with(self, case, key):
        r = self.exec_cases([case])[0]
        if r is None:
            return False
        vs = verdicts(r)
        if case[2].get("_scenario") in SCENARIOS:
            vs += expect_verdicts(case[2]["_scenario"], SCENARIOS[case[2]["_scenario"]], r)
        return any(k == key for k, _ in vs)

    def shrink(self, case, key):
        snap, comps, env, filters, flags, removals = case
        budget = [40]

        def test(c):
            if budget[0] <= 0:
                return False
            budget[0] -= 1
            return self.fails_with(c, key)

        if not test(case):
            return case, False          # not reproducible in isolation
        removals = G.ddmin(removals, lambda rs: test((snap, comps, env, filters, flags, list(rs)))) if removals else removals
        if filters and test((snap, comps, env, [], flags, removals)):
            filters = []
        elif len(filters) > 1:
            filters = G.ddmin(filters, lambda fs: test((snap, comps, env, list(fs), flags, removals)))
        for b in (FLAG_POOL if not env.get("_scenario") else []):      # a scenario's expectation is about its own flags and environment
            if flags & b and test((snap, comps, env, filters, flags & ~b, removals)):
                flags &= ~b
        for k in (sorted(env) if not env.get("_scenario") else []):
            if k in ("HWLOC_COMPONENTS", "HWLOC_THISSYSTEM"):
                continue
            e2 = {a: v for a, v in env.items() if a != k}
            if test((snap, comps, e2, filters, flags, removals)):
                env = e2
        return (snap, comps, env, filters, flags, removals), True

    def judge(self, cases, results, label):
        found = {}
        for case, r in zip(cases, results):
            snap = case[0]
            if r is None:
                self.run.violation("not-run:" + snap.kind, "case did not run", case_text(case), no_input=True)
                continue
            vs = verdicts(r)
            if case[2].get("_scenario") in SCENARIOS:
                vs += expect_verdicts(case[2]["_scenario"], SCENARIOS[case[2]["_scenario"]], r)
            tr = "\n".join(l for l in r["lines"] if l.startswith(("load", "wf", "levels", "check", "xmlrt", "same", "disallowed")))
            self.run.count(case_text(case) + tr, nontrivial=r.get("loaded", False),
                           sample={"case": case_text(case)[:300], "verdicts": tr[:300]},
                           kind="%s:%s:%s" % (snap.kind, label, "loaded" if r.get("loaded") else "rejected"))
            if r.get("loaded") and not vs:
                self.run.cov["traces_validated_against_impl"] += 1
            ln = self.run.cov.setdefault("linuxnode", {"loads_agreeing": 0, "requests_agreeing": 0, "escapes": {}})
            for l in r["lines"]:
                if l.startswith("lnode ok n="):
                    ln["loads_agreeing"] += 1
                    ln["requests_agreeing"] += int(l[11:])
                elif l.startswith("lnode ESCAPE "):
                    ln["escapes"][l[13:]] = ln["escapes"].get(l[13:], 0) + 1
            for key, what in vs:
                found.setdefault(key, []).append((case, what, r))
        for key, items in sorted(found.items()):
            # the smallest removal list first
            items.sort(key=lambda it: (len(it[0][5]), len(it[0][3]), it[0][0].rel))
            if any(re.fullmatch(k["key"], key) for k in self.run.known):
                self.run.violation(key, items[0][1], case_text(items[0][0]))
                continue
            case, what, r = items[0]
            small, repro = self.shrink(case, key)
            txt = case_text(small)
            if not repro:
                txt += "--- note\nnot reproduced when the case runs alone in a fresh process (order/state dependent); %d case(s) of this run hit the key\n" % len(items)
            txt += "--- verdict lines\n" + "\n".join(l for l in r["lines"] if not l.startswith(("config", "new", "destroy", "hide ok", "unhide")))[:3000]
            if "crash" in r:
                txt += "\n--- stderr\n" + r["crash"][1][-3000:] + r["crash"][2][-1000:]
            self.run.violation(key, "%s [%s; %d case(s)]" % (what, snap_label(small), len(items)), txt,
                               no_input=key.startswith("correspondence:") and not any(k.startswith("wf:") for k in found))


def snap_label(case):
    return "%s %s flags=%d filters=%d removed=%d" % (case[0].rel, case[1], case[4], len(case[3]), len(case[5]))


def make_snapshot_cases(run, pool, snaps):
    rng = run.rng
    quick = run.tier == "quick"
    cases = []       # (label, case)
    enumerated = run.cov.setdefault("enumerated_completely", {})
    for snap in snaps:
        rem = removable_of(pool, snap)
        sysrem = [p for p in rem if "sys/devices/system/" in p or snap.kind == "x86" or "/cpuid/" in p]
        # 1. pristine, the way the test-suite loads it, then with INCLUDE_DISALLOWED
        comps, env, filters, flags = gen_config(rng, snap, plain=True)
        cases.append(("pristine", (snap, comps, env, [], 0, [])))
        # 2. configurations without removal
        for _ in range(3 if quick else 16):
            comps, env, filters, flags = gen_config(rng, snap)
            cases.append(("config", (snap, comps, env, filters, flags, [])))
        # 3. random removal sets (up to 40 paths) x random configuration
        for _ in range(14 if quick else 24):
            comps, env, filters, flags = gen_config(rng, snap, plain=rng.random() < 0.3)
            pool_paths = rem
            if snap.kind == "x86+linux":
                pool_paths = [p for p in rem if ("fsroot/" in p and "linux" in comps) or ("cpuid/" in p and "x86" in comps)] or rem
            cases.append(("random", (snap, comps, env, filters, flags, G.random_set(rng, pool_paths, 40))))
        # 4. enumerated single / pairwise removals under sys/devices/system (x86: the whole dump) for small snapshots
        comps, env, filters, flags = gen_config(rng, snap, plain=True)
        if quick:
            # biased to the files discovery reads (cpumap, *_siblings, online, meminfo ...)
            singles = sorted(set(rng.choices(sysrem, weights=[G.interest(p) for p in sysrem], k=24))) if sysrem else []
            pairs = []
        else:
            # small snapshots: every single removal (<= 100 removable paths) and every pair (<= 16) is enumerated;
            # larger ones are sampled, biased to the files discovery reads
            if len(sysrem) <= 100:
                singles = list(sysrem)
                enumerated.setdefault("singles", []).append(snap.rel)
            else:
                singles = sorted(set(rng.choices(sysrem, weights=[G.interest(p) for p in sysrem], k=100)))
            if 2 <= len(sysrem) <= 16:
                pairs = [(a, b) for i, a in enumerate(sysrem) for b in sysrem[i + 1:] if not b.startswith(a + "/")]
                enumerated.setdefault("pairs", []).append(snap.rel)
            elif len(sysrem) > 16:
                pairs = [tuple(sorted(rng.sample(sysrem, 2))) for _ in range(50)]
            else:
                pairs = []
        # (thorough: the heap-content clause on every third enumerated removal; quick: on all of them)
        nh = dict(env)
        nh["_noheap"] = "1"
        for k, p in enumerate(singles):
            cases.append(("single", (snap, comps, env if quick or k % 3 == 0 else nh, [], rng.choice([0, 0, 1]), [p])))
        for k, (a, b) in enumerate(pairs):
            cases.append(("pair", (snap, comps, env if quick or k % 3 == 0 else nh, [], rng.choice([0, 0, 1]), G.normalise([a, b]))))
    return cases


def class_of(p):
    return re.sub(r"\d+", "N", p)


def class_cases(run, pool, snaps):
    """Systematic single removals of attribute files under sys/devices/system (x86: the cpuid dump): one
    light case per (snapshot x file-name class) - the instance rotates with the seed - in the quick tier,
    up to 3 instances per class in the thorough tier."""
    quick = run.tier == "quick"
    cases = []
    nclasses = 0
    for snap in snaps:
        rem = removable_of(pool, snap)
        sysrem = [p for p in rem if "sys/devices/system/" in p or snap.kind == "x86" or "cpuid/" in p]
        classes = {}
        for p in sysrem:
            classes.setdefault(class_of(p), []).append(p)
        comps, env, filters, flags = gen_config(run.rng, snap, plain=True)
        env = dict(env)
        env["_light"] = "1"
        for cls in sorted(classes):
            inst = classes[cls]
            nclasses += 1
            k = 1 if quick else min(len(inst), 3)
            start = (run.seed * 7 + len(cls)) % len(inst)
            step = max(1, len(inst) // k)
            for j in range(k):
                e = env
                if (nclasses + j + run.seed) % 4:
                    e = dict(env)
                    e["_noheap"] = "1"        # the heap-content clause on every fourth class case (every snapshot has dozens)
                cases.append(("class", (snap, comps, e, [], 0, [inst[(start + j * step) % len(inst)]])))
    run.cov["file_name_classes"] = nclasses
    return cases


def io_cases(run, pool, snaps):
    """I/O type filters on the snapshots holding a PCI bus: the full (Bridge, PCIDevice, OSDevice) in
    {KEEP_ALL, KEEP_NONE, KEEP_IMPORTANT}^3 matrix (27 light loads per snapshot, compared by judge_io), a few full
    cases (second load, XML round trip, disallowed view) with the I/O types separated, and single removals of
    files below sys/bus/pci, sys/class and sys/devices/pci* - one instance per file-name class, a seed-rotated
    slice of the classes in the quick tier - loaded with I/O filters that disagree."""
    rng = run.rng
    quick = run.tier == "quick"
    cases = []
    used = []
    for snap in snaps:
        if snap.kind != "linux":
            continue
        rem = removable_of(pool, snap)
        iorem = [p for p in rem if "sys/bus/pci/" in p or "sys/class/" in p or re.search(r"sys/devices/pci[^/]*/", p)]
        if not any("sys/bus/pci/devices/" in p for p in rem):
            continue
        used.append(snap.rel)
        comps, env, filters, flags = gen_config(rng, snap, plain=True)
        env = dict(env)
        env["_light"] = "1"
        env["_io"] = "1"
        for b in (0, 1, 3):
            for pc in (0, 1, 3):
                for o in (0, 1, 3):
                    cases.append(("io-matrix", (snap, comps, env, ["filter 16 %d" % b, "filter 17 %d" % pc, "filter 18 %d" % o], 0, [])))
        # PCI kept x Group NONE/ALL/STRUCTURE x Bridge NONE/kept x Package kept/NONE: the objects an I/O locality creates
        # implicitly (Groups for local_cpus that match no object) must obey the filter of their own type
        lenv = {k: v for k, v in env.items() if k != "_io"}
        for pc in (0, 3):
            for g in (1, 0, 2):
                for b in (1, 0):
                    for pk in ((0, 1) if not quick or (g == 1) else (0,)):
                        fs = ["filter 17 %d" % pc, "filter 13 %d" % g, "filter 16 %d" % b, "filter 18 %d" % rng.choice([0, 1, 3])] + (["filter 1 1"] if pk else [])
                        cases.append(("io-group-matrix", (snap, comps, lenv, fs, 0, [])))
        fenv = {k: v for k, v in env.items() if not k.startswith("_")}
        for _ in range(2 if quick else 12):
            fl = [rng.choice([0, 1, 3]) for _ in range(3)]
            if fl[0] == fl[1]:
                fl[rng.randrange(2)] = rng.choice([x for x in (0, 1, 3) if x != fl[0]])
            fs = ["filter %d %d" % (t, f) for t, f in zip(IO_TYPES, fl)] + (["filter 19 0"] if rng.random() < 0.5 else [])
            cases.append(("io-full", (snap, comps, fenv, fs, rng.choice([0, 1, 128, 8]), [])))
        # a CPU that loses its topology directory (no PU for it, still in the complete cpuset and in local_cpus masks)
        # with every I/O type kept: one rotating CPU in the quick tier, every CPU in the thorough tier
        tops = [p for p in rem if re.search(r"sys/devices/system/cpu/cpu\d+/topology$", p)]
        if tops:
            sel = [tops[(run.seed + k) % len(tops)] for k in range(2)] if quick else tops
            for p in sorted(set(sel)):
                cases.append(("io-removal", (snap, comps, env, ["filter 16 0", "filter 17 0", "filter 18 0"], 0, [p])))
        classes = {}
        for p in iorem:
            classes.setdefault(class_of(p), []).append(p)
        names = sorted(classes)
        nsel = min(len(names), 10 if quick else 120)
        off = (run.seed * nsel) % max(1, len(names))
        for cls in (names + names)[off:off + nsel]:
            inst = classes[cls]
            p = inst[(run.seed * 5 + len(cls)) % len(inst)]
            fl = rng.choice([(0, 0, 0), (1, 0, 0), (0, 1, 0), (3, 0, 0), (0, 3, 3), (1, 3, 0), (3, 1, 0)])
            cases.append(("io-removal", (snap, comps, env, ["filter %d %d" % (t, f) for t, f in zip(IO_TYPES, fl)], 0, [p])))
    run.cov["io_snapshots"] = used
    return cases


CGROUP_SNAPSHOTS = ("32amd64-4s2n4c-cgroup2", "16amd64-4n4c-cgroup-distance-merge", "16amd64-8n2c-cpusets")


def tar_member_text(tarball, suffix):
    import tarfile
    with tarfile.open(tarball, "r:bz2") as tf:
        for m in tf:
            if m.name.endswith("/" + suffix) and m.isfile():
                return tf.extractfile(m).read().decode(errors="replace")
    return None


def equiv_cases(run, snaps):
    """Component-selection equivalence (VARIANTS): quick = a seed-rotated slice of the snapshots (3 Linux, 2 x86, the
    x86+linux ones) plus the PCI-locality snapshot; thorough = all snapshots; and the synthetic/XML-by-environment pair."""
    quick = run.tier == "quick"
    cases = []

    def rot(l, k):
        o = (run.seed * k) % max(1, len(l))
        return (l + l)[o:o + min(k, len(l))]
    lin = [s for s in snaps if s.kind == "linux"]
    x86 = [s for s in snaps if s.kind == "x86"]
    both = [s for s in snaps if s.kind == "x86+linux"]
    chosen = (rot(lin, 3) + rot(x86, 2) + both) if quick else snaps
    for snap in chosen:
        for comps in (["linux,stop"] if snap.kind == "linux" else ["x86,stop"] if snap.kind == "x86" else ["x86,linux,stop", "linux,x86,stop"]):
            names = list(GRAMMAR_VARIANTS)
            if snap.kind == "linux":
                names += ["env-fsroot-only", "env-fsroot-beats-synthetic-xml", "deprecated-linuxio-name", "deprecated-linuxpci-name", "exclude-io-phases-by-old-name"]
            if snap.kind == "x86":
                names += ["env-cpuid-only"]
            env = {"HWLOC_COMPONENTS": comps, "HWLOC_THISSYSTEM": "0", "_equiv": ",".join(names)}
            if "linux" in comps:
                env["HWLOC_DUMPED_HWDATA_DIR"] = "/var/run/hwloc"
            cases.append(("component-equivalence", (snap, comps, env, S.filter_lines(run.rng) if not quick or run.rng.random() < 0.5 else [], 0, [])))
    for snap in lin:
        loc = dict(snap.test_env).get("HWLOC_PCI_LOCALITY")
        if loc:
            env = {"HWLOC_COMPONENTS": "linux,stop", "HWLOC_THISSYSTEM": "0", "HWLOC_PCI_LOCALITY": loc, "_equiv": "pci-locality-file,pci-locality-garbage"}
            cases.append(("component-equivalence", (snap, "linux,stop", env, ["filter 16 0", "filter 17 0", "filter 18 0"], 0, [])))
    for snap in lin:
        name = tar_member_text(snap.tarball, "proc/self/cpuset") if snap.name in CGROUP_SNAPSHOTS else None
        if name:
            env = {"HWLOC_COMPONENTS": "linux,stop", "HWLOC_THISSYSTEM": "0", "_cpuset_name": name.strip(), "_cgroup": "2" if "cgroup2" in snap.name else "1",
                   "_equiv": "cgroup-via-proc-self-cgroup,cgroup-via-pid-cpuset,cgroup-via-pid-cgroup,cgroup-pid-without-files"}
            cases.append(("component-equivalence", (snap, "linux,stop", env, [], run.rng.choice([0, 1]), [])))
    small = next((s for s in lin if s.name == "2ps3-2t"), lin[0] if lin else None)
    if small is not None:
        for kind in ("synthetic", "xml"):
            cases.append(("component-equivalence", (small, "linux,stop", {"HWLOC_THISSYSTEM": "0", "_srcequiv": kind}, [], 0, [])))
    return cases


SCENARIOS = {}


def scenario_cases(run, snaps):
    """Fabricated snapshots (gen/snapshot_gen.scenarios): every scenario once as a full case in every tier (they are
    few and small); the thorough tier adds each of them under random filters/flags as robustness-only cases."""
    by_name = {s.name: s for s in snaps}
    cases = []
    for name, base, ops, envadd, filters, exp in G.scenarios():
        snap = by_name.get(base)
        if snap is None:
            continue
        SCENARIOS[name] = exp
        comps, env, _, _ = gen_config(run.rng, snap, plain=True)
        env = {k: v for k, v in env.items() if k in ("HWLOC_COMPONENTS", "HWLOC_THISSYSTEM")}
        env.update(envadd)
        comps = env["HWLOC_COMPONENTS"]
        env["_scenario"] = name
        if run.tier == "quick" and run.rng.random() < 0.75:
            env["_light"] = "1"       # the expectation is judged in every tier; second load / XML / disallowed view on a quarter of them
        cases.append(("fabricated", (snap, comps, env, list(filters), 0, list(ops))))
        if run.tier != "quick":
            for _ in range(6):
                c2, e2, f2, fl2 = gen_config(run.rng, snap)
                e2 = dict(e2)
                e2.update({k: v for k, v in envadd.items() if not k.startswith("_")})
                cases.append(("fabricated-random", (snap, c2, e2, f2, fl2, list(ops))))
    return cases


def corrupt_cases(run, pool, snaps):
    """An attribute file overwritten with a hostile content (gen.snapshot_gen.CORRUPT_CONTENTS): light cases, one file
    per file-name class; quick = a seed-rotated slice of 110 (snapshot, class) pairs, thorough = every class, one random content each."""
    quick = run.tier == "quick"
    pairs = []
    for snap in snaps:
        rem = removable_of(pool, snap)
        classes = {}
        for p in rem:
            if ("sys/devices/system/" in p or snap.kind == "x86" or "cpuid/" in p or p.startswith("proc/") or "/proc/" in p) and not p.endswith(("topology", "cache", "node", "cpu")):
                classes.setdefault(class_of(p), []).append(p)
        for cls in sorted(classes):
            pairs.append((snap, cls, classes[cls]))
    if quick:
        off = (run.seed * 110) % max(1, len(pairs))
        pairs = (pairs + pairs)[off:off + 110]
    cases = []
    for snap, cls, inst in pairs:
        comps, env, filters, flags = gen_config(run.rng, snap, plain=True)
        env = dict(env)
        env["_light"] = "1"
        for _ in range(1):
            p = run.rng.choice(inst)
            content = run.rng.choice(G.CORRUPT_CONTENTS)
            cases.append(("corrupt", (snap, comps, env, [], 0, ["+put %s %s" % (p, content.hex() or "-")])))
    return cases


def node_mutation_cases(run, pool, snaps):
    """Hostile and corner-case contents for everything look_sysfsnode reads (cpumaps overlapping or empty, distance rows
    short / without newline / in other bases, node/online variants, directories named node01 / nodeabc, initiator and
    memory-side-cache entry names that sscanf/atoi read differently from what they look like), 1 to 4 mutations per case
    on the snapshots with several NUMA nodes: the model of Text/LinuxNode.v must predict every memory request."""
    rng = run.rng
    quick = run.tier == "quick"
    multi = []
    for snap in snaps:
        if snap.kind != "linux":
            continue
        rem = removable_of(pool, snap)
        nodes = sorted(int(m.group(1)) for p in rem for m in [re.search(r"sys/devices/system/node/node(\d+)/cpumap$", p)] if m)
        if len(nodes) >= 2 and len(nodes) <= 17 and "KNL" not in snap.name:
            gpus = sorted(m.group(1) for p in rem for m in [re.search(r"proc/driver/nvidia/gpus/([^/]+)/numa_status$", p)] if m)
            multi.append((snap, nodes, gpus))
    cases = []
    if not multi:
        return cases
    total = 80 if quick else 1000
    nd = "sys/devices/system/node/"
    for k in range(total):
        snap, nodes, gpus = multi[(run.seed + k) % len(multi)]
        comps, env, filters, flags = gen_config(rng, snap, plain=True)
        env = dict(env)
        env["_light"] = "1"
        if rng.random() < 0.3:
            env["HWLOC_DEBUG_ALLOW_OVERLAPPING_NODE_CPUSETS"] = rng.choice(["0", "1", "2", "-1", "x"])
        if rng.random() < 0.2:
            env["HWLOC_USE_NUMA_DISTANCES"] = rng.choice(["0", "1", "2", "3", "4", "7"])
        if rng.random() < 0.3:
            env["HWLOC_HIDE_ERRORS"] = "2"
        filters = ["filter 15 0"] if rng.random() < 0.6 else []
        ops = []
        n = len(nodes)
        if gpus:
            # NUMA nodes that are NVIDIA GPU memory: kept or dropped, status files and local cpus in other shapes
            if rng.random() < 0.6:
                env["HWLOC_KEEP_NVIDIA_GPU_NUMA_NODES"] = rng.choice(["0", "1", "1", "2", "x"])
            for _ in range(rng.choice([0, 1, 1, 2])):
                g = rng.choice(gpus)
                if rng.random() < 0.6:
                    ops.append(G.put("proc/driver/nvidia/gpus/%s/numa_status" % g, rng.choice(
                        ["Node: %d\n" % rng.choice(nodes), "Status: x\nNode:\t %d\nMore\n" % rng.choice(nodes), "Node:%d" % rng.choice(nodes), "Node: 999\n", "Node: -1\n",
                         "node: 1\n", "", "Node:\n", "x\x00Node: %d\n" % rng.choice(nodes), "Node: 0%d junk\n" % rng.choice(nodes)])))
                else:
                    ops.append(G.put("sys/bus/pci/devices/%s/local_cpus" % g, rng.choice(["0\n", "ff\n", "00000000,0000000f\n", "", "garbage\n", "ffffffff,ffffffff,ffffffff\n"])))
        for _ in range(rng.choice([1, 1, 2, 3, 4]) if not gpus or rng.random() < 0.5 else 0):
            a, b = rng.choice(nodes), rng.choice(nodes)
            kind = rng.choice(["cpumap", "cpumap", "distance", "distance", "distance", "online", "dirname", "initiator", "msc", "cmdline"])
            if kind == "cpumap":
                txt = rng.choice(["00000000,00000000", "0", "", "%08x,%08x" % (rng.getrandbits(32), rng.getrandbits(32)), "%x" % (1 << rng.randrange(64)),
                                  "ffffffff,ffffffff", "garbage", "0x3"]) + rng.choice(["\n", "\n", ""])
                ops.append(G.put(nd + "node%d/cpumap" % a, txt))
            elif kind == "distance":
                vals = [str(rng.choice([10, 10, 11, 20, 21, 31, 40, 254, 4294967295, 4294967296, 0])) for _ in range(n)]
                form = rng.random()
                if form < 0.25:
                    vals = vals[:rng.randrange(n)]
                elif form < 0.4:
                    vals = vals + ["99"]
                elif form < 0.5:
                    vals[rng.randrange(n)] = rng.choice(["0x15", "012", "-1", "+7", "x", "1e3"])
                sep = rng.choice([" ", " ", "  ", "\t", ","])
                ops.append(G.put(nd + "node%d/distance" % a, sep.join(vals) + rng.choice(["\n", "\n", "\n", "", " \n"])))
            elif kind == "online":
                txt = rng.choice(["0-%d" % (n - 1), "0", "%d" % nodes[-1], "0,%d" % nodes[-1], "", "\n", "0-%d" % (n + 1), "%d-%d" % (nodes[-1], nodes[0]), "99", "garbage"])
                ops.append(G.put(nd + "online", txt + rng.choice(["\n", ""])))
            elif kind == "dirname":
                nm = rng.choice(["node0%d" % a, "node0x%x" % a, "nodeabc", "node", "node %d" % a, "node%dbis" % a, "node+%d" % a, "node99", "Node7"])
                ops.append(G.put(nd + nm + "/cpumap", rng.choice(["0\n", "%x\n" % (1 << rng.randrange(32)), ""])))
            elif kind == "initiator":
                acc = rng.choice(["access0", "access1"])
                nm = rng.choice(["node%d" % b, "node0%d" % b, "node %d" % b, "node-1", "node%dx" % b, "node99", "nodes", "verif_latency", "node4294967296", "node+%d" % b])
                ops.append(G.put(nd + "node%d/%s/initiators/%s/x" % (a, acc, nm), "1\n"))
            elif kind == "msc":
                nm = rng.choice(["index1", "index2", "index01", "index-1", "indexabc", "index2x", "index", "Index1", "index 3", "index4294967297"])
                m = re.match(r"index\s*([-+]?\d+)", nm)
                depth = (int(m.group(1)) % (1 << 32)) if m else 0      # where the backend will look for the files
                base = nd + "node%d/memory_side_cache/" % a
                ops.append(G.put(base + nm + "/marker", "x\n"))
                for fn, val in (("size", rng.choice(["1073741824", "0", "18446744073709551616", "12x", ""])), ("line_size", rng.choice(["64", "0", "x", "4294967297"])),
                                ("indexing", rng.choice(["0", "1", "2", ""]))):
                    if rng.random() < 0.85:
                        ops.append(G.put(base + "index%d/%s" % (depth, fn), val + "\n"))
            else:
                ops.append(G.put("proc/cmdline", rng.choice(["numa=fake=2U\n", "numa=fake=4\n", "quiet numa=fake=8U x\n", "numa=off\n"])))
        cases.append(("node-mutation", (snap, comps, env, filters, rng.choice([0, 0, 128, 256]), ops)))
    return cases


CPUID_LINE = re.compile(r"^([0-9a-f]+) ([0-9a-f]+) ([0-9a-f]+) ([0-9a-f]+) ([0-9a-f]+) => ([0-9a-f]+) ([0-9a-f]+) ([0-9a-f]+) ([0-9a-f]+)$")


def tar_pu_files(tarball):
    """{file name: text} of the puN files of an x86 CPUID dump"""
    import tarfile
    res = {}
    with tarfile.open(tarball, "r:bz2") as tf:
        for m in tf:
            b = os.path.basename(m.name)
            if m.isfile() and re.fullmatch(r"pu\d+", b):
                res[b] = tf.extractfile(m).read().decode(errors="replace")
    return res


def mutate_cpuid(rng, pus):
    """One mutation of a CPUID dump ({name: text}); returns (label, {name: new text}) for the changed files."""
    names = sorted(pus, key=lambda n: int(n[2:]))
    kind = rng.choice(["level-type", "level-type", "level-missing", "apicid-dup", "cache-sharing", "cache-sharing", "lines-deleted", "leaf1-count", "level-count"])
    subset = names if rng.random() < 0.5 else rng.sample(names, max(1, len(names) // 2))
    out = {}

    def rewrite(name, fn):
        lines = pus[name].split("\n")
        new = []
        for l in lines:
            m = CPUID_LINE.match(l)
            r = fn(l, [int(x, 16) for x in m.groups()]) if m else l
            if r is not None:
                new.append(r if isinstance(r, str) else "%x %x %x %x %x => %x %x %x %x" % tuple(r))
        out[name] = "\n".join(new)
    topo_leaves = (0xb, 0x1f, 0x80000026)
    if kind == "level-type":
        how = rng.choice(["unknown", "unknown-all", "same", "swap", "zero"])
        pick = rng.randrange(4)

        def f(l, v):
            if v[1] in topo_leaves and v[6] & 0xffff and v[7] & 0xff00:
                lvl = v[7] & 0xff
                ty = (v[7] >> 8) & 0xff
                if how == "unknown" and lvl == pick % 3 + 0:
                    ty = 9
                elif how == "unknown-all":
                    ty = rng.choice([7, 9, 0xff])
                elif how == "same":
                    ty = 2
                elif how == "swap":
                    ty = {1: 2, 2: 1}.get(ty, ty)
                elif how == "zero" and lvl == pick % 2:
                    ty = 0
                v[7] = (v[7] & ~0xff00) | (ty << 8)
                return v
            return l
        for n in subset:
            rewrite(n, f)
        kind += ":" + how
    elif kind in ("level-missing", "level-count"):
        lvl = rng.randrange(3)

        def f(l, v):
            if v[1] in topo_leaves and (v[7] & 0xff) == lvl and v[6] & 0xffff:
                if kind == "level-missing":
                    return None
                v[6] = (v[6] & ~0xffff) | rng.choice([1, 3, 0xffff, 7])
                return v
            return l
        for n in subset:
            rewrite(n, f)
    elif kind == "apicid-dup":
        for n in subset[1:][:max(1, len(subset) // 4)]:
            out[n] = pus[names[0]]
    elif kind == "cache-sharing":
        val = rng.choice([0, 2, 4, 0x3f, 0xfff, 5])

        def f(l, v):
            if v[1] in (4, 0x8000001d) and v[5] & 0x1f:
                v[5] = (v[5] & ~(0xfff << 14)) | (val << 14)
                if rng.random() < 0.3:
                    v[5] = (v[5] & ~(0x3f << 26)) | (rng.choice([0, 1, 7, 0x3f]) << 26)
                return v
            return l
        for n in subset:
            rewrite(n, f)
    elif kind == "lines-deleted":
        for n in subset[:max(1, len(subset) // 2)]:
            lines = pus[n].split("\n")
            for _ in range(rng.randint(1, 5)):
                if len(lines) > 2:
                    del lines[rng.randrange(len(lines))]
            out[n] = "\n".join(lines)
    else:
        def f(l, v):
            if v[1] == 1:
                v[6] = (v[6] & ~(0xff << 16)) | (rng.choice([0, 1, 3, 0xff]) << 16)
                return v
            return l
        for n in subset:
            rewrite(n, f)
    return kind, out


def unknown_outermost_level(pus):
    """every PU: the outermost level of each extended-topology leaf (0xb / 0x1f / 0x80000026) gets the unknown type 9"""
    out = {}
    for name, text in pus.items():
        lines = text.split("\n")
        last = {}
        for i, l in enumerate(lines):
            m = CPUID_LINE.match(l)
            if m and m.group(2) in ("b", "1f", "80000026") and int(m.group(7), 16) & 0xffff and int(m.group(8), 16) & 0xff00:
                last[m.group(2)] = i
        for i in last.values():
            f = lines[i].split(" ")
            f[8] = "%x" % ((int(f[8], 16) & ~0xff00) | 0x900)
            lines[i] = " ".join(f)
        if last:
            out[name] = "\n".join(lines)
    return out


def x86_mutation_cases(run, snaps):
    """Mutated x86 CPUID dumps (topology level types rewritten, levels missing or with other counts on some PUs, duplicated
    APIC ids, cache leaves with odd sharing counts, deleted lines, leaf 1 logical count) x flags 0 / IS_THISSYSTEM /
    IS_THISSYSTEM|RESTRICT_TO_CPUBINDING with the process bound to a subset: clean -1 or a well-formed topology, no memory error."""
    rng = run.rng
    quick = run.tier == "quick"
    cases = []
    for snap in snaps:
        if snap.kind != "x86":
            continue
        pus = tar_pu_files(snap.tarball)
        if not pus:
            continue
        # systematic: an unknown outermost level with the load restricted to the binding of the process (/repo 7faf46d)
        unk = unknown_outermost_level(pus)
        if unk:
            ops = ["+put %s %s" % (n, t.encode().hex()) for n, t in sorted(unk.items())]
            for fl, bind in ((18, "0"), (18, "0,1"), (2, "1")) if not quick else ((18, rng.choice(["0", "0,1", "1"])),):
                cases.append(("x86-mutation", (snap, "x86,stop", {"HWLOC_COMPONENTS": "x86,stop", "_bind": bind, "_light": "1"}, [], fl, ops)))
        for _ in range(3 if quick else 12):
            kind, changed = mutate_cpuid(rng, pus)
            ops = ["+put %s %s" % (n, t.encode().hex() or "-") for n, t in sorted(changed.items())]
            env = {"HWLOC_COMPONENTS": "x86,stop"}
            mode = rng.choice(["foreign", "foreign", "thissystem", "restrict", "restrict"])
            flags = 0
            if mode == "foreign":
                env["HWLOC_THISSYSTEM"] = "0"
                flags = rng.choice([0, 0, 1, 128])
            else:
                flags = 2 if mode == "thissystem" else 18
                env["_bind"] = rng.choice(["0", "0,1", "1", "all", "0,2,3"])
            if rng.random() < 0.3:
                env["HWLOC_X86_TOPOEXT_NUMANODES"] = "1"
            if rng.random() < 0.7 or mode != "foreign":
                env["_light"] = "1"       # (a load restricted to the binding is not comparable with its XML reload: the reload is restricted again)
            cases.append(("x86-mutation", (snap, "x86,stop", env, S.filter_lines(rng) if rng.random() < 0.3 else [], flags, ops)))
    return cases


TOPO_FAMILIES = {
    "package": ["package_cpus", "package_cpus_list", "core_siblings", "core_siblings_list", "physical_package_id"],
    "core": ["core_cpus", "core_cpus_list", "thread_siblings", "thread_siblings_list", "core_id"],
    "die": ["die_cpus", "die_cpus_list", "die_id"],
    "cluster": ["cluster_cpus", "cluster_cpus_list", "cluster_id"],
    "package+core": ["package_cpus", "core_siblings", "physical_package_id", "core_id"],
}


def pair_cases(run, pool, snaps):
    """Snapshots that hold BOTH a sysfs tree and a CPUID dump, loaded with the two backends together (linux first and x86
    annotating, or x86 first and linux annotating) while attribute files are missing: whole families of cpuN/topology files
    (what defines Packages, Cores, Dies, Clusters) removed on cpu0 or on every CPU, the cache directories, node files,
    random sets, under filter variants.  The annotating backend then sees a topology the first one built incompletely;
    clean 0/-1, well-formed, and no leak (LeakSanitizer at process exit, attributed by re-running the cases alone)."""
    rng = run.rng
    quick = run.tier == "quick"
    cases = []
    for snap in snaps:
        rem = removable_of(pool, snap)
        if snap.kind == "linux":
            if not any(re.match(r"cpuid/pu\d+$", p) for p in rem):
                continue
            pre, orders = "", ["linux,x86,stop"]
        elif snap.kind == "x86+linux":
            pre, orders = "fsroot/", ["linux,x86,stop", "x86,linux,stop"]
        else:
            continue
        cpus = sorted({int(m.group(1)) for p in rem for m in [re.match(re.escape(pre) + r"sys/devices/system/cpu/cpu(\d+)/topology$", p)] if m})
        if not cpus:
            continue
        sysrem = [p for p in rem if p.startswith(pre + "sys/devices/system/")]
        for comps in orders:
            env = {"HWLOC_COMPONENTS": comps, "HWLOC_THISSYSTEM": "0", "HWLOC_DUMPED_HWDATA_DIR": "/var/run/hwloc", "_light": "1", "_noheap": "1"}
            variants = [[]]
            for fam, files in TOPO_FAMILIES.items():
                for scope in ([cpus[0]], cpus):
                    variants.append([pre + "sys/devices/system/cpu/cpu%d/topology/%s" % (c, f) for c in scope for f in files])
            variants.append([pre + "sys/devices/system/cpu/cpu%d/cache" % c for c in cpus])
            variants.append([pre + "sys/devices/system/cpu/cpu%d/topology" % cpus[0]])
            variants.append([pre + "sys/devices/system/node"])
            for _ in range(4 if quick else 20):
                variants.append(G.random_set(rng, sysrem, 20))
            if not quick:
                classes = {}
                for p in sysrem:
                    classes.setdefault(class_of(p), []).append(p)
                variants += [inst for inst in classes.values()]           # every instance of a file-name class at once
            for k, rm in enumerate(variants):
                rm = [p for p in rm if p in set(rem)] if rm and not rm[0].endswith(("cache", "topology", "node")) else rm
                for fs in ([[]] if quick and k % 3 else [[], ["filter 1 1"], ["filter all 1"]] if k < 12 else [[]]):
                    cases.append(("backend-pair", (snap, comps, env, fs, rng.choice([0, 0, 1]) if k else 0, G.normalise(rm))))
    return cases


def flag_spec_cases(run, snaps):
    """HWLOC_TOPOLOGY_FLAG_NO_CPUKINDS on every snapshot and dump (every tier): no CPU kind may be registered whatever backend
    discovers (hwloc_cpukinds_get_nr == 0), and the XML round trip keeps the number of kinds; x86 dumps as full cases (second
    load, XML reload, other view), Linux snapshots as light ones; the other NO_* flags alone as light loads."""
    SCENARIOS["flag-no-cpukinds"] = {"kinds_n": 0}
    cases = []
    for snap in snaps:
        comps, env, _, _ = gen_config(run.rng, snap, plain=True)
        if snap.kind == "x86+linux":
            comps = "x86,linux,stop"
        env = {k: v for k, v in env.items() if not k.startswith("_")}
        env["HWLOC_COMPONENTS"] = comps
        env.update({"_kinds": "1", "_scenario": "flag-no-cpukinds", "_noheap": "1"})
        if snap.kind == "linux":
            env["_light"] = "1"
        cases.append(("flag-spec", (snap, comps, env, [], 512, [])))
        if snap.kind != "linux":
            e2 = {k: v for k, v in env.items() if k not in ("_scenario", "_kinds")}
            cases.append(("flag-spec", (snap, comps, e2, [], run.rng.choice([128, 256, 128 | 256 | 512]), [])))
    return cases


NONE_TYPES = [1, 2, 3, 5, 6, 7, 8, 9, 10, 11, 12, 13, 15]      # every type that may be filtered out entirely, PU/NUMA/Machine excepted


def filter_none_cases(run, snaps):
    """One type at KEEP_NONE (the others at their defaults or, for the types that create objects of that type implicitly,
    kept): Groups come from NUMA distances, memory-side parents, I/O locality, s390 books, KNL clusters; Dies and clusters
    from sysfs; caches from sysfs/cpuid; MemCaches from sysfs.  wf_check's filtered-type-present clause judges.
    every tier: Group NONE and all-types NONE on every snapshot; quick: 3 more types per snapshot, rotating with the seed; thorough: every type on every snapshot."""
    quick = run.tier == "quick"
    cases = []
    for si, snap in enumerate(snaps):
        comps, env, _, _ = gen_config(run.rng, snap, plain=True)
        env = dict(env)
        env["_light"] = "1"
        env["_noheap"] = "1"
        # on EVERY snapshot, every tier: Group KEEP_NONE alone and every type KEEP_NONE (with and without INCLUDE_DISALLOWED):
        # the combinations that decide where memory objects may be attached (never below a PU)
        for fs, fl in ((["filter 13 1"], 0), (["filter all 1"], 0), (["filter all 1"], 1), (["filter 13 1", "filter 3 1", "filter cache 1"], 0)):
            cases.append(("filter-none", (snap, comps, env, list(fs), fl, [])))
        types = NONE_TYPES if not quick else [NONE_TYPES[(run.seed + si + 3 * k) % len(NONE_TYPES)] for k in range(3)]
        for ty in sorted(set(types)):
            fs = ["filter %d 1" % ty]
            if ty == 13:
                fs += run.rng.choice([[], ["filter 15 0"], ["filter 17 0"], ["filter 17 3", "filter 16 0"]])
                if run.rng.random() < 0.3:
                    env = dict(env)
                    env["HWLOC_USE_NUMA_DISTANCES"] = "7"
            elif ty == 15:
                fs = ["filter 15 1", "filter 13 %d" % run.rng.choice([0, 1, 2])]
            cases.append(("filter-none", (snap, comps, env, fs, run.rng.choice([0, 0, 1]), [])))
    return cases


def select_snapshots(run):
    lin = [Snap(t) for t in S.snapshots("linux")]
    x86 = [Snap(t) for t in S.snapshots("x86")]
    both = [Snap(t) for t in S.snapshots("x86+linux")]
    run.cov["snapshots_available"] = {"linux": len(lin), "x86": len(x86), "x86+linux": len(both)}
    if run.tier == "quick":
        # seed-rotated subset: every snapshot is reached within ceil(42/9) consecutive seeds
        def rot(l, k):
            if not l:
                return []
            o = (run.seed * k) % len(l)
            return (l + l)[o:o + k]
        return rot(lin, 9), rot(x86, 5), rot(both, 1)
    return lin, x86, both


# ---------------------------------------------------------------------------
# process-history independence: static/global state in the backends
# ---------------------------------------------------------------------------
HISTORY_TARGETS = ["16amd64-8n2c-cpusets", "16amd64-4n4c-cgroup-distance-merge", "32amd64-4s2n4c-cgroup2", "4fake-4gr1nu1pu",
                   "16em64t-4s2ca2c-cpusetreorder", "offline-cpu0-node0", "memorysidecaches", "64intel64-fakeKNL-SNC4-hybrid", "2arm-2c"]


def source_lines(kind, arg, flags=0, filters=()):
    """one complete load of a source: new ... destroy (no dump)"""
    e = {"HWLOC_THISSYSTEM": "0"}
    if kind == "fsroot":
        e.update({"HWLOC_COMPONENTS": "linux,stop", "HWLOC_DUMPED_HWDATA_DIR": "/var/run/hwloc"})
        src = ["src fsroot " + arg]
    elif kind == "cpuid":
        e["HWLOC_COMPONENTS"] = "x86,stop"
        src = ["src cpuid " + arg]
    elif kind == "xml":
        src = ["src xml " + arg]
    else:
        src = ["src synthetic " + arg]
    return ["new"] + config_lines(e, list(filters)) + ["flags %d" % flags] + src + ["load"]


def check_history(run, pool, snapexe, allsnaps, only=None):
    """B loaded in a fresh process must give the dump of B loaded after another source A was loaded and destroyed in the
    same process (every cpuset/cgroup flavour, a failed load, an x86 dump, XML, synthetic), for the snapshots whose result
    depends on cgroup/cpuset files, hwdata or memory-side caches; pairs in both orders.  only = (A spec, B rel, flags)."""
    by_name = {s.name: s for s in allsnaps}
    targets = [by_name[n] for n in HISTORY_TARGETS if n in by_name]
    x86 = next((s for s in allsnaps if s.kind == "x86"), None)
    tops = {}

    def root_of(snap):
        if snap.rel not in tops:
            tops[snap.rel] = pool.acquire(snap)
        return snap_root(tops[snap.rel])
    pseudo = [("failed", "fsroot", "/nonexistent-fsroot"), ("xml", "xml", SRC_XML), ("synthetic", "synthetic", "pack:2 core:2 pu:2")]
    if x86 is not None:
        pseudo.append(("x86:" + x86.name, "cpuid", None))
    jobs = []      # (label A, lines of A, B)
    if only is not None:
        aspec, brel, flags = only
        b = next(s for s in allsnaps if s.rel == brel)
        a = next((s for s in allsnaps if s.rel == aspec), None)
        ps = next((p for p in pseudo if p[0] == aspec), None)
        al = source_lines("fsroot", root_of(a)) if a is not None and a.kind == "linux" else source_lines("cpuid", root_of(a)) if a is not None else \
            source_lines(ps[1], ps[2] if ps[2] else root_of(x86)) if ps else []
        jobs.append((aspec, al, b, flags))
    else:
        quick = run.tier == "quick"
        for b in targets:
            preds = [a for a in targets if a is not b]
            if quick:
                o = (run.seed + len(b.name)) % max(1, len(preds))
                preds = (preds + preds)[o:o + 4]
            for a in preds:
                jobs.append((a.rel, source_lines("fsroot", root_of(a)), b, 0))
            for lab, kind, arg in pseudo:
                jobs.append((lab, source_lines(kind, arg if arg else root_of(x86)), b, run.rng.choice([0, 0, 1])))
    refs = {}

    def fresh(b, flags):
        if (b.rel, flags) not in refs:
            scr = source_lines("fsroot", root_of(b), flags) + ["dump", "destroy"]
            rc, out, err = C.sh([snapexe], input=("\n".join(scr) + "\n").encode(), env=_env(), timeout=300)
            refs[(b.rel, flags)] = (rc, [l for l in out.decode(errors="replace").split("\n") if l.startswith(("load ", "T ", "L ", "D ", "O "))])
        return refs[(b.rel, flags)]
    for b in {j[2] for j in jobs}:
        root_of(b)
    for _, _, b, flags in jobs:
        fresh(b, flags)

    def one(job):
        lab, alines, b, flags = job
        scr = alines + ["destroy"] + source_lines("fsroot", root_of(b), flags) + ["dump", "destroy"]
        rc, out, err = C.sh([snapexe], input=("\n".join(scr) + "\n").encode(), env=_env(), timeout=300)
        lines = out.decode(errors="replace").split("\n")
        # the lines of the second load only
        k = next((i for i, l in enumerate(lines) if l == "destroy"), -1)
        return job, rc, [l for l in lines[k + 1:] if l.startswith(("load ", "T ", "L ", "D ", "O "))], err.decode(errors="replace")
    n = 0
    with cf.ThreadPoolExecutor(max_workers=C.NCPU) as ex:
        for (lab, alines, b, flags), rc, got, err in ex.map(one, jobs):
            n += 1
            rrc, ref = fresh(b, flags)
            run.count("history|%s|%s|%d|%d" % (lab, b.rel, flags, len(got)), nontrivial=bool(got) and "rc=0" in got[0], kind="history:" + b.kind)
            replay = "history: %s\nsnapshot: %s\nflags: %d\n" % (lab, b.rel, flags)
            if rc != 0:
                run.violation("crash:history:" + crash_key(rc, err), "crash when %s is loaded after %s in the same process" % (b.rel, lab), replay + err[-2000:])
            elif got != ref:
                k = next((i for i, (x, y) in enumerate(zip(ref, got)) if x != y), min(len(ref), len(got)))
                fa, fb = (ref[k] if k < len(ref) else "<end>").split(" "), (got[k] if k < len(got) else "<end>").split(" ")
                run.violation("history-dependence:%s" % b.name,
                              "%s loaded after %s (loaded and destroyed in the same process) differs from the same load in a fresh process: %d/%d lines; first differing line %s: %s"
                              % (b.rel, lab, len(ref), len(got), " ".join(fa[:3]), " ".join("%s->%s" % (x, y) for x, y in zip(fa, fb) if x != y)[:300]), replay)
    for rel, top in tops.items():
        pool.release(next(s for s in allsnaps if s.rel == rel), top)
    return n


def check_snapshots(run, snapexe, drv, replay_case=None):
    pool = Pool()
    try:
        search = SnapSearch(run, snapexe, drv, pool)
        if replay_case is not None:
            res = search.exec_cases([replay_case])
            search.judge([replay_case], res, "replay")
            return 1
        lin, x86, both = select_snapshots(run)
        snaps = lin + x86 + both
        by_rel = {s.rel: s for s in snaps}
        labelled = []
        cdir = os.path.join(C.VERIF, "corpus", "c18")
        for n in sorted(os.listdir(cdir)) if os.path.isdir(cdir) else []:
            txt = "\n".join(l for l in open(os.path.join(cdir, n)).read().split("\n") if not l.startswith("#"))
            c = parse_case_text(txt, by_rel)
            if c is not None:
                labelled.append(("corpus", c))
        labelled += make_snapshot_cases(run, pool, snaps)
        allsnaps = [by_rel.get(os.path.relpath(t, os.path.join(C.REPO, "tests/hwloc"))) or Snap(t)
                    for k in ("linux", "x86", "x86+linux") for t in S.snapshots(k)]
        labelled += class_cases(run, pool, allsnaps)
        labelled += io_cases(run, pool, allsnaps)
        labelled += scenario_cases(run, allsnaps)
        labelled += equiv_cases(run, allsnaps)
        labelled += corrupt_cases(run, pool, allsnaps)
        labelled += node_mutation_cases(run, pool, allsnaps)
        labelled += x86_mutation_cases(run, allsnaps)
        labelled += filter_none_cases(run, allsnaps)
        labelled += pair_cases(run, pool, allsnaps)
        labelled += flag_spec_cases(run, allsnaps)
        run.cov["snapshots_used"] = sorted(s.rel for s in snaps)
        # judge per label so that the evidence shows the distribution
        cases = [c for _, c in labelled]
        import time as _t
        t0 = _t.time()
        results = search.exec_cases(cases)
        C.log("[c18] generation+exec of %d cases %.1fs" % (len(cases), _t.time() - t0))
        for lab in sorted(set(l for l, _ in labelled)):
            idx = [i for i, (l, _) in enumerate(labelled) if l == lab]
            search.judge([cases[i] for i in idx], [results[i] for i in idx], lab)
        judge_io(run, cases, results)
        t0 = _t.time()
        run.cov["history_pairs"] = check_history(run, pool, snapexe, allsnaps)
        C.log("[c18] judge %.1fs" % 0 + " history %.1fs" % (_t.time() - t0))
        return len(cases)
    finally:
        pool.close()


# ===========================================================================

def check(run, replay=None):
    proof = C.prove("C18")
    snapexe, par, drv = _tools()
    if replay:
        txt = open(replay).read().split("---\n", 1)[1]
        m = re.search(r"^parse:\s+(mask|list)\s+(\S+)", txt, re.M)
        if m:
            b = b"" if m.group(2) == "-" else bytes.fromhex(m.group(2))
            check_parsers(run, par, drv, only=[(m.group(1), b, None, "replay")])
        elif re.search(r"^history: ", txt, re.M):
            pool = Pool()
            try:
                allsnaps = [Snap(t) for k in ("linux", "x86", "x86+linux") for t in S.snapshots(k)]
                check_history(run, pool, snapexe, allsnaps, only=(re.search(r"^history: (.*)$", txt, re.M).group(1).strip(),
                                                                    re.search(r"^snapshot: (.*)$", txt, re.M).group(1).strip(),
                                                                    int(re.search(r"^flags: (\d+)", txt, re.M).group(1))))
            finally:
                pool.close()
        else:
            case = parse_case_text(txt, {})
            if case is None:
                raise RuntimeError("replay file holds neither a parse: nor a snapshot: case")
            check_snapshots(run, snapexe, drv, replay_case=case)
    else:
        import time
        t0 = time.time()
        run.cov["parser_cases"] = check_parsers(run, par, drv)
        t1 = time.time()
        run.cov["snapshot_cases"] = check_snapshots(run, snapexe, drv)
        run.cov["phase_wall_s"] = {"parsers": round(t1 - t0, 1), "snapshots": round(time.time() - t1, 1)}
        C.log("[c18] parsers %.1fs snapshots %.1fs" % (t1 - t0, time.time() - t1))
    run.cov["rule"] = ("parser case = (parser, file content), non-trivial = parsed; snapshot case = (snapshot, components, env, filters, flags, removal set) "
                       "executed as: load + dump + topology_check + XML round trip, second load, load with INCLUDE_DISALLOWED toggled; non-trivial = main load succeeded")
    run.assumptions += [
        "the Linux/x86 backends are not modelled beyond the two set parsers: for them the property is decided per run by the verified checkers (wf_check, disallowed_check) and dump equalities on the real code's outputs",
        "pipeline_deterministic is immediate for a Gallina function; determinism of the C pipeline is what the repeated loads test",
        "file contents: block = content ++ [NUL] (hwloc__read_fd allocates more; the model is stricter); allocation failures not modelled",
    ]
    return run.finish(proof, trusted=["harness/hwv_dump.h + ocaml/hvdump.ml (dump and its parser)", "harness/hwv_snapshot.c (hide/unhide = rename inside the scratch copy)",
                                      "glibc sscanf(\"%lx\") = strtoul base 16 on the matched prefix (validated by the differential run)"])
