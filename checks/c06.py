"""C06: loading arbitrary XML never corrupts memory, hangs or yields a broken topology.

Tie/search: harness/hwv_xmlfuzz.c runs the REAL importers (ASan/UBSan/LSan,
5 s watchdog per input, both XML backends, buffer and file entry points, with
and without a userdata import callback) on valid documents, structure-aware
mutations, truncations and unstructured bytes; every topology that comes out
is dumped and judged by the verified checker wf_check (C01 extraction) and by
hwloc_topology_check(), then exercised by a battery of read-only calls; after a
failed load the topology must be re-configurable and loadable.
Correspondence: harness/hwv_xmltok.c drives the real nolibxml tokenizer
(static functions of topology-xml-nolibxml.c) with a generic walker and prints
the token stream; the extracted model XmlLex (same walker in Gallina) must
print the same stream for the same bytes."""
import base64
import concurrent.futures as cf
import os
import re
import shutil
import tempfile

from hv import common as C
from gen import topo_sources as S
from gen import xmlfuzz_gen as G

DEPS = ["hwv_dump.h", "hwv_load.h"]
WF_PRELUDE = ["hvnum.ml", "hvdump.ml"]
COVFLAGS = ["-DHWV_COV"] if getattr(C, "COV", False) else []     # coverage survey build only (gen/coverage_survey.sh)

# clauses of wf_check that talk about sets / ids / root type only: what the FIXME in hwloc_look_xml
# says is never validated on import
SET_CLAUSES = {
    # observed today on accepted documents (three seeds of the quick tier)
    "allowed-nodeset-differs-from-root", "allowed-nodeset-not-in-root", "children-nodeset-contributions-intersect", "children-order",
    "cpuset-not-disjoint-union-of-children", "cpuset-not-in-complete", "gp-index-duplicate", "local-nodesets-intersect",
    "memory-children-order", "memory-cpuset-differs-from-parent", "nodeset-not-in-complete", "numa-complete-nodeset",
    "numa-os-index-duplicate", "pu-complete-cpuset", "pu-os-index-duplicate", "total-memory",
    # (root-not-machine / machine-level were here until /repo 64df44a made the importer refuse a non-Machine root)
    # same cause (no cross-object validation of sets), not guarded by any importer check either
    "allowed-cpuset-differs-from-root", "allowed-cpuset-not-in-root", "complete-cpuset-not-in-parent", "complete-nodeset-not-in-parent",
    "cpuset-not-in-parent", "nodeset-not-in-parent", "nodeset-not-inherited-local-children", "local-nodeset-intersects-inherited",
    "pu-not-allowed", "numa-not-allowed",
    # a normal leaf without PU below (its PU children dropped from the document) is accepted as well: last level is not the PU level
    "pu-level",
    # NOT here: pu-cpuset, numa-nodeset, sets-missing, no-numa-node, cache-attr-vs-type, child-kind ...: the importer
    # checks those per object (topology-xml.c validity checks); seeing them on a loaded topology is a new violation
}
OSDEV_KNOWN_BITS = 0x3f | 0x40   # STORAGE..OPENFABRICS, DMA


_FEATURES = None


class _Features(dict):
    """feature documents of gen/xmlfuzz_gen.py by name (what they must load as / show), built on first use"""
    def get(self, k, d=None):
        global _FEATURES
        if _FEATURES is None:
            _FEATURES = {f["name"]: f for f in G.feature_docs()}
        return _FEATURES.get(k, d)


FEATURES = _Features()


def prebuild():
    C.build_harness("hwv_xmlfuzz", ["hwv_xmlfuzz.c"], deps=DEPS, extra_flags=COVFLAGS)
    C.extract("C01", "drv_c01.ml", prelude=WF_PRELUDE)
    tok_build()
    C.extract("C06", "drv_c06.ml", prelude=["hvnum.ml"])


def tok_build():
    return C.build_harness("hwv_xmltok", ["hwv_xmltok.c"], with_lib=True,
                           extra_flags=['-DHV_NOLIBXML_C="%s"' % os.path.join(C.REPO, "hwloc/topology-xml-nolibxml.c")])


# ------------------------------------------------------------------ jobs ----
class Job:
    __slots__ = ("id", "kind", "backend", "method", "tflags", "opts", "data", "origin", "path", "out", "err", "status", "feature")

    def __init__(self, kind, backend, method, tflags, opts, data, origin):
        self.kind, self.backend, self.method, self.tflags, self.opts, self.data, self.origin = kind, backend, method, tflags, opts, data, origin
        self.id = self.path = self.out = self.err = self.status = None
        self.feature = FEATURES.get(origin[8:]) if origin.startswith("feature:") else None

    def line(self):
        return "%s %s %d %s %d %d %s\n" % (self.id, self.kind, self.backend, self.method, self.tflags, self.opts, self.path)

    def replay_text(self):
        return ("kind: input\njob: %s %d %s %d %d\norigin: %s\ninput-base64: %s\n--- input (escaped)\n%s\n" % (
            self.kind, self.backend, self.method, self.tflags, self.opts, self.origin,
            base64.b64encode(self.data).decode(), self.data[:3000].decode("latin1").encode("unicode_escape").decode()))


def run_jobs(exe, jobs, scratch, watchdog=5):
    """Write inputs, run the harness in NCPU shards, attach out/err/status to each job."""
    byhash = {}
    for i, j in enumerate(jobs):
        j.id = "j%d" % i
        h = hash(j.data)
        p = byhash.get((h, len(j.data)))
        if p is None or open(p, "rb").read() != j.data:
            p = os.path.join(scratch, "in%d" % i)
            with open(p, "wb") as f:
                f.write(j.data)
            byhash[(h, len(j.data))] = p
        j.path = p
    nsh = max(1, min(C.NCPU, (len(jobs) + 7) // 8))
    shards = [jobs[k::nsh] for k in range(nsh)]
    env = C.run_env(HWV_WATCHDOG=str(watchdog))
    # a request of tens of GB is answered by NULL at once (ASan would spend seconds mapping and poisoning it)
    env["ASAN_OPTIONS"] += ":max_allocation_size_mb=3072"
    for k in ("HWLOC_XMLFILE", "HWLOC_LIBXML", "HWLOC_LIBXML_IMPORT", "HWLOC_LIBXML_EXPORT", "HWLOC_XML_VERBOSE", "HWLOC_DEBUG_CHECK", "HWLOC_COMPONENTS", "HWLOC_SYNTHETIC", "HWLOC_FSROOT", "HWLOC_CPUID_PATH"):
        env.pop(k, None)

    def one(shard):
        txt = "".join(j.line() for j in shard)
        rc, out, err = C.sh([exe], input=txt.encode(), env=env, timeout=60 + len(shard) * (watchdog + 2))
        return shard, rc, out, err

    with cf.ThreadPoolExecutor(max_workers=C.NCPU) as ex:
        for shard, rc, out, err in ex.map(one, shards):
            outs = split_blocks(out, rb"BEGIN (\S+)\n", rb"END (\S+) status=(\S+)\n")
            errs = split_blocks(err, rb"@@BEGIN (\S+)\n", rb"@@END (\S+)()\n")
            for j in shard:
                o = outs.get(j.id.encode())
                j.out, j.status = (o[0].decode("latin1"), o[1].decode()) if o else ("", "not-run")
                e = errs.get(j.id.encode())
                j.err = e[0].decode("latin1") if e else ""


def split_blocks(data, begin_re, end_re):
    res = {}
    pos = 0
    for m in re.finditer(begin_re, data):
        if m.start() < pos:
            continue
        ident = m.group(1)
        e = re.compile(end_re.replace(rb"(\S+)", re.escape(ident), 1)).search(data, m.end())
        if not e:
            res[ident] = (data[m.end():], b"truncated")
            break
        res[ident] = (data[m.end():e.start()], e.group(e.lastindex) if e.lastindex else b"")
        pos = e.end()
    return res


# --------------------------------------------------------------- verdicts ----
FRAME_RE = re.compile(r"#\d+ 0x[0-9a-f]+ in (\S+) (\S+?):(\d+)")


def lib_frames(err):
    res = []
    root = os.path.realpath(C.REPO) + "/"
    for m in FRAME_RE.finditer(err):
        f = m.group(2)
        if f.startswith(root) or f.startswith(C.REPO + "/") or "/hwloc/" in f and "/verif/harness" not in f:
            if "/harness/" in f:
                continue
            res.append((m.group(1), os.path.basename(f), int(m.group(3))))
    return res


def source_line(fname, line):
    try:
        return open(os.path.join(C.REPO, "hwloc", fname), errors="replace").read().split("\n")[line - 1]
    except (OSError, IndexError):
        return ""


REPEATED_TYPE_RE = re.compile(rb'<object\b[^>]*?\btype="[^"]*"[^>]*?\btype="')


def MISSING_COMPLETE(data):
    for m in re.finditer(rb"<object\b[^>]*>", data):
        t = m.group(0)
        if (b" cpuset=" in t and b" complete_cpuset=" not in t) or (b" nodeset=" in t and b" complete_nodeset=" not in t):
            return True
    return False


def classify_crash(job):
    """-> (key, what) for a sanitizer report / abnormal exit of the job's child."""
    err = job.err
    phase = (re.findall(r"phase (\S+)", job.out) or ["start"])[-1]
    frames = lib_frames(err)
    funcs = [f[0] for f in frames]
    kind = "abnormal-exit"
    m = re.search(r"ERROR: AddressSanitizer: (\S+)", err)
    if m:
        kind = "asan-" + m.group(1)
    elif "runtime error:" in err:
        kind = "ubsan-" + re.sub(r"[^a-z]+", "-", re.search(r"runtime error: ([^\n]{0,40})", err).group(1).lower()).strip("-")
    elif "LeakSanitizer" in err:
        kind = "leak"
    top = frames[0] if frames else ("?", "?", 0)
    where = "%s (%s:%d) in phase %s" % (top[0], top[1], top[2], phase)
    if kind == "leak":
        if "hwloc__xml_import_diff_one" in funcs:
            return "diff-import-leak-on-error", "diff entries already imported are leaked when a later <diff> element is rejected (hwloc__xml_import_diff returns -1 without freeing the list): " + where
        if "hwloc_alloc_setup_object" in funcs and "hwloc__xml_import_object" in funcs:
            return "object-leak-on-subnode-error", "child object allocated by hwloc__xml_import_object leaks when one of its info/page_type/userdata sub-elements or its first find_child fails ('goto error' before the object is inserted): " + where
        return "leak:%s" % (top[0]), "memory leak reported by LeakSanitizer: " + where
    body = job.data
    while body.startswith((b"<?xml ", b"<!DOCTYPE ")) and b"\n" in body:
        body = body.split(b"\n", 1)[1]
    if job.backend == 0 and phase == "load" and kind == "asan-SEGV" and re.match(rb'<topology version="\d+\.\d+', body) and b">" not in body \
       and any(f.startswith(("hwloc__nolibxml_import", "hwloc_nolibxml_look_init")) for f in funcs):
        return "look-init-no-gt", "hwloc_nolibxml_look_init: strchr(buffer,'>')+1 with no '>' after <topology version=\"x.y\" (NULL+1 handed to the tokenizer): " + where
    if "Assertion `id != HWLOC_MEMATTR_ID_" in err:
        return "memattr-predefined-values-assert", "XML <memattr name=Capacity|Locality> with the matching flags and a <memattr_value>: hwloc_internal_memattr_set_value asserts id != HWLOC_MEMATTR_ID_CAPACITY/LOCALITY (both backends): phase " + phase
    if top[0] == "hwloc_internal_cpukinds_register" and phase == "reload":
        return "cpukinds-reload-null-array", "after a failed XML load that had registered a cpukind, loading a valid XML with <cpukind> writes through a NULL array: hwloc_internal_cpukinds_destroy resets cpukinds/nr_cpukinds but not nr_cpukinds_allocated: " + where
    if top[0] == "hwloc__nolibxml_export_escape_string":
        return "export-escape-overflow", "the built-in XML exporter writes past the block holding the escaped copy of a string (hwloc__nolibxml_export_escape_string) while exporting a loaded topology: %s %s" % (kind, where)
    am = re.search(r"/hwloc/([\w.-]+):\d+: (\w+): Assertion `([^']*)' failed", "\n".join(l for l in err.split("\n") if "hwloc__check_" not in l and ": hwloc_topology_check:" not in l))
    if am and "bridge.downstream_type" not in am.group(3):
        return "assert:%s" % am.group(2), "failed assertion in %s (%s): `%s' in phase %s" % (am.group(2), am.group(1), am.group(3)[:120], phase)
    if top[0] == "hwloc_connect_levels" and "null pointer passed" in err:
        return "no-normal-children-memcpy-null", "a root without normal children (no PU at all) reaches hwloc_connect_levels: memcpy(objs, root->children == NULL, 0): " + where
    if kind == "asan-stack-overflow" and (("hwloc__xml_import_object" in funcs) or (phase == "load" and job.data.count(b"<object") > 5000)):
        return "deep-nesting-stack-overflow", "hwloc__xml_import_object recurses once per nesting level without any bound: a document with tens of thousands of nested <object> elements exhausts the stack (SIGSEGV also without sanitizers): " + where
    if "Assertion `obj->attr->bridge.downstream_type" in err:
        return "bridge-type-unvalidated-assert", "bridge_type values are imported unchecked (FIXME in hwloc__xml_import_object_attr): hwloc_obj_type_snprintf() asserts downstream_type == HWLOC_OBJ_BRIDGE_PCI: " + where
    if top[0] == "hwloc_internal_memattrs_dup" and "null pointer passed" in err:
        return "dup-memattrs-memcpy-null", "hwloc_topology_dup() of a topology loaded with HWLOC_TOPOLOGY_FLAG_NO_MEMATTRS: memcpy(dst, NULL, 0) in hwloc_internal_memattrs_dup (memattrs.c: 'nr_memattrs is always > 0' does not hold): " + where
    if "hwloc_internal_memattrs_destroy" in funcs and "double-free" in err:
        return "memattr-dup-shares-empty-initiators", "hwloc_internal_memattrs_dup() leaves the source's initiators pointer in a target whose initiators all vanished (nr_initiators == 0 after refresh of a memattr_value naming an unknown object): destroying the copy and the original frees it twice: " + where
    if phase == "diff-apply":
        return "diff-apply:%s:%s" % (kind, top[0]), "hwloc_topology_diff_apply() on a diff loaded from XML (C16/C09 territory, reported here because the XML loader accepts the value): %s %s" % (kind, where)
    if "hwloc_bitmap_compare_first" in funcs and "hwloc__xml_import_object" in funcs:
        return "children-without-complete-cpuset", "two or more children without complete_cpuset/complete_nodeset: hwloc_bitmap_compare_first(NULL, ...) in the reorder loop of hwloc__xml_import_object: " + where
    if top[0].startswith("hwloc_bitmap_") and "null pointer" in err and job.kind == "topo" and MISSING_COMPLETE(job.data):
        return "missing-complete-sets:%s" % top[0], "an <object> with cpuset/nodeset but without complete_cpuset/complete_nodeset is accepted; %s(NULL) later (%s)" % (top[0], where)
    if top[0] == "hwloc__xml_import_distances" and "XGMIHops" in source_line(top[1], top[2]):
        return "distances2-noname", "v2 <distances2> with a latency kind and no name attribute: strcmp(NULL, \"XGMIHops\"): " + where
    if top[0] == "hwloc__nolibxml_import_next_attr" and "overflow" in kind:
        return "next-attr-overread", "hwloc__nolibxml_import_next_attr reads one byte past the buffer when the text ends right after name=\" (value[0] is the final NUL, the loop copies it and tests value[1]): " + where
    if "hwloc__nolibxml_import_close_tag" in funcs and "hwloc__xml_import_userdata" in funcs:
        return "userdata-close-content-clobbers-nul", "hwloc__xml_import_userdata (callback set, length 0) calls close_content without get_content: '<' is written over the byte at tagbuffer (the final NUL when the text ends there) and close_tag scans past the buffer: " + where
    if top[0] in ("hwloc_libxml_look_init", "hwloc_libxml_import_diff") and "SystemID" in source_line(top[1], top[2]):
        return "libxml-doctype-no-systemid", "libxml backend: <!DOCTYPE x> without SYSTEM id: strcmp(dtd->SystemID == NULL, ...): " + where
    if job.kind == "topo" and REPEATED_TYPE_RE.search(job.data):
        return "type-attr-repeated:%s" % top[0], "an <object> with two type attributes: the attribute union filled for the first type is reinterpreted for the second (cache attrs read as numanode.page_types pointer/length): " + kind + " " + where
    return "crash:%s:%s:%s" % (kind, top[0], phase), "%s at %s" % (kind, where)


def osdev_unknown_bits(out):
    for m in re.finditer(r"ostypes:(\d+)", out):
        if int(m.group(1)) & ~OSDEV_KNOWN_BITS:
            return True
    return False


def judge(run, job, wf_lines):
    """One job -> list of (key, what).  wf_lines: the verdict lines of the wf driver for this job (or None)."""
    v = []
    out, st = job.out, job.status
    phase = (re.findall(r"phase (\S+)", out) or ["start"])[-1]
    if st == "not-run" or st == "truncated":
        return [("not-run", "the harness did not process this job (shard aborted)")]
    if st in ("signal:14", "signal:24"):
        if phase == "traverse" and osdev_unknown_bits(out):
            v.append(("osdev-unknown-bit-hang", "hwloc_obj_type_snprintf() never returns for an OSDev whose osdev.types has a bit outside the known ones (while (ostype) loop in traversal.c)"))
        else:
            v.append(("hang:%s" % phase, "watchdog: no answer within the time limit in phase %s" % phase))
        return v
    if st != "exit:0":
        v.append(classify_crash(job))
        return v
    if re.search(r"snprintf-(unterminated|negative)|export-xml bad-length|userdata-cb absurd-length", out):
        m = re.search(r"(snprintf-unterminated \w+|snprintf-negative|export-xml bad-length|userdata-cb absurd-length)", out)
        v.append((m.group(1).replace(" ", "-"), "read-only battery: " + m.group(1)))
    if job.feature is not None:
        f = job.feature
        loaded = ("\nload rc=0" in out) if job.kind == "topo" else ("diff-load rc=0" in out)
        strict = f["loads"] is not None and (job.backend == f["backends"][0] or f["backends"] == (0, 1))
        if strict and f["loads"] != loaded:
            v.append(("feature:%s:%s" % (f["name"], "refused" if f["loads"] else "accepted"), "document '%s' (backend %d) is %s although %s is expected" % (
                f["name"], job.backend, "refused" if f["loads"] else "accepted", "a successful import" if f["loads"] else "a refusal")))
        if loaded and strict:
            miss = [e for e in f["expect"] if not re.search(e, out)]
            if miss:
                v.append(("feature:%s:expect" % f["name"], "document '%s' (backend %d) loads but the topology does not show %s" % (f["name"], job.backend, miss[:3])))
    if job.kind == "topo":
        mset = re.search(r"set rc=(-?\d+)", out)
        mload = re.search(r"\nload rc=(-?\d+)", out)
        if mload and mload.group(1) == "0":
            wf = next((l for l in (wf_lines or []) if l.startswith("wf ")), None)
            chk = re.search(r"\ncheck (\w+)", out)
            clauses = sorted(set(re.findall(r"([a-z0-9-]+)@", wf or "")))
            if wf is None:
                v.append(("wf-no-verdict", "the dump of the loaded topology could not be judged by wf_check"))
            elif not wf.startswith("wf ok"):
                if job.origin.startswith(("valid:", "filter:")):
                    # an unmutated valid document (export of a valid topology, bundled XML file), whatever the filters:
                    # never covered by the known acceptance of inconsistent documents
                    v.append(("wf-valid-document:%s" % ",".join(clauses), "a VALID document (%s) loads into a topology that violates WF clause(s) %s" % (job.origin[:120], ",".join(clauses))))
                elif set(clauses) <= SET_CLAUSES:
                    v.append(("inconsistent-sets-accepted", "load succeeds on XML whose object sets / indexes / root type are inconsistent; the topology violates WF clause(s) %s" % ",".join(clauses)))
                else:
                    v.append(("wf:%s" % ",".join(c for c in clauses if c not in SET_CLAUSES), "loaded topology violates WF clause(s) %s" % ",".join(clauses)))
            if chk and chk.group(1) != "ok" and wf is not None and wf.startswith("wf ok"):
                cm = re.search(r": (hwloc__check_\w+|hwloc_topology_check): Assertion `([^']*)' failed", job.err)
                gps = [int(g) for g in re.findall(r"\nO \d+ ty=\d+ dp=-?\d+ os=\d+ gp=(\d+)", out)]
                gpbad = 0 in gps or len(set(g % 4294967296 for g in gps)) != len(gps)
                if (cm and "gp_index" in cm.group(2)) or (not cm and gpbad):
                    v.append(("gp-index-unvalidated-check-abort", "gp_index values are imported unchecked (0, or colliding once truncated to the 32-bit bitmap index used by hwloc__check_object): hwloc_topology_check() aborts: `%s'" % (cm.group(2)[:100] if cm else "")))
                else:
                    v.append(("topology_check-abort-wf-ok:%s" % (cm.group(1) if cm else "?"), "hwloc_topology_check() aborts on a loaded topology that wf_check accepts: %s" % (cm.group(2)[:120] if cm else "")))
            if re.search(r"dup rc=0", out) and "dup-check abort" in out and chk and chk.group(1) == "ok":
                v.append(("dup-check-abort", "hwloc_topology_check() aborts on the dup of a loaded topology that passes it"))
        else:
            rs = re.search(r"reload-set rc=(-?\d+) errno=(\w+)", out)
            rl = re.search(r"reload-load rc=(-?\d+)", out)
            if mset and mset.group(1) == "0" and rs and rs.group(1) != "0":
                v.append(("reload-after-failed-load-ebusy", "after hwloc_topology_load() failed the topology cannot be configured again: set_synthetic returns -1 errno=%s (state stays IS_LOADING; hwloc.h: 'configured and loaded again')" % rs.group(2)))
            elif rl and rl.group(1) == "0" and re.search(r"reload-infos \d+", out) and not reload_infos_ok(job, out):
                v.append(("failed-load-leaves-topology-infos", "topology-level infos imported before an XML load failed survive the failure (hwloc_topology_load's failure path does not clear topology->infos): the next successful load on the same handle shows them: %s" % re.search(r"reload-infos[^\n]*", out).group(0)[:160]))
            elif not rl or rl.group(1) != "0" or "reload-check ok" not in out or "reload-nbpus 8" not in out or ("reload-cpukinds" in out and ("reload-cpukinds %d" % (0 if job.tflags & 512 else 2)) not in out):
                v.append(("reload-failed", "after a failed set/load, configuring a valid synthetic source and loading again does not give the expected topology"))
    return v


def reload_infos_ok(job, out):
    names = re.search(r"reload-infos \d+([^\n]*)", out).group(1).split()
    if job.opts & 16:
        return names == []                       # the reload document has no topology-level <info>
    return set(names) <= {'"hwlocVersion"', '"ProcessName"', '"Backend"', '"SyntheticDescription"'} and len(names) == len(set(names))


def wf_verdicts(jobs, wfdrv):
    """Run the C01 extraction (verified wf_check) over the dumps of all loaded jobs."""
    res = {}
    loaded = [j for j in jobs if j.kind == "topo" and "\nT flags=" in j.out]
    if not loaded:
        return res
    chunks = [loaded[k::C.NCPU] for k in range(C.NCPU)]

    def one(chunk):
        txt = "".join("echo JOB %s\n%s" % (j.id, j.out[j.out.index("\nT flags=") + 1:j.out.index("\nE\n") + 3] if "\nE\n" in j.out else "") for j in chunk)
        rc, out, err = C.sh([wfdrv], input=txt.encode("latin1"), timeout=600)
        return out.decode("latin1"), rc, err.decode("latin1")

    with cf.ThreadPoolExecutor(max_workers=C.NCPU) as ex:
        for out, rc, err in ex.map(one, [c for c in chunks if c]):
            cur = None
            for l in out.split("\n"):
                if l.startswith("echo JOB "):
                    cur = l[9:]
                    res[cur] = []
                elif cur:
                    res[cur].append(l)
    return res


# ------------------------------------------------------------- generators ----
TFLAGS = [0, 0, 0, 1, 8, 128, 256, 512, 128 | 256 | 512, 1 | 8]


def make_jobs(run, exe, scratch):
    rng = run.rng
    quick = run.tier == "quick"
    mult = 1 if quick else 30   # x30 keeps the thorough tier under 15 min on a loaded 16-core machine (x50 measured: 22 min at load 50+)
    jobs = []

    def add(kind, data, origin, backends=(0,), methods=("buf",), tflags=None, opts=None):
        for b in backends:
            for me in methods:
                # option bits: 1/2 userdata callback modes, 4 keep all types, 8 built-in XML exporter in the battery, 16 reload from XML, 32 importer diagnostics on
                o = (rng.choice([4, 4, 5, 6, 0, 1]) | rng.choice([8, 8, 0]) | rng.choice([16, 0]) | rng.choice([32, 0, 0, 0, 0, 0])) if opts is None else opts
                jobs.append(Job(kind, b, me, rng.choice(TFLAGS) if tflags is None else tflags, o, data, origin))

    # 0. regression corpus (minimised reproducers), every backend/method they name
    cdir = os.path.join(C.VERIF, "corpus", "c06")
    for n in sorted(os.listdir(cdir)) if os.path.isdir(cdir) else []:
        if not n.endswith(".case"):
            continue
        kind, b, me, tf, op, data = parse_replay(open(os.path.join(cdir, n)).read())
        jobs.append(Job(kind, b, me, tf, op, data, "corpus:" + n))

    # 1. seeds: hand-written rich documents, the bundled corpus, exports of generated synthetic topologies
    seeds = [("rich3", G.rich_seed(True)), ("rich2", G.rich_seed(False)), ("tiny2", G.tiny_seed(False)), ("tiny3", G.tiny_seed(True))]
    xmls = S.xml_corpus()
    for x in xmls:
        seeds.append(("corpus/" + os.path.basename(x), open(x, "rb").read()))
    syn_jobs = []
    nsyn = 6 if quick else 60
    for i in range(nsyn):
        p = os.path.join(scratch, "syn%d" % i)
        with open(p, "w") as f:
            f.write(S.gen_synthetic(rng, max_pus=16) + "\n")
        j = Job("synth", 0, "buf", 0, 0, b"", "synthetic")
        j.id, j.path = "s%d" % i, p
        syn_jobs.append(j)
    txt = "".join(j.line() for j in syn_jobs)
    C.sh([exe], input=txt.encode(), env=C.run_env(), timeout=300)
    for j in syn_jobs:
        for suf in (".v3.xml", ".v2.xml"):
            if os.path.exists(j.path + suf):
                seeds.append(("export/" + open(j.path).read().strip() + suf, open(j.path + suf, "rb").read()))
    for name, data in seeds:
        add("topo", data, "valid:" + name, backends=(0, 1), methods=("buf", "file") if len(data) < 30000 else ("buf",), tflags=0, opts=5 | 8)
        add("topo", data, "valid:" + name, backends=(0,), tflags=0, opts=5)
    small = [(n, d) for n, d in seeds if len(d) <= 16000]
    # 2. structure-aware mutations
    nmut = 1100 * mult
    osdev_budget = [2 if quick else 8]
    for i in range(nmut):
        name, data = rng.choice(small) if rng.random() < 0.8 else rng.choice(seeds[:4])
        allow = osdev_budget[0] > 0 and rng.random() < 0.01
        m, ops = G.mutate(rng, data, allow_osdev_unknown=allow)
        if allow and any("osdev_type" in o for o in ops):
            osdev_budget[0] -= 1
        r = rng.random()
        backends = (0,) if r < 0.7 else (1,) if r < 0.85 else (0, 1)
        add("topo", m, "mutation:%s:%s" % (name, "+".join(ops)), backends=backends, methods=("file",) if rng.random() < 0.1 else ("buf",))
    # 2b. strings at the extremes of every escape's expansion ratio, exported by both exporters
    for k, (m, desc) in enumerate(G.escape_extremes(seeds[0][1], seeds[1][1], full=not quick)):
        add("topo", m, desc, backends=(0,) if k % 5 else (1,), tflags=0, opts=4 | 8)
        if k % 4 == 0:
            add("topo", m, desc, backends=(0,), tflags=0, opts=4)
    # 2c. userdata: valid base64 content of many lengths with the length attribute, the content, the padding, the
    #     encoding and the name moved around it; import callback installed (decoding mode mostly)
    ulens = (list(range(0, 13)) + [54, 55, 56, 57, 58, 102, 103, 104, 127, 128, 129, 130]) if quick else list(range(0, 131))
    for k, (m, desc) in enumerate(G.userdata_docs(ulens)):
        add("topo", m, desc, backends=(k % 2,), tflags=0, opts=4 | (1, 1, 1, 1, 2, 0)[k % 6] | (8 if k % 3 == 0 else 0))
    # 2d. VALID documents under type-filter assignments: exports of synthetic topologies whose indexes are shuffled /
    #     interleaved on every level, and the bundled XML files, loaded with KEEP_NONE on each normal type present in
    #     turn, on pairs of them, and with KEEP_STRUCTURE: children of a dropped object are re-attached to its parent
    def fopts(a, b=None, val=1):
        return ((a + 1) << 10) | (((b + 1) << 15) if b is not None else 0) | (val << 20)
    inter = ["pack:2 core:2 pu:2(indexes=0,4,2,6,1,5,3,7)", "pack:2(indexes=1,0) core:2(indexes=2,0,3,1) pu:2(indexes=7,3,5,1,6,2,4,0)",
             "pack:2 [numa] l2:2 core:1 pu:2(indexes=0,2,4,6,1,3,5,7)", "group:2 pack:2 core:1 pu:2(indexes=0,4,1,5,2,6,3,7)",
             "pack:2 die:2 l3:1 l2:1 l1:1 core:1 pu:1(indexes=3,1,2,0)", "[numa] pack:3(indexes=2,0,1) l1i:1 core:2 pu:1(indexes=5,0,3,1,4,2)"]
    if not quick:
        inter += [S.gen_synthetic(rng, max_pus=16) for _ in range(30)]
    ijobs = []
    for i, d in enumerate(inter):
        p = os.path.join(scratch, "inter%d" % i)
        with open(p, "w") as f:
            f.write(d + "\n")
        j = Job("synth", 0, "buf", 0, 0, b"", "synthetic")
        j.id, j.path = "i%d" % i, p
        ijobs.append(j)
    C.sh([exe], input="".join(j.line() for j in ijobs).encode(), env=C.run_env(), timeout=300)
    fdocs = []
    for j in ijobs:
        for suf in (".v3.xml", ".v2.xml"):
            if os.path.exists(j.path + suf):
                fdocs.append(("interleaved/" + open(j.path).read().strip() + suf, open(j.path + suf, "rb").read()))
    fdocs += [(n, d) for n, d in seeds[4:4 + len(xmls)] if len(d) <= (60000 if quick else 400000)]
    k = 0
    for name, data in fdocs:
        present = sorted(set(G.TYPE_VALUES.index(t) for t in re.findall(rb'<object type="([A-Za-z0-9]+)"', data) if t in G.TYPE_VALUES[:20]))
        filterable = [t for t in present if t in (1, 2, 3, 5, 6, 7, 8, 9, 10, 11, 12, 13)]
        combos = [(t, None, 1) for t in filterable] + [(a, b, 1) for ai, a in enumerate(filterable) for b in filterable[ai + 1:]][:(4 if quick or not name.startswith("interleaved") else 40)]
        combos += [(t, None, 2) for t in filterable[:2]]
        if not name.startswith("interleaved") and quick:
            combos = combos[:3]
        for a, b, val in combos:
            k += 1
            add("topo", data, "filter:%s:%s%s=%d" % (name, G.TYPE_VALUES[a].decode(), ("+" + G.TYPE_VALUES[b].decode()) if b is not None else "", val),
                backends=(k % 2,), tflags=0, opts=fopts(a, b, val) | (8 if k % 3 == 0 else 0))
    # 3. truncation at every byte of the small documents (nolibxml), sampled for libxml
    for name, data in (seeds[2:3] if quick else seeds[2:4] + [seeds[0]]):
        for k in range(len(data) + 1):
            add("topo", data[:k], "truncate:%s:%d" % (name, k), backends=(0,), methods=("raw",) if k and k % 7 == 0 else ("buf",), tflags=0, opts=5)
    data = seeds[0][1]
    for k in (range(0, len(data), 9) if quick else []):
        add("topo", data[:k], "truncate:rich3:%d" % k, backends=(0,), tflags=0, opts=5)
    # 4. lexical boundary cases and unstructured bytes
    for h in G.HEADER_CASES:
        add("topo", h, "header", backends=(0, 1), tflags=0, opts=0)
        add("diff", h, "header", backends=(0, 1), tflags=0, opts=0)
    for i in range(150 * mult):
        add("topo", G.unstructured(rng), "unstructured", backends=(0,) if i % 4 else (1,))
    for i in range(100 * mult):
        name, data = rng.choice(seeds[:4])
        add("topo", G.mutate_bytes(rng, data)[0], "bytes:" + name)
    # 5. diff documents
    add("diff", G.diff_seed(), "valid:diff", backends=(0, 1), methods=("buf", "file"))
    for i in range(250 * mult):
        d = G.diff_seed(rng, rng.choice([1, 2, 3, 6]))
        m, ops = G.mutate(rng, d) if rng.random() < 0.8 else G.mutate_bytes(rng, d)
        add("diff", m, "mutation:diff:" + "+".join(ops), backends=(0,) if rng.random() < 0.7 else (1,))
    d = G.diff_seed()
    for k in range(0, len(d) + 1, 1 if not quick else 3):
        add("diff", d[:k], "truncate:diff:%d" % k, backends=(0,))
    # 6. size boundaries of <distances2> (nbobjs * nbobjs in 32-bit arithmetic)
    for nb in ([65536] if quick else [65536, 65537, 4294967295]):
        t = G.tiny_seed(False).replace(b'nbobjs="2"', b'nbobjs="%d"' % nb)
        add("topo", t, "boundary:distances-nbobjs-%d" % nb, backends=(0,), tflags=0, opts=4)
    # 6b. the root object itself: every type name, and I/O roots with valid / invalid bus ids (objects the importer "ignores")
    for si, (name, data) in enumerate(seeds[2:4]):
        toks0 = G.tokenize(data)
        ri = next(i for i, t in enumerate(toks0) if t[0] == "tag" and t[2] == b"object")
        variants = [[(b"type", ty)] for ty in G.TYPE_VALUES]
        for ty in (b"Bridge", b"PCIDev", b"OSDev", b"Misc"):
            for extra in ([(b"pci_busid", b"zz")], [(b"pci_busid", b"0000:00:00.0")], [(b"bridge_pci", b"zz"), (b"bridge_type", b"0-1")],
                          [(b"bridge_type", b"0-1"), (b"pci_busid", b"zz")], [(b"osdev_type", b"x")]):
                variants.append([(b"type", ty)] + extra)
                variants.append([(b"type", ty)] + extra + [(b"cpuset", None), (b"nodeset", None), (b"complete_cpuset", None), (b"complete_nodeset", None)])
        for k, var in enumerate(variants):
            toks = G.tokenize(data)
            attrs = toks[ri][3]
            for an, av in var:
                attrs[:] = [a for a in attrs if a[0] != an]
                if av is not None:
                    attrs.insert(0 if an == b"type" else len(attrs), [an, av])
            desc = "root:%s:%s" % (name, "+".join("%s=%s" % (a.decode(), (v or b"-").decode("latin1")) for a, v in var))
            add("topo", G.serialize(toks), desc, backends=(k % 2,) if quick else (0, 1), tflags=0, opts=4 | (16 if k % 3 == 0 else 0))
            # and with the default type filters (icaches, I/O and Misc filtered out): the root is never filtered
            add("topo", G.serialize(toks), desc + ":default-filters", backends=((k + 1) % 2,) if quick else (0, 1), tflags=0, opts=(16 if k % 3 == 1 else 0))
    for si, (name, data) in enumerate(seeds[0:2]):
        toks0 = G.tokenize(data)
        ri = next(i for i, t in enumerate(toks0) if t[0] == "tag" and t[2] == b"object")
        for k, ty in enumerate(G.TYPE_VALUES[:23]):
            toks = G.tokenize(data)
            for a in toks[ri][3]:
                if a[0] == b"type":
                    a[1] = ty
            add("topo", G.serialize(toks), "root:%s:type=%s:subtree" % (name, ty.decode()), backends=((k + si) % 2,), tflags=0, opts=(4 if k % 2 else 0) | 8)
    # 6c. documents that fail late, after topology-level infos (and cpukinds, memattrs, distances) were imported:
    #     the reload step then shows whether anything of the failed document survives
    late = [b'<cpukind bogus="1"/>', b'<memattr bogus="1"/>', b'<distances2 nbobjs="0"/>', b'<info bogus="1"/>', b'<support', b'<memattr name="x" flags="1"><bogus/></memattr>']
    r3 = seeds[0][1]
    i0 = r3.index(b'<info name="Backend" value="Linux"/>\n</topology>')
    r3early = r3[:r3.index(b"<distances2 ")] + b'<info name="Backend" value="Linux"/>\n<info name="Foo" value="Bar"/>\n' + r3[r3.index(b"<distances2 "):i0] + b"</topology>\n"
    for base, bname in ((r3early, "rich3-infos-first"), (seeds[1][1], "rich2")):
        for k, bad in enumerate(late):
            doc = base.replace(b"</topology>", bad + b"</topology>")
            add("topo", doc, "late-failure:%s:%d" % (bname, k), backends=(0, 1), tflags=0, opts=4 | 16)
            add("topo", doc, "late-failure:%s:%d" % (bname, k), backends=(0,), tflags=0, opts=4)
    # 6d. feature documents: compatibility conversions, every sub-element and every documented refusal, with expectations
    for f in G.feature_docs():
        for b in f["backends"]:
            jobs.append(Job(f["kind"], b, f["method"], f["tflags"], f["opts"], f["data"], "feature:" + f["name"]))
    # 7. nesting depth: one C stack frame of hwloc__xml_import_object per level
    depth = 30000
    o = b'<object type="Group" cpuset="0x1" complete_cpuset="0x1" nodeset="0x1" complete_nodeset="0x1" kind="0" subkind="0">'
    deep = (b'<topology version="2.0"><object type="Machine" os_index="0" cpuset="0x1" complete_cpuset="0x1" allowed_cpuset="0x1" nodeset="0x1" complete_nodeset="0x1" allowed_nodeset="0x1" gp_index="1">'
            b'<object type="NUMANode" os_index="0" cpuset="0x1" complete_cpuset="0x1" nodeset="0x1" complete_nodeset="0x1" local_memory="1024"/>' + o * depth +
            b'<object type="PU" os_index="0" cpuset="0x1" complete_cpuset="0x1" nodeset="0x1" complete_nodeset="0x1"/>' + b"</object>" * depth + b"</object></topology>")
    add("topo", deep, "boundary:nesting-depth-%d" % depth, backends=(0, 1), tflags=0, opts=0)
    return jobs


def parse_replay(txt):
    body = txt.split("---\n", 1)[1] if txt.startswith("property:") else txt
    m = re.search(r"^job: (\w+) (\d+) (\w+) (\d+) (\d+)", body, re.M)
    d = re.search(r"^input-base64: ?(\S*)", body, re.M)
    return m.group(1), int(m.group(2)), m.group(3), int(m.group(4)), int(m.group(5)), base64.b64decode(d.group(1))


# -------------------------------------------------------------- shrinking ----
def shrink(run, exe, wfdrv, job, key, scratch):
    budget = 120 if run.tier == "quick" else 400
    n = [0]

    def fails(cands):
        js = [Job(job.kind, job.backend, job.method, job.tflags, job.opts, c, job.origin) for c in cands]
        d = tempfile.mkdtemp(dir=scratch)
        run_jobs(exe, js, d, watchdog=3 if key.startswith(("hang", "osdev")) else 5)
        wf = wf_verdicts(js, wfdrv)
        return [any(k == key for k, _ in judge(run, j, wf.get(j.id))) for j in js]

    def still(c):
        n[0] += 1
        return fails([c])[0]

    if key.startswith(("hang", "osdev")):
        budget = 12
    data = G.ddmin(job.data, still, max_tests=budget)
    return Job(job.kind, job.backend, job.method, job.tflags, job.opts, data, job.origin + " (shrunk from %d bytes, %d tests)" % (len(job.data), n[0]))


# ------------------------------------------------- tokenizer correspondence ----
def tok_correspondence(run, jobs, scratch):
    """Model tokenizer (extracted XmlLex walker) vs the real static functions of
    topology-xml-nolibxml.c on the same bytes."""
    try:
        tok = tok_build()
        drv = C.extract("C06", "drv_c06.ml", prelude=["hvnum.ml"])
    except Exception as e:  # model not buildable: reported through the proof obligations
        run.cov["tokenizer_correspondence"] = "not run: %s" % str(e)[:300]
        return
    # the extracted model works on lists (a store copies the block): cost grows faster than the square of the
    # size, so the bulk of the comparison uses documents up to 2 KB (quick) / 6 KB (thorough) plus a few larger ones
    quick = run.tier == "quick"
    seen, inputs, big = set(), [], 0
    for j in jobs:
        if j.kind not in ("topo", "diff") or (j.kind, j.data) in seen:
            continue
        if len(j.data) <= (2000 if quick else 4000):
            pass
        elif len(j.data) <= 6000 and quick and big < 24:
            big += 1
        elif len(j.data) <= 16000 and not quick and big < 64:
            big += 1
        else:
            continue
        seen.add((j.kind, j.data))
        inputs.append(j)
    lim = 2200 if quick else 12000
    inputs = inputs[:lim]
    # direct differential run of hwloc_decode_from_base64 against the block model decode_mem: every length, every target
    # size around the need, valid and damaged encodings (kind b64: one file of "<targsize> <text>" lines per case)
    cases = list(G.b64_cases(range(0, 70) if quick else range(0, 200)))
    for k in range(0, len(cases), 300):
        bj = Job("b64", 0, "buf", 0, 0, b"".join(b"%d %s\n" % (t, v) for t, v in cases[k:k + 300]), "b64:%d" % k)
        bj.id = "b%d" % k
        bj.path = os.path.join(scratch, "b64-%d" % k)
        with open(bj.path, "wb") as f:
            f.write(bj.data)
        inputs.append(bj)
    run.cov["base64_decode_cases"] = len(cases)
    lst = os.path.join(scratch, "toklist")
    with open(lst, "w") as f:
        for j in inputs:
            f.write("%s %s %s\n" % (j.id, j.kind, j.path))
    chunks = [inputs[k::C.NCPU] for k in range(C.NCPU)]

    def one(chunk):
        txt = "".join("%s %s %s\n" % (j.id, j.kind, j.path) for j in chunk).encode()
        rc1, o1, e1 = C.sh([tok], input=txt, env=C.run_env(), timeout=900)
        rc2, o2, e2 = C.sh([drv], input=txt, timeout=900)
        return chunk, rc1, o1.decode("latin1"), e1.decode("latin1"), rc2, o2.decode("latin1"), e2.decode("latin1")

    ndiff = nsame = 0
    with cf.ThreadPoolExecutor(max_workers=C.NCPU) as ex:
        for chunk, rc1, o1, e1, rc2, o2, e2 in ex.map(one, [c for c in chunks if c]):
            b1 = {m.group(1): m.group(2) for m in re.finditer(r"CASE (\S+)\n(.*?)ENDCASE\n", o1, re.S)}
            b2 = {m.group(1): m.group(2) for m in re.finditer(r"CASE (\S+)\n(.*?)ENDCASE\n", o2, re.S)}
            for j in chunk:
                t1, t2 = b1.get(j.id), b2.get(j.id)
                if t1 is None and t2 is not None and "OOB" in t2:
                    # the real tokenizer died (sanitizer) exactly where the model reports an out-of-bounds access
                    nsame += 1
                    run.bump("tok:model-oob-impl-crash")
                    continue
                if t1 == t2 and t1 is not None:
                    nsame += 1
                    run.cov["traces_validated_against_impl"] += 1
                    continue
                ndiff += 1
                l1, l2 = (t1 or "<no output>").split("\n"), (t2 or "<no output>").split("\n")
                k = next((i for i in range(min(len(l1), len(l2))) if l1[i] != l2[i]), min(len(l1), len(l2)))
                run.violation("correspondence:base64-decode" if j.kind == "b64" else "correspondence:tokenizer",
                              ("hwloc_decode_from_base64 and the block model decode_mem (proved in bounds) answer differently for the same (target size, text) (%s)" if j.kind == "b64" else
                               "model tokenizer XmlLex and the real nolibxml tokenizer print different token streams for the same bytes (%s)") % j.origin,
                              j.replay_text() + "--- first differing line %d\nimpl:  %s\nmodel: %s\n--- impl stderr\n%s\n--- model stderr\n%s" % (
                                  k, l1[k] if k < len(l1) else "<end>", l2[k] if k < len(l2) else "<end>", e1[-1500:], e2[-500:]), no_input=True)
    run.cov["tokenizer_correspondence"] = {"inputs": len(inputs), "identical_streams": nsame, "different": ndiff}


# ------------------------------------------------- importer correspondence ----
def strip_unmodelled(data):
    """the same document without the top-level elements the import model does not decide"""
    return re.sub(rb"<(distances2hetero|distances2|memattr|cpukind)\b[^>]*?(/>|>.*?</\1>)\s*", b"", data, flags=re.S)


def import_correspondence(run, jobs, exe, scratch):
    """Acceptance model XmlImport.import_doc vs the real importer: same documents (those the strict parser of
    gen/xmlfuzz_gen.py can turn into an element tree), C side = nolibxml, every type kept, no callback;
    C accepts iff the raw tree reaches the core (shape line of the phase hook); shapes compared when both accept."""
    try:
        drv = C.extract("C06", "drv_c06.ml", prelude=["hvnum.ml"])
    except Exception as e:
        run.cov["import_correspondence"] = "not run: %s" % str(e)[:300]
        return
    quick = run.tier == "quick"
    seen, docs, irregular = set(), [], 0
    for j in jobs:
        if j.kind != "topo" or j.method == "path" or len(j.data) > 9000:
            continue
        stripped = strip_unmodelled(j.data)
        for data in ((j.data,) if stripped == j.data else (stripped,)):
            if data in seen:
                continue
            seen.add(data)
            p = G.parse_strict(data)
            if p is None:
                irregular += 1
                continue
            docs.append((data, p, j.origin))
    lim = 3000 if quick else 40000
    docs = docs[:lim]
    cjobs = [Job("topo", 0, "buf", 0, 4 | 256, data, origin) for data, p, origin in docs]
    d2 = tempfile.mkdtemp(dir=scratch)
    run_jobs(exe, cjobs, d2)
    chunks = [list(range(k, len(docs), C.NCPU)) for k in range(C.NCPU)]

    def one(idx):
        path = os.path.join(d2, "imp-%d" % idx[0])
        with open(path, "wb") as f:
            for i in idx:
                f.write(G.serialize_doc(cjobs[i].id, docs[i][1]))
        rc, out, err = C.sh([drv], input=("m imp %s\n" % path).encode(), timeout=1200)
        return out.decode("latin1"), err.decode("latin1")

    model = {}
    with cf.ThreadPoolExecutor(max_workers=C.NCPU) as ex:
        for out, err in ex.map(one, [c for c in chunks if c]):
            for m in re.finditer(r"IMP (\S+) (accept|reject|unmodelled) ?(\S*)", out):
                model[m.group(1)] = (m.group(2), m.group(3))
    stats = {"documents": len(docs), "lexically_irregular_skipped": irregular, "unmodelled": 0, "both_accept_same_shape": 0, "both_reject": 0,
             "core_refuses_after_import": 0, "c_abnormal": 0, "disagreements": 0}
    for j in cjobs:
        mv = model.get(j.id)
        if mv is None:
            run.violation("correspondence:import:no-model-answer", "the import model gave no answer for a document (%s)" % j.origin, j.replay_text(), no_input=True)
            continue
        if mv[0] == "unmodelled":
            stats["unmodelled"] += 1
            run.bump("import-tie:unmodelled:" + j.origin.split(":")[0])
            continue
        if j.status != "exit:0":
            stats["c_abnormal"] += 1          # judged by the main run (sanitizer / watchdog), not here
            continue
        sm = re.search(r"\nshape (\S+)", j.out)
        loaded = "\nload rc=0" in j.out
        if sm and not loaded:
            stats["core_refuses_after_import"] += 1
        c_accept = sm is not None
        if c_accept and mv[0] == "accept":
            if sm.group(1) == mv[1]:
                stats["both_accept_same_shape"] += 1
                run.bump("import-tie:accept:" + j.origin.split(":")[0])
                run.cov["traces_validated_against_impl"] += 1
                continue
            what = "both accept but the object trees differ: C %s model %s" % (sm.group(1)[:200], mv[1][:200])
        elif (not c_accept) and mv[0] == "reject":
            stats["both_reject"] += 1
            run.bump("import-tie:reject:" + j.origin.split(":")[0])
            run.cov["traces_validated_against_impl"] += 1
            continue
        else:
            what = "C %s, model %s" % ("accepts" if c_accept else "refuses", mv[0] + "s")
        stats["disagreements"] += 1
        run.violation("correspondence:import", "importer acceptance model XmlImport.import_doc and hwloc disagree on a document (%s): %s" % (j.origin, what),
                      j.replay_text() + "--- C output\n" + "\n".join(l for l in j.out.split("\n") if not re.match(r"[TLDOE]( |$)", l))[-800:] + "\n--- model\n%s %s\n" % mv, no_input=True)
    run.cov["import_correspondence"] = stats


# ------------------------------------------------------------------ check ----
def check(run, replay=None):
    import time
    tm = {}
    t0 = time.time()
    proof = C.prove("C06")
    tm["prove"] = round(time.time() - t0, 1)
    exe = C.build_harness("hwv_xmlfuzz", ["hwv_xmlfuzz.c"], deps=DEPS, extra_flags=COVFLAGS)
    wfdrv = C.extract("C01", "drv_c01.ml", prelude=WF_PRELUDE)
    scratch = tempfile.mkdtemp(prefix="hwv-c06-", dir=os.environ.get("TMPDIR", "/tmp"))
    try:
        if replay:
            kind, b, me, tf, op, data = parse_replay(open(replay).read())
            jobs = [Job(kind, b, me, tf, op, data, "replay")]
        else:
            jobs = make_jobs(run, exe, scratch)
        t0 = time.time()
        run_jobs(exe, jobs, scratch)
        tm["harness"] = round(time.time() - t0, 1)
        # a watchdog hit is confirmed alone with three times the limit (the machine may be loaded by other checks)
        # (SIGXCPU = 5 s of CPU time spent by the job itself: load-independent, not re-run)
        slow = [j for j in jobs if j.status == "signal:14"]
        if slow:
            again = [Job(j.kind, j.backend, j.method, j.tflags, j.opts, j.data, j.origin) for j in slow]
            d2 = tempfile.mkdtemp(dir=scratch)
            for a in again:          # one at a time: nothing else of this check competes for the machine
                run_jobs(exe, [a], d2, watchdog=15)
            for j, a in zip(slow, again):
                j.out, j.err, j.status = a.out, a.err, a.status
                run.bump("watchdog-confirmed" if a.status in ("signal:14", "signal:24") else "watchdog-not-confirmed")
        t0 = time.time()
        wf = wf_verdicts(jobs, wfdrv)
        tm["wf_check"] = round(time.time() - t0, 1)
        found = {}
        for j in jobs:
            vs = judge(run, j, wf.get(j.id))
            loaded = "\nload rc=0" in j.out or "diff-load rc=0" in j.out
            okind = j.origin.split(":")[0]
            run.count("%s|%d|%s|%s" % (j.kind, j.backend, j.status, hash(j.data)), nontrivial=loaded,
                      sample={"origin": j.origin[:120], "backend": j.backend, "status": j.status, "loaded": loaded} if okind == "mutation" else None,
                      kind="%s:%s:%s" % (j.kind, okind, "accepted" if loaded else ("rejected" if j.status == "exit:0" else "abnormal")))
            run.bump("backend:%s" % ("libxml" if j.backend else "nolibxml"))
            for key, what in vs:
                if key not in found or len(j.data) < len(found[key][0].data):
                    found[key] = (j, what)
        for key, (j, what) in sorted(found.items()):
            known = any(re.fullmatch(k["key"], key) for k in run.known)
            jj = j
            if not known and not replay and key not in ("not-run",) and len(j.data) > 40 and not key.startswith(("feature:", "wf-valid-document")):   # (a valid document stays as it is: shrinking would make it an invalid one)
                try:
                    jj = shrink(run, exe, wfdrv, j, key, scratch)
                except Exception:
                    jj = j
            run.violation(key, what, jj.replay_text() + "--- harness output (tail)\n" + "\n".join(l for l in j.out.split("\n") if not re.match(r"[TLDOE]( |$)", l))[-1500:] + "\n--- sanitizer output (head)\n" + j.err[:2500])
        t0 = time.time()
        tok_correspondence(run, jobs, scratch)
        tm["tokenizer_correspondence"] = round(time.time() - t0, 1)
        t0 = time.time()
        if not replay:
            import_correspondence(run, jobs, exe, scratch)
        tm["import_correspondence"] = round(time.time() - t0, 1)
        run.cov["timing_s"] = tm
    finally:
        shutil.rmtree(scratch, ignore_errors=True)
    run.cov["rule"] = ("one evaluation = one (input bytes, backend, entry point, flags, callback) job run by the real library under ASan/UBSan/LSan with a 5 s watchdog; "
                       "non-trivial = the import succeeded (topology dumped, judged by wf_check and hwloc_topology_check, read-only battery run)")
    run.assumptions += ["libxml2's own parser is observed (sanitizers, watchdog), not modelled",
                        "C memory safety beyond the modelled tokenizer index arithmetic is the sanitizers' verdict on the explored inputs",
                        "use of uninitialised memory is not detected by the sanitizers used (no MSan in this toolchain)"]
    return run.finish(proof, trusted=["harness/hwv_xmlfuzz.c, harness/hwv_xmltok.c (drives the static tokenizer functions of the current topology-xml-nolibxml.c), ocaml/drv_c06.ml",
                                      "wf_check through the C01 extraction (coq/Topo/WFCheck.v) and harness/hwv_dump.h",
                                      "gcc ASan/UBSan/LSan runtime, alarm() watchdog"])
