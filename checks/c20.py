"""C20: command-line tools compute what the library API defines.

proof   : coq/Props/Properties_C20.v (model Text/Calc.v: location grammar and evaluator of
          utils/hwloc/hwloc-calc.h and the output modes of hwloc-calc.c; denotational spec over BSet)
tie     : the REAL tools (hwloc-calc, hwloc-distrib, hwloc-diff, hwloc-patch, lstopo-no-graphics compiled
          here from the current utils/ sources with ASan+UBSan against the current library) vs
          ocaml/drv_c20.ml (extracted model on the dump of the same topology) vs harness/hwv_calcref.c
          (the same quantities through the public library API)
search  : generated topologies (synthetic descriptions, XML corpus) x generated command lines over the
          documented option and location grammars; denotational spec evaluated in python on the library
          data; cross-mode clauses on the tool outputs themselves; lstopo/diff/patch/distrib clauses;
          malformed arguments observed under the sanitizers.
"""
import concurrent.futures
import glob
import os
import re
import shutil
import subprocess
import tempfile
import threading
import time

from hv import common as C
from gen import calc_gen as G
from gen import topo_sources as TS

TOOLS = ["hwloc-calc", "hwloc-distrib", "hwloc-diff", "hwloc-patch", "hwloc-info"]
LSTOPO_SRC = ["lstopo.c", "lstopo-draw.c", "lstopo-tikz.c", "lstopo-fig.c", "lstopo-svg.c", "lstopo-ascii.c",
              "lstopo-text.c", "lstopo-xml.c", "lstopo-shmem.c", "../hwloc/common-ps.c"]
CRASH_RC = (96, 97, 98, 124, 134, 139)


# ---------------------------------------------------------------------------
# build
def _tool_sources():
    fs = []
    for d in ("utils/hwloc", "utils/lstopo"):
        dd = os.path.join(C.REPO, d)
        for n in sorted(os.listdir(dd)):
            if n.endswith((".c", ".h")):
                fs.append(os.path.join(dd, n))
    return fs


def build_tools():
    """The tools are not part of libhwloc_v.a: compile the current utils/ sources against it.
    Cached under build/tools/<hash of library + utils sources>."""
    lib = C.build_lib(True)
    h = C.file_hash(_tool_sources() + C.repo_source_files(), extra="tools-asan " + " ".join(TOOLS))
    d = os.path.join(C.BUILD, "tools", h)
    names = TOOLS + ["lstopo-no-graphics"]
    if all(os.path.exists(os.path.join(d, n)) for n in names):
        os.utime(d)
        return {n: os.path.join(d, n) for n in names}
    base = os.path.join(C.BUILD, "tools")
    os.makedirs(base, exist_ok=True)
    olds = sorted((n for n in os.listdir(base) if ".tmp" not in n), key=lambda n: os.path.getmtime(os.path.join(base, n)))
    for n in olds[:-4]:
        shutil.rmtree(os.path.join(base, n), ignore_errors=True)
    tmp = d + ".tmp%d" % os.getpid()
    os.makedirs(tmp, exist_ok=True)
    # the tools are users of the installed API: no HWLOC_INSIDE_LIBHWLOC
    fl = [f for f in C.cflags(True) if f != "-DHWLOC_INSIDE_LIBHWLOC"]
    inc = ["-I" + os.path.join(C.REPO, "utils/hwloc"), "-I" + os.path.join(C.REPO, "utils/lstopo")]
    procs = []
    for t in TOOLS:
        cmd = ["gcc"] + fl + inc + [os.path.join(C.REPO, "utils/hwloc", t + ".c"), lib, "-o", os.path.join(tmp, t)] + C.LINK_LIBS
        procs.append((t, subprocess.Popen(cmd, stdout=subprocess.PIPE, stderr=subprocess.PIPE)))
    cmd = ["gcc"] + fl + inc + [os.path.join(C.REPO, "utils/lstopo", s) for s in LSTOPO_SRC] + \
          [lib, "-o", os.path.join(tmp, "lstopo-no-graphics")] + C.LINK_LIBS + ["-lncursesw"]
    procs.append(("lstopo-no-graphics", subprocess.Popen(cmd, stdout=subprocess.PIPE, stderr=subprocess.PIPE)))
    fail = []
    for t, p in procs:
        out, err = p.communicate()
        if p.returncode != 0:
            fail.append("%s:\n%s" % (t, err.decode(errors="replace")[-3000:]))
    if fail:
        shutil.rmtree(tmp, ignore_errors=True)
        raise RuntimeError("tool build failed: " + "\n".join(fail))
    try:
        os.rename(tmp, d)
    except OSError:
        shutil.rmtree(tmp, ignore_errors=True)
    return {n: os.path.join(d, n) for n in names}


def prebuild():
    build_tools()
    C.build_harness("hwv_calcref", ["hwv_calcref.c"])
    if os.path.exists(os.path.join(C.COQ_SRC, "Extract", "Extract_C20.v")):
        C.extract("C20", "drv_c20.ml", prelude=["hvnum.ml", "hvdump.ml"])


def tool_env():
    e = C.run_env()
    # leaks at exit() on the tools' error paths are not what C20 is about
    e["ASAN_OPTIONS"] = e["ASAN_OPTIONS"].replace("detect_leaks=1", "detect_leaks=0")
    e["HWLOC_SYNTHETIC_VERBOSE"] = "0"
    e["HWLOC_XML_VERBOSE"] = "0"
    e.pop("DISPLAY", None)
    return e


def run_tool(exe, args, stdin=b"", timeout=10, cwd=None, retry=True):
    rc, out, err = C.sh([exe] + list(args), input=stdin, env=tool_env(), timeout=timeout, cwd=cwd)
    if rc == 124 and retry:
        # a loaded machine is not a hang: only a second, much longer run decides
        rc, out, err = C.sh([exe] + list(args), input=stdin, env=tool_env(), timeout=120, cwd=cwd)
    return rc, out, err


def crashed(rc, err):
    if rc < 0 or rc in CRASH_RC:
        return True
    return b"AddressSanitizer" in err or b"runtime error:" in err


# ---------------------------------------------------------------------------
# the library-side reference as a co-process
class Ref:
    def __init__(self, exe):
        self.p = subprocess.Popen([exe], stdin=subprocess.PIPE, stdout=subprocess.PIPE, stderr=subprocess.PIPE,
                                  env=C.run_env(HWLOC_SYNTHETIC_VERBOSE="0", HWLOC_XML_VERBOSE="0"))
        self.dead = None

    def ask(self, cmd):
        if self.dead:
            return []
        try:
            self.p.stdin.write(cmd.encode("latin-1") + b"\n")
            self.p.stdin.flush()
            lines = []
            while True:
                l = self.p.stdout.readline()
                if not l:
                    self.dead = "reference harness died on: %s\n%s" % (cmd, self.p.stderr.read().decode(errors="replace")[-2000:])
                    return lines
                l = l.decode("latin-1").rstrip("\n")
                if l == ".":
                    return lines
                lines.append(l)
        except (BrokenPipeError, OSError) as e:
            self.dead = "reference harness died on: %s (%s)" % (cmd, e)
            return []

    def close(self):
        try:
            self.p.stdin.close()
            self.p.wait(timeout=10)
        except Exception:
            self.p.kill()

    def set1(self, cmd):
        r = self.ask(cmd)
        if r and r[0].startswith("set "):
            return G.BS.parse(r[0][4:])
        return None

    def fmt(self, s):
        r = self.ask("fmt " + s.text())
        m = re.match(r"fmt \[(.*)\] \[(.*)\] \[(.*)\]$", r[0]) if r else None
        return {"hwloc": m.group(1), "list": m.group(2), "taskset": m.group(3)} if m else None


# ---------------------------------------------------------------------------
# denotational spec (python transliteration of Calc.denote_* in coq/Text/Calc.v), on the library's data
def inside(objs, pcs, pns, flt=None):
    res = []
    for o in objs:
        if not G.passes_filter(o, flt):
            continue
        cs = o["cs"] or G.EMPTY
        ns = o["nds"] or G.EMPTY
        if not cs.is_empty() and not cs.intersects(pcs):
            continue
        if not ns.is_empty() and not ns.intersects(pns):
            continue
        if cs.is_empty() and ns.is_empty():
            continue
        res.append(o)
    return res


class NoSpec(Exception):
    pass


def select(objs, r, logical):
    """the objects an index range designates, as documented in hwloc(7)"""
    w = len(objs)
    k = r[0]
    INT_MAX = 2147483647
    if (k in ("one", "from", "fromto", "wrap") and r[1] > INT_MAX) or (k == "fromto" and r[2] - r[1] + 1 > INT_MAX) \
            or (k == "wrap" and r[2] > INT_MAX):
        raise NoSpec("number above INT_MAX: rejected argument")
    if k == "wrap" and r[2] > 100000:
        raise NoSpec("huge")
    if logical:
        if k == "one":
            idx = [r[1]]
        elif k == "fromto":
            if r[2] < r[1]:
                raise NoSpec("reversed range: rejected argument")
            idx = range(r[1], min(r[2], w) + 1)
        elif k == "from":
            idx = range(r[1], w)
        elif k == "wrap":
            if w == 0:
                idx = []
            else:
                st = r[1] if r[1] < w else 0       # what the code does for a start beyond the level
                idx = [(st + j) % w for j in range(r[2])]
        elif k == "all":
            idx = range(w)
        elif k == "odd":
            idx = range(1, w, 2)
        else:
            idx = range(0, w, 2)
        return [objs[i] for i in idx if i < w]

    def first_os(i):
        for o in objs:
            if o["os"] == i:
                return [o]
        return []
    if k == "one":
        return first_os(r[1])
    if k == "fromto":
        if r[2] < r[1]:
            raise NoSpec("reversed range: rejected argument")
        if r[2] - r[1] > 100000:
            raise NoSpec("huge")
        res = []
        for i in range(r[1], r[2] + 1):
            res += first_os(i)
        return res
    if k == "wrap":
        raise NoSpec("wrap-around over physical indexes is not specified")
    seen = set()
    res = []
    for o in objs:       # "all objects with index values >= X", "all valid [odd|even] index values"
        i = o["os"]
        if i in seen:
            continue
        seen.add(i)
        if (k == "from" and i >= r[1]) or k == "all" or (k == "odd" and i % 2 == 1) or (k == "even" and i % 2 == 0):
            res.append(o)
    return res


def denote_path(info, steps, pcs, pns, logical):
    d, ty, r = steps[0][0], steps[0][1], steps[0][3]
    objs = inside(info.level(d), pcs, pns, steps[0][4] if len(steps[0]) > 4 else None)
    cs, ns = G.EMPTY, G.EMPTY
    for o in select(objs, r, logical):
        if len(steps) == 1:
            c2, n2 = o["cs"] or G.EMPTY, o["nds"] or G.EMPTY
        else:
            c2, n2 = denote_path(info, steps[1:], o["cs"] or G.EMPTY, o["nds"] or G.EMPTY, logical)
        cs, ns = cs.union(c2), ns.union(n2)
    return cs, ns


def guess_format(s):
    if not s.lower().startswith("0x") and "-" in s:
        return "list"
    if "," in s:
        return "hwloc"
    return "taskset"


def apply_mode(mode, a, b):
    return {"": a.union, "~": a.diff, "x": a.inter, "^": a.xor}[mode](b)


def denote_cmdline(info, ref, rootsets, ast):
    """fold of the documented operators over the items in command-line order.
    Returns (cpuset, nodeset, opts)"""
    cs, ns = G.EMPTY, G.EMPTY
    st = {"li": True, "lo": True, "ni": False, "no": False, "cif": None, "cof": "hwloc", "single": False, "sep": None, "oo": False}
    for it in ast:
        if it[0] == "opt":
            o = it[1]
            if o in ("-l", "--logical"):
                st["li"] = st["lo"] = True
            elif o in ("-p", "--physical"):
                st["li"] = st["lo"] = False
            elif o == "--li":
                st["li"] = True
            elif o == "--lo":
                st["lo"] = True
            elif o == "--pi":
                st["li"] = False
            elif o == "--po":
                st["lo"] = False
            elif o in ("-n", "--nodeset"):
                st["ni"] = st["no"] = True
            elif o == "--ni":
                st["ni"] = True
            elif o == "--no":
                st["no"] = True
            elif o in ("--cif", "--cpuset-input-format"):
                st["cif"] = it[2]
            elif o in ("--cof", "--cpuset-output-format"):
                st["cof"] = it[2]
            elif o in ("--nof", "--nodeset-output-format"):
                st["cof"] = it[2]
                st["no"] = True
            elif o == "--taskset":
                st["cof"] = "taskset"
            elif o == "--single":
                st["single"] = True
            elif o == "--sep":
                st["sep"] = it[2]
            elif o == "--oo":
                st["oo"] = True
            continue
        _, mode, kind, payload = it
        if kind == "all":
            c2, n2 = rootsets[0], rootsets[1]
        elif kind == "path":
            c2, n2 = denote_path(info, payload, rootsets[2], rootsets[3], st["li"])
        else:
            f = st["cif"] or guess_format(payload)
            if f == "hwloc" and payload.startswith(","):
                raise NoSpec("known-assert-class")
            if G.absurd_set_token(payload, f == "list"):
                raise NoSpec("list syntax with a negative or huge number (known finding)")
            r = ref.ask("sscan %s %s" % (f, payload))
            m = re.match(r"sscan (-?\d+) (\S+)", r[0]) if r else None
            if not m:
                raise NoSpec("reference parser unavailable")
            if int(m.group(1)) < 0:
                continue                               # "ignored unrecognized argument"
            s = G.BS.parse(m.group(2))
            if st["ni"]:
                n2 = s
                c2 = ref.set1("fromnodeset " + s.text())
            else:
                c2 = s
                n2 = ref.set1("tonodeset " + s.text())
            if c2 is None or n2 is None:
                raise NoSpec("reference conversion unavailable")
        cs, ns = apply_mode(mode, cs, c2), apply_mode(mode, ns, n2)
    return cs, ns, st


# ---------------------------------------------------------------------------
def spec_expected(info, ref, rootsets, ast, outmode):
    """stdout the documented semantics predicts for one location list (None when not evaluated), and the
    known-finding key that applies to it"""
    cs, ns, st = denote_cmdline(info, ref, rootsets, ast)
    phys_kw = (not all_logical_input(ast)) and uses_kw_range(ast)
    keyp = "calc-physical-keyword-range" if phys_kw else None
    cs1 = ref.set1("singlify " + cs.text()) if st["single"] else cs
    om = outmode[0]
    exp = None
    if om == "set":
        res = ns if st["no"] else cs1
        exp = (ref.fmt(res) or {}).get(st["cof"])
        if exp is not None:
            exp += "\n"
    elif om == "largest":
        r = ref.ask("largest " + cs1.text())
        m = re.match(r"largest (-?\d+)(.*)", r[0]) if r else None
        if m and int(m.group(1)) >= 0 and st["lo"]:
            toks = m.group(2).split()
            sep = st["sep"] if st["sep"] is not None else " "
            exp = sep.join(toks) + "\n"
    elif om in ("I", "N"):
        r = ref.ask("covering %d %s %s" % (outmode[2], cs1.text(), ns.text()))
        if r and r[0].startswith("covering") and "?" not in r[0]:
            ents = [x.split(":") for x in r[0].split()[1:]]
            if len(outmode) > 3 and outmode[3]:
                lv = info.level(outmode[2])
                ents = [e for e in ents if int(e[0]) < len(lv) and G.passes_filter(lv[int(e[0])], outmode[3])]
            if om == "N":
                exp = "%d\n" % len(ents)
            elif not st["oo"]:
                sep = st["sep"] if st["sep"] is not None else ","
                exp = sep.join((e[0] if st["lo"] else ("-1" if e[1] == "4294967295" else e[1])) for e in ents) + "\n"
    elif om == "H" and outmode[2]:
        exp = hier_spec(info, outmode[2], cs1, st["lo"], st["sep"] if st["sep"] is not None else " ") + "\n"
    return exp, keyp


def long_type_name(o):
    """hwloc_obj_type_snprintf(LONG_NAMES) for the normal types, from the dump"""
    ty = o["ty"]
    at = dict(x.split(":", 1) for x in o["at"].split(",") if ":" in x) if o["at"] not in ("-", "") else {}
    if 5 <= ty <= 12:
        return "L%s%sCache" % (at.get("cdepth", "?"), {"0": "", "1": "d", "2": "i"}.get(at.get("ctype", "0"), "unknown"))
    if ty == 13:
        return "Group" + (at["gdepth"] if at.get("gdepth", "4294967295") != "4294967295" else "")
    return G.TYPE_NAMES[ty]


def hier_spec(info, depths, cs, logical, sep):
    """-H t1.t2...: one entry per object of the LAST type that intersects the set, in tree order; each entry names its
    ancestor of every listed type, numbered among the objects of that type below the previous one (or by OS index)"""
    def walk(level, parent_cs, sub, prefix):
        res = []
        objs = [o for o in info.level(depths[level]) if o["cs"] is not None and o["cs"].intersects(parent_cs)]
        for k, o in enumerate(objs):
            if not sub.intersects(o["cs"]):
                continue
            idx = k if logical else o["os"]
            name = prefix + ("." if level else "") + "%s:%s" % (long_type_name(o), "-1" if idx == 4294967295 else idx)
            if level == len(depths) - 1:
                res.append(name)
            else:
                res += walk(level + 1, o["cs"], sub.inter(o["cs"]), name)
        return res
    return sep.join(walk(0, info.root["cs"], cs, ""))


WAITING = "Waiting for locations to process on stdin...\n"


def check_stdin_case(ctx, info, ref, rootsets, kind, arg, tool, case, rng, model_cases):
    """hwloc-calc reading its locations from stdin: per-line spec, model, and line k == the same tokens on
    the command line (the per-line state is reset)"""
    args, text = case["args"], case["stdin"]
    rc, out, err = tool(args, stdin=text.encode("latin-1"))
    model_cases.append((args, text, rc, out))
    ctx.count("stdin|%s|%s|%s|%s" % (arg, args, text, out), nontrivial=True, kind="calc-stdin-" + case["out"][0],
              sample={"topology": arg, "args": args, "stdin": text, "stdout": out})
    if rc != 0:
        return
    quiet = any(it[1] in ("-q", "--quiet") for it in case["opts"])
    body = out if quiet else (out[len(WAITING):] if out.startswith(WAITING) else None)
    rtxt = replay_text(kind, arg, "hwloc-calc", args, "stdin: %s\n" % esc(text))
    if body is None:
        ctx.violation("stdin:waiting-line:" + "-".join(esc(a) for a in args)[:60], "stdin mode without the 'Waiting for locations' line: %r" % out[:80], rtxt)
        return
    # what each line must print
    exps = []
    keyp = None
    try:
        for la in case["lines"]:
            if la is None:
                raise NoSpec("stdin line with tokens outside the grammar")
            e, k = spec_expected(info, ref, rootsets, case["opts"] + la, case["out"])
            keyp = keyp or k
            exps.append(e)
    except NoSpec as e:
        ctx.bump("nospec-stdin:" + str(e)[:40])
        exps = None
    if exps is not None and all(e is not None for e in exps):
        ctx.bump("spec-evaluated-stdin-" + case["out"][0])
        exp = "".join(exps)
        if body != exp:
            got, want = body.split("\n"), exp.split("\n")
            k = next((i for i in range(min(len(got), len(want))) if got[i] != want[i]), min(len(got), len(want)))
            ctx.violation(keyp or ("spec:calc-stdin:" + "-".join(esc(a) for a in args)[:60] + ":line%d" % (k + 1)),
                          "hwloc-calc in stdin mode: line %d (%r) printed %r, the documented semantics of that line alone gives %r (options %r, all lines %r)"
                          % (k + 1, case["line_texts"][k] if k < len(case["line_texts"]) else "", got[k] if k < len(got) else None,
                             want[k] if k < len(want) else None, args, case["line_texts"]), rtxt)
            return
    elif exps is not None:
        ctx.bump("spec-skipped-stdin-" + case["out"][0])
    # statelessness on the tool itself: one line, alone on the command line
    cands = [i for i, la in enumerate(case["lines"]) if la and not any(t.startswith("-") for t in case["line_texts"][i].split())]
    segs = body.split("\n")
    if cands and case["out"][0] != "largest" and len(segs) == len(case["lines"]) + 1:
        i = rng.choice(cands)
        toks = case["line_texts"][i].split()
        rc2, out2, _ = tool(args + toks)
        if rc2 == 0 and not out2.startswith(WAITING):
            ctx.bump("cross-stdin-line-vs-cmdline")
            if out2 != segs[i] + "\n":
                ctx.violation("cross:stdin-line:" + "-".join(esc(a) for a in args + toks)[:90],
                              "line %d of stdin (%r) printed %r but the same locations on the command line print %r (options %r; earlier lines %r)"
                              % (i + 1, case["line_texts"][i], segs[i], out2, args, case["line_texts"][:i]), rtxt)


def esc(s):
    return "".join(c if (33 <= ord(c) < 127 and c != "%") else "%%%02x" % ord(c) for c in s) or "%"


def parse_tool_set(text, fmt, ref):
    if len(text) > 20000:
        return "huge"
    if fmt == "hwloc":
        # what hwloc_bitmap_snprintf writes: [0xf...f,]0x%08x[,0x%08x]* ; parsed here so that the
        # reading of the tool's output does not depend on the library parser
        t = text
        inf = False
        if t.startswith("0xf...f"):
            inf = True
            t = t[7:].lstrip(",")
        v = 0
        n = 0
        if t:
            for part in t.split(","):
                if part != "" and not re.fullmatch(r"0x[0-9a-f]+", part):
                    return None
                v = (v << 32) | (int(part, 16) if part else 0)      # an empty substring is a zero 32-bit group
                n += 1
        if inf:
            return G.BS(((1 << (32 * n)) - 1) ^ v, True)
        return G.BS(v, False)
    r = ref.ask("sscan %s %s" % (fmt, text))
    m = re.match(r"sscan (-?\d+) (\S+)", r[0]) if r else None
    if not m or int(m.group(1)) < 0:
        return None
    return G.BS.parse(m.group(2))


class Ctx:
    def __init__(self, run, tools, refexe, drv, tmp):
        self.run, self.tools, self.refexe, self.drv, self.tmp = run, tools, refexe, drv, tmp
        self.lock = threading.Lock()
        self.stats = {}

    def bump(self, k, n=1):
        with self.lock:
            self.run.bump(k, n)

    def count(self, *a, **kw):
        with self.lock:
            self.run.count(*a, **kw)

    def violation(self, key, what, replay, **kw):
        with self.lock:
            self.run.violation(key, what, replay, **kw)


def split_kind(kind):
    """kind is "synthetic" | "xml", optionally followed by "@<set>[/<restrict flags>]": the topology is restricted to
    that cpuset after the load (the tools' --restrict [--restrict-flags], default flags 0: CPU-less memory and its
    parents are kept)"""
    k, _, r = kind.partition("@")
    r, _, fl = r.partition("/")
    return k, (r or None), int(fl or 0)


def topo_args(kind, arg):
    k, r, fl = split_kind(kind)
    base = ["-i", arg] if k == "synthetic" else ["-i", arg, "--if", "xml"]
    if r:
        base += ["--restrict", r]
        if fl:
            base += ["--restrict-flags", str(fl)]
    return base


def ref_load(ref, tool, kind, arg):
    """load (and restrict) in the reference the way the tool does; returns the reply lines of the final dump"""
    k, r, fl = split_kind(kind)
    lines = ref.ask("topo %s %s %s" % (tool, k, arg))
    if r and lines and lines[0] == "load rc=0":
        l2 = ref.ask("restrict %d %s" % (fl, r))
        if not l2 or l2[0] != "restrict rc=0":
            return ["load rc=-3"]
        return ["load rc=0"] + l2[1:]
    return lines


def replay_text(kind, arg, tool, args, extra=""):
    return "kind: input\ntool: %s\ntopology: %s %s\nargs: %s\n%s" % (tool, kind, arg, " ".join(esc(a) for a in args), extra)


# keys of classes reproduced as genuine defects (known_findings.txt)
def crash_class(args, rc, err):
    if b"hwloc_bitmap_sscanf: Assertion" in err:
        return "bitmap-sscanf-assert"
    h = hang_class(args)
    if h:
        return h
    if rc in (124, 98) and any(G.absurd_set_token(a, "list" in args) for a in args):
        return "list-syntax-huge-index"
    return None


def _i32(v):
    v &= 0xffffffff
    return v - (1 << 32) if v >= (1 << 31) else v


def hang_class(args):
    """last = LONG_MAX: last-first+1 overflows long before the INT_MAX test of hwloc_calc_parse_range (UBSan aborts).
    (Reversed ranges, negative widths, open ranges beyond the level and numbers above INT_MAX were repaired
    by fixes 01261ca and 99dfc63.)"""
    for a in args:
        for m in re.finditer(r"[:=](\d+)-(\d+)(?=\.|$)", a):
            x = min(int(m.group(1)), (1 << 63) - 1)
            y = min(int(m.group(2)), (1 << 63) - 1)
            if y >= x and y - x + 1 > (1 << 63) - 1:
                return "calc-long-overflow-ub"
    return None


def check_calc_topology(ctx, kind, arg, ncmd, nmal, rng, corpus_cmds=(), nstdin=0, boundary_lines=False):
    """everything about hwloc-calc on one topology"""
    run = ctx.run
    calc = ctx.tools["hwloc-calc"]
    ref = Ref(ctx.refexe)
    model_cases = []
    try:
        lines = ref_load(ref, "calc", kind, arg)
        if not lines or lines[0] != "load rc=0":
            ctx.bump("topology-not-loadable")
            return
        info = G.Info(lines[1:])
        rs = ref.ask("rootsets")[0].split(" ")[1:]
        rootsets = [G.BS.parse(x) for x in rs]
        targs = topo_args(kind, arg)
        dump_text = "\n".join(lines[1:]) + "\n"

        def tool(args, stdin=b""):
            slow = hang_class(args) or any(G.absurd_set_token(a, "list" in args) for a in args)
            rc, out, err = run_tool(calc, targs + args, stdin=stdin, retry=not slow)
            if crashed(rc, err):
                key = "crash:calc:" + (crash_class(args, rc, err) or "-".join(esc(a) for a in args)[:80])
                ctx.violation(key, "hwloc-calc crashed / sanitizer report / timeout (rc=%d) on %r%s" % (rc, args, (" stdin %r" % stdin[:300]) if stdin else ""),
                              replay_text(kind, arg, "hwloc-calc", args, ("stdin: %s\n" % esc(stdin.decode("latin-1")) if stdin else "")
                                          + "stderr:\n" + err.decode(errors="replace")[-3000:]))
            return rc, out.decode("latin-1"), err.decode("latin-1")

        cmds = []
        for c in corpus_cmds:
            c = dict(c)
            if "stdin" in c:
                # a hand-written stdin case: options in args, one location list per line
                texts = c["stdin"].split("\n")
                if texts and texts[-1] == "":
                    texts = texts[:-1]
                r0 = args_to_ast(info, ref, c["args"])
                lines = []
                for t in texts:
                    r = args_to_ast(info, ref, c["args"] + t.split()) if r0 else None
                    lines.append([it for it in r[0] if it[0] == "loc"] if r else None)
                case = {"args": c["args"], "opts": [it for it in r0[0] if it[0] == "opt"] if r0 else [], "lines": lines,
                        "line_texts": texts, "stdin": c["stdin"], "out": r0[1] if r0 else ("set",)}
                check_stdin_case(ctx, info, ref, rootsets, kind, arg, tool, case, rng, model_cases)
                continue
            if not hang_class(c["args"]):
                r = args_to_ast(info, ref, c["args"])
                if r:
                    c["ast"], c["out"] = r
            cmds.append(c)
        cpuless = info.has_cpuless()
        run.cov["topologies_with_cpuless_objects"] = run.cov.get("topologies_with_cpuless_objects", 0) + (1 if cpuless else 0)
        for _ in range(ncmd):
            cmds.append(G.gen_cmdline(rng, info, mem=rng.random() < (0.7 if cpuless else 0.2)))
        for cmd in cmds:
            args = cmd["args"]
            rc, out, err = tool(args)
            model_cases.append((args, None, rc, out))
            ctx.count("%s|%s|%s" % (arg, args, out), nontrivial=bool(out.strip()) and out.strip() not in ("0x0", "0"),
                      sample={"topology": arg, "args": args, "stdout": out, "rc": rc}, kind="calc-" + cmd["out"][0])
            if "ast" not in cmd:
                continue
            # ---- spec on the tool's output
            try:
                exp, keyp = spec_expected(info, ref, rootsets, cmd["ast"], cmd["out"])
            except NoSpec as e:
                ctx.bump("nospec:" + str(e)[:40])
                continue
            om = cmd["out"][0]
            if exp is None:
                ctx.bump("spec-skipped-" + om)
            else:
                ctx.bump("spec-evaluated-" + om)
                if rc != 0 or out != exp:
                    key = keyp or ("spec:calc:" + "-".join(esc(a) for a in args)[:100])
                    ctx.violation(key, "hwloc-calc output differs from the documented semantics evaluated on the library data: "
                                  "args=%r got rc=%d %r expected %r" % (args, rc, out, exp),
                                  replay_text(kind, arg, "hwloc-calc", args, "expected: %s\ngot: %s\n" % (esc(exp), esc(out))))
                    continue
            # ---- cross-mode clauses on the tool's own outputs (base = the locations and input options only)
            base = [a for it in cmd["ast"] if (it[0] == "loc" or it[1] in ("-p", "-l", "--pi", "--li", "-n", "--ni", "--cif", "-q"))
                    for a in (it[1:] if it[0] == "opt" else [G.loc_text(it)])]
            base = [("--pi" if a == "-p" else "--li" if a == "-l" else "--ni" if a == "-n" else a) for a in base]
            r = rng.random()
            if cmd["out"][0] == "H" or r < 0.15:
                cross_H(ctx, tool, ref, info, rng, kind, arg, base)
            elif r < 0.40:
                cross_largest(ctx, tool, ref, kind, arg, base)
            elif r < 0.70:
                d, ty = rng.choice(info.output_levels())
                cross_N_I(ctx, tool, kind, arg, base, G.type_spelling(rng, info, d, ty))
            else:
                cross_single(ctx, tool, ref, kind, arg, base)
        # ---- stdin mode
        if nstdin and boundary_lines:
            for case in stdin_boundary_cases(info, rng):
                check_stdin_case(ctx, info, ref, rootsets, kind, arg, tool, case, rng, model_cases)
        for _ in range(nstdin):
            case = G.gen_stdin_case(rng, info, mem=rng.random() < (0.7 if cpuless else 0.35), hang=hang_class)
            check_stdin_case(ctx, info, ref, rootsets, kind, arg, tool, case, rng, model_cases)
        # ---- malformed stream: observed only (no crash, exit status by class)
        for _ in range(nmal):
            r = rng.random()
            if r < 0.55:
                args = [G.gen_malformed_loc(rng, info)]
                if rng.random() < 0.5:
                    args = [rng.choice(["pu:0", "all", "core:0"])] + args
                cls = "malformed-location"
            elif r < 0.8:
                args = [rng.choice(["pu:0", "all"])] + rng.choice(G.BAD_OPTIONS)
                cls = "bad-option"
            else:
                args = [rng.choice(["pu:0", "all", "core:all"])] + rng.choice(G.ODD_OPTIONS)
                cls = "odd-option"
            if hang_class(args) or any(G.absurd_set_token(a) for a in args):
                ctx.bump("malformed-skipped-known-hang-class")
                continue
            rc, out, err = tool(args)
            ctx.count("%s|%s|%d" % (arg, args, rc), nontrivial=True, kind=cls)
            ctx.bump("%s-exit-%s" % (cls, "0" if rc == 0 else "nonzero"))
            if cls == "malformed-location" or cls == "odd-option":
                model_cases.append((args, None, rc, out))
            if cls == "bad-option" and rc == 0:
                # an unknown option / a missing option argument / a topology option after a location must be refused
                if True:
                    ctx.violation("exit:calc:" + "-".join(args)[:60], "hwloc-calc accepted %r with exit status 0" % (args,),
                                  replay_text(kind, arg, "hwloc-calc", args, "stdout: %s\nstderr: %s\n" % (out, err[-500:])))
        if ref.dead:
            ctx.violation("refcrash:" + arg[:60], ref.dead, replay_text(kind, arg, "hwv_calcref", []))
        return dump_text, model_cases
    finally:
        ref.close()


OPT_WITH_VALUE = ("--cif", "--cpuset-input-format", "--cof", "--cpuset-output-format", "--nof", "--nodeset-output-format",
                  "--sep", "-I", "--intersect", "-N", "--number-of", "-H", "--hierarchical")
OPT_PLAIN = ("-p", "--physical", "-l", "--logical", "--li", "--lo", "--pi", "--po", "-n", "--nodeset", "--ni", "--no", "--oo",
             "--single", "--taskset", "--largest", "-q")
RANGE_RE = r"(?:\d+-\d+|\d+-|\d+:\d+|\d+|all|odd|even)"


def parse_range_text(t):
    m = re.fullmatch(r"(\d+)-(\d+)", t)
    if m:
        return ("fromto", int(m.group(1)), int(m.group(2)))
    m = re.fullmatch(r"(\d+)-", t)
    if m:
        return ("from", int(m.group(1)))
    m = re.fullmatch(r"(\d+):(\d+)", t)
    if m:
        return ("wrap", int(m.group(1)), int(m.group(2)))
    if t.isdigit():
        return ("one", int(t))
    return (t,)


def args_to_ast(info, ref, args):
    """syntax tree of a command line written by hand (corpus, replay): None when it is outside the
    documented grammar the spec is evaluated on"""
    ast = []
    out = ("set",)
    i = 0

    def split_filter(name):
        m = re.fullmatch(r"([A-Za-z0-9]+)\[([^\]]*)\]", name)
        if not m:
            return name, None
        f = m.group(2)
        if f.startswith("tier="):
            return m.group(1), ("tier", G.atoi(f[5:]))
        return m.group(1), ("subtype", f[8:] if f.startswith("subtype=") else f)

    def level_of(name, out=False):
        name = split_filter(name)[0]
        if name.isdigit():
            d = int(name)
            return (d, info.level_type.get(d)) if 0 <= d < info.depth else None
        r = ref.ask("typedepth " + name)
        m = re.match(r"typedepth (-?\d+) (-?\d+) (-?\d+)", r[0]) if r else None
        if not m or int(m.group(1)) < 0:
            return None
        d = int(m.group(3))
        return (d, int(m.group(2))) if (d >= 0 or d == -3 or (out and d <= -3)) else None
    while i < len(args):
        a = args[i]
        if a in OPT_WITH_VALUE:
            if i + 1 >= len(args):
                return None
            v = args[i + 1]
            ast.append(("opt", a, v))
            if a in ("-I", "--intersect", "-N", "--number-of"):
                lv = level_of(v, out=True)
                if not lv:
                    return None
                out = ("I" if a in ("-I", "--intersect") else "N", v, lv[0], split_filter(v)[1])
            elif a in ("-H", "--hierarchical"):
                lvs = [level_of(x) for x in v.split(".")]
                out = ("H", v, [l[0] for l in lvs] if all(l and l[0] >= 0 for l in lvs) else [])
            i += 2
            continue
        if a in OPT_PLAIN:
            ast.append(("opt", a))
            if a == "--largest":
                out = ("largest",)
            i += 1
            continue
        if a.startswith("-"):
            return None
        mode = ""
        if a[:1] in ("~", "x", "^"):
            mode, a = a[0], a[1:]
        if a in ("all", "root"):
            ast.append(("loc", mode, "all", a))
        elif re.fullmatch(r"[A-Za-z0-9]+(\[[^\]]*\])?:%s(\.[A-Za-z0-9]+(\[[^\]]*\])?:%s)*" % (RANGE_RE, RANGE_RE), a):
            steps = []
            for part in a.split("."):
                name, rt = part.split(":", 1)
                lv = level_of(name)
                if not lv:
                    return None
                steps.append((lv[0], lv[1], name, parse_range_text(rt), split_filter(name)[1]))
            ast.append(("loc", mode, "path", steps))
        elif re.fullmatch(r"[0-9a-fA-Fx,.\-]+", a):
            ast.append(("loc", mode, "set", a))
        else:
            return None
        i += 1
    return ast, out


def all_logical_input(ast):
    return not any(it[0] == "opt" and it[1] in ("-p", "--pi", "--physical") for it in ast)


def uses_kw_range(ast):
    for it in ast:
        if it[0] == "loc" and it[2] == "path":
            for s in it[3]:
                if s[3][0] in ("all", "odd", "even", "from"):
                    return True
    return False


def cross_largest(ctx, tool, ref, kind, arg, base):
    rc0, out0, _ = tool(base)
    rc1, out1, _ = tool(base + ["--largest"])
    if rc0 != 0 or rc1 != 0:
        ctx.bump("cross-largest-nonzero")
        return
    toks = out1.split()
    if not toks:
        back = "0x0\n"
    else:
        rc2, back, _ = tool(toks)
        if rc2 != 0:
            back = "rc=%d" % rc2
    ctx.bump("cross-largest")
    a, b = parse_tool_set(out0.strip(), "hwloc", ref), parse_tool_set(back.strip(), "hwloc", ref)
    if a == "huge" or b == "huge":
        ctx.bump("cross-skipped-huge-index")
        return
    # cpusets beyond the topology (set arguments) cannot be covered by objects: compare inside the root
    if a is None or b is None or a != b:
        inroot = ref.ask("rootsets")
        root = G.BS.parse(inroot[0].split(" ")[1]) if inroot else None
        if a is not None and b is not None and root is not None and a.inter(root) == b and not a.subset(root):
            ctx.bump("cross-largest-set-beyond-root")
            return
        if a is not None and root is not None and not a.subset(root) and rc1 == 0:
            ctx.bump("cross-largest-set-beyond-root")
            return
        ctx.violation("cross:largest:" + "-".join(esc(x) for x in base)[:100],
                      "--largest output fed back does not give the same set: %r -> %r -> %r (direct %r)" % (base, out1, back, out0),
                      replay_text(kind, arg, "hwloc-calc", base + ["--largest"]))


def cross_H(ctx, tool, ref, info, rng, kind, arg, base):
    """-H t1...tk describes the set: its entries, given back as locations, name exactly the objects of type tk that
    intersect the set, and there are as many entries as -N tk counts"""
    normal = sorted(set(x for x in info.usable_levels() if x[0] >= 0))
    pick = sorted(rng.sample(normal, min(rng.choice([1, 2, 2, 3]), len(normal))))
    if any(info.tdepth.get(ty, -1) != d for d, ty in pick):
        return                                   # a type with several depths: named by depth numbers, not fed back
    spec = ".".join(rng.choice(G.SPELL.get(ty, [G.TYPE_NAMES[ty]])) for d, ty in pick)
    last = rng.choice(G.SPELL.get(pick[-1][1], [G.TYPE_NAMES[pick[-1][1]]]))
    # physical indexes only where every listed level has OS indexes (caches and groups print -1)
    # physical indexes only where every listed level has OS indexes (caches and groups print -1) that are unique on
    # the level (hwloc(7): with physical indexes the first object matching the index is used)
    phys = rng.random() < 0.3 and all(o["os"] != 4294967295 for d, _ in pick for o in info.level(d)) \
        and all(len(set(o["os"] for o in info.level(d))) == len(info.level(d)) for d, _ in pick)
    rch, outh, _ = tool(base + ["-H", spec] + (["--po"] if phys else []))
    rcn, outn, _ = tool(base + ["-N", last])
    rci, outi, _ = tool(base + ["-I", last])
    if rch != 0 or rcn != 0 or rci != 0:
        ctx.bump("cross-H-nonzero")
        return
    ctx.bump("cross-H")
    toks = outh.split()
    rtxt = replay_text(kind, arg, "hwloc-calc", base + ["-H", spec] + (["--po"] if phys else []), "stdout: %s\n" % esc(outh))
    try:
        n = int(outn.strip())
    except ValueError:
        return
    if len(toks) != n:
        ctx.violation("cross:H-count:" + "-".join(esc(x) for x in base + ["-H", spec])[:100],
                      "-H %s prints %d entries (%r) but -N %s counts %d" % (spec, len(toks), outh[:200], last, n), rtxt)
        return
    if not toks:
        return
    if info.has_cpuless():
        # -H numbers the objects that have CPUs; a location index also counts CPU-less objects whose nodeset
        # intersects the parent's: the two numberings differ on such topologies (recorded, not required)
        ctx.bump("cross-H-feedback-skipped-cpuless-topology")
        return
    # the entries name the objects -I lists: their union, as locations, is the union of those objects
    strip = [a for a in base if not a.startswith("-") and a not in G.FORMATS]
    inopts = [a for a in base if a not in strip and a not in ("--pi", "--li")]
    rcb, outb, _ = tool(["-q", "--pi" if phys else "--li"] + toks)
    lidx = [x for x in outi.strip().split(",") if x != ""]
    rce, oute, _ = tool(["-q", "--li"] + ["%s:%s" % (last, i) for i in lidx])
    if rcb != 0 or rce != 0 or outb != oute:
        ctx.violation("cross:H-feedback:" + "-".join(esc(x) for x in base + ["-H", spec])[:100],
                      "the entries of -H %s (%r) given back as locations give %r; the %s objects -I lists (%r) give %r"
                      % (spec, outh[:200], outb, last, outi.strip(), oute), rtxt)


def cross_N_I(ctx, tool, kind, arg, base, ty):
    rcn, outn, _ = tool(base + ["-N", ty])
    rci, outi, _ = tool(base + ["-I", ty])
    if rcn != 0 or rci != 0:
        ctx.bump("cross-NI-nonzero")
        return
    ctx.bump("cross-N-I")
    n_i = len([x for x in outi.strip().split(",") if x != ""])
    try:
        n = int(outn.strip())
    except ValueError:
        if outn == "" and outi == "":
            return            # level unavailable: both print nothing
        n = -1
    if n != n_i:
        ctx.violation("cross:NI:" + "-".join(esc(x) for x in base + [ty])[:100],
                      "-N %s prints %r but -I lists %r" % (ty, outn, outi), replay_text(kind, arg, "hwloc-calc", base + ["-N", ty]))


def cross_single(ctx, tool, ref, kind, arg, base):
    rc0, out0, _ = tool(base)
    rc1, out1, _ = tool(base + ["--single"])
    if rc0 != 0 or rc1 != 0:
        ctx.bump("cross-single-nonzero")
        return
    a, b = parse_tool_set(out0.strip(), "hwloc", ref), parse_tool_set(out1.strip(), "hwloc", ref)
    if a == "huge" or b == "huge":
        ctx.bump("cross-skipped-huge-index")
        return
    ctx.bump("cross-single")
    ok = a is not None and b is not None and b.subset(a) and \
        ((a.is_empty() and b.is_empty()) or (b.weight() == 1 and b.first() == a.first()))
    if not ok:
        ctx.violation("cross:single:" + "-".join(esc(x) for x in base)[:100],
                      "--single output %r is not the first element of %r" % (out1, out0), replay_text(kind, arg, "hwloc-calc", base + ["--single"]))


# ---------------------------------------------------------------------------
# model vs tool
MODEL_AS_LIMIT = 1 << 30      # address-space limit of the extracted model (bytes); its normal peak RSS is ~35 MB
PEAK = {"model_rss_kb": 0}


def sh_limited(cmd, timeout):
    """run the model driver under a hard memory limit: a runaway model is a case-level skip, never an OOM of the machine"""
    import resource

    def lim():
        resource.setrlimit(resource.RLIMIT_AS, (MODEL_AS_LIMIT, MODEL_AS_LIMIT))
    try:
        p = subprocess.run(["/usr/bin/time", "-f", "HVRSS %M"] + cmd, stdout=subprocess.PIPE, stderr=subprocess.PIPE, timeout=timeout, preexec_fn=lim)
        m = re.search(rb"HVRSS (\d+)", p.stderr)
        if m:
            PEAK["model_rss_kb"] = max(PEAK["model_rss_kb"], int(m.group(1)))
        return p.returncode, p.stdout, p.stderr
    except subprocess.TimeoutExpired as e:
        return 124, e.stdout or b"", (e.stderr or b"") + b"\nTIMEOUT"


def run_model(ctx, kind, arg, dump_text, cases, tag):
    if not ctx.drv or not cases:
        return

    def run(sub, name, timeout):
        path = os.path.join(ctx.tmp, "model-%s.case" % name)
        with open(path, "w", encoding="latin-1") as f:
            f.write(dump_text)
            for args, stdin, rc, out in sub:
                f.write("calc %s%s\n" % (" ".join(esc(a) for a in args), "" if stdin is None else " %%< %s" % esc(stdin)))
        return sh_limited([ctx.drv, path], timeout)
    rc, out, err = run(cases, tag, 120)
    if rc != 0:
        # one case exhausts the model's unary fuels (a bit index in the millions): find it, keep the others
        outs = []
        for k, c in enumerate(cases):
            r1, o1, e1 = run([c], "%s-%d" % (tag, k), 15)
            if r1 != 0:
                C.log("[C20] model resource limit on %r stdin=%r (%s)" % (c[0], c[1], tag))
                ctx.bump("model-resource-limit")
                outs.append("UNMODELLED 9")
            else:
                outs.append(o1.decode("latin-1").split("\n")[0])
        out = ("\n".join(outs) + "\n").encode("latin-1")
    mlines = out.decode("latin-1").split("\n")
    for (args, stdin, trc, tout), ml in zip(cases, mlines):
        if ml.startswith("UNMODELLED"):
            ctx.bump("model-unmodelled-" + (ml.split(" ")[1] if " " in ml else "x"))
            continue
        if trc in (-6, 134, 98):
            exp = "ABORT"
        elif trc == 124:
            exp = "HUGE"
        else:
            exp = "rc=%d out=%s" % (0 if trc == 0 else 1, esc(tout))
        if ml == exp:
            with ctx.lock:
                ctx.run.cov["traces_validated_against_impl"] += 1
        else:
            ctx.violation("correspondence:calc:" + "-".join(esc(a) for a in args)[:100],
                          "model and hwloc-calc differ on %r: tool %s, model %s" % (args, exp, ml),
                          replay_text(kind, arg, "hwloc-calc", args, "impl: %s\nmodel: %s\n" % (exp, ml)), no_input=True)


# ---------------------------------------------------------------------------
# lstopo / diff+patch / distrib clauses
def check_lstopo(ctx, kind, arg, tag):
    lst = ctx.tools["lstopo-no-graphics"]
    ref = Ref(ctx.refexe)
    try:
        lines = ref_load(ref, "lstopo", kind, arg)
        if not lines or lines[0] != "load rc=0":
            return
        dump0 = lines[1:]
        targs = topo_args(kind, arg)
        # XML: bytes identical to hwloc_topology_export_xmlbuffer of the same loaded topology
        fx = os.path.join(ctx.tmp, "ls-%s.xml" % tag)
        fr = os.path.join(ctx.tmp, "ref-%s.xml" % tag)
        rc, out, err = run_tool(lst, targs + ["--of", "xml", fx])
        r = ref.ask("xmlexport 0 " + fr)
        if crashed(rc, err):
            ctx.violation("crash:lstopo:" + tag, "lstopo crashed on %s" % arg, replay_text(kind, arg, "lstopo-no-graphics", ["--of", "xml"], err.decode(errors="replace")[-2000:]))
            return
        ok_ref = bool(r) and r[0].startswith("xml rc=0")
        ctx.count("lstopo-xml|%s|%d" % (arg, rc), nontrivial=True, kind="lstopo-xml")
        if (rc == 0) != ok_ref:
            ctx.violation("lstopo-xml-status:" + tag, "lstopo --of xml rc=%d but library export %s" % (rc, r), replay_text(kind, arg, "lstopo-no-graphics", ["--of", "xml"]))
        elif rc == 0:
            a, b = norm_xml(open(fx, "rb").read()), norm_xml(open(fr, "rb").read())
            if a != b:
                ctx.violation("lstopo-xml-bytes:" + tag, "lstopo XML output differs from hwloc_topology_export_xmlbuffer (%d vs %d bytes)" % (len(a), len(b)),
                              replay_text(kind, arg, "lstopo-no-graphics", ["--of", "xml"]))
            # the same bytes on stdout (no file name: hwloc_topology_export_xml("-"))
            rc2, out2, err2 = run_tool(lst, targs + ["--of", "xml"])
            if rc2 != 0 or norm_xml(out2) != b:
                ctx.violation("lstopo-xml-stdout-bytes:" + tag, "lstopo --of xml on stdout (rc=%d, %d bytes) differs from hwloc_topology_export_xmlbuffer (%d bytes)" % (rc2, len(out2), len(b)),
                              replay_text(kind, arg, "lstopo-no-graphics", ["--of", "xml"]))
            else:
                ctx.bump("lstopo-xml-stdout-equal")
            # reload -> equivalent topology (dump equality, gp_index kept: the XML format carries it)
            ref2 = Ref(ctx.refexe)
            try:
                l2 = ref2.ask("topo lstopo xml " + fx)
                if not l2 or l2[0] != "load rc=0":
                    ctx.violation("lstopo-xml-reload:" + tag, "XML written by lstopo does not load", replay_text(kind, arg, "lstopo-no-graphics", ["--of", "xml"]))
                elif canon_dump(l2[1:]) != canon_dump(dump0):
                    d = first_diff(canon_dump(dump0), canon_dump(l2[1:]))
                    ctx.violation("lstopo-xml-reload-differs:" + tag, "topology reloaded from lstopo's XML differs: %s" % d, replay_text(kind, arg, "lstopo-no-graphics", ["--of", "xml"], d))
                else:
                    ctx.bump("lstopo-xml-reload-equal")
            finally:
                ref2.close()
        # synthetic
        rc, out, err = run_tool(lst, targs + ["--of", "synthetic"])
        r = ref.ask("synexport 0")
        m = re.match(r"syn (-?\d+) ?(.*)", r[0]) if r else None
        ctx.count("lstopo-syn|%s|%d" % (arg, rc), nontrivial=True, kind="lstopo-synthetic")
        if crashed(rc, err):
            ctx.violation("crash:lstopo-syn:" + tag, "lstopo crashed on %s" % arg, replay_text(kind, arg, "lstopo-no-graphics", ["--of", "synthetic"], err.decode(errors="replace")[-2000:]))
        elif m:
            lib_ok = int(m.group(1)) >= 0
            if lib_ok != (rc == 0 and out.strip() != b""):
                # lstopo refuses asymmetric topologies itself before calling the library (same condition)
                ctx.violation("lstopo-syn-status:" + tag, "lstopo --of synthetic rc=%d out=%r but library export rc=%s" % (rc, out[:80], m.group(1)),
                              replay_text(kind, arg, "lstopo-no-graphics", ["--of", "synthetic"]))
            elif lib_ok:
                if out.decode("latin-1") != m.group(2) + "\n":
                    ctx.violation("lstopo-syn-text:" + tag, "lstopo synthetic output %r != hwloc_topology_export_synthetic %r" % (out, m.group(2)),
                                  replay_text(kind, arg, "lstopo-no-graphics", ["--of", "synthetic"]))
                else:
                    # reload: same synthetic description again (fixed point), same normal structure
                    ref2 = Ref(ctx.refexe)
                    try:
                        l2 = ref2.ask("topo lstopo synthetic " + m.group(2))
                        r2 = ref2.ask("synexport 0")
                        if "@" in kind and (not r2 or r2[0] != r[0]):
                            # a restricted topology is not what the synthetic backend builds from its own export
                            # (memory sizes, OS indexes of removed PUs): export fixed point is C07's matter
                            ctx.bump("lstopo-syn-reload-differs-restricted-topology")
                        elif kind != "synthetic" and l2 and l2[0] == "load rc=0" and r2 and r2[0] != r[0] and \
                                re.sub(r"\(memory=\d+\)|^syn \d+", "", r2[0]) == re.sub(r"\(memory=\d+\)|^syn \d+", "", r[0]):
                            # a NUMA node without memory is exported as [NUMANode] and reloaded with the synthetic
                            # backend's default size: not a property of the tool (recorded as drift)
                            ctx.bump("lstopo-syn-reload-default-memory-drift")
                        elif not l2 or l2[0] != "load rc=0" or not r2 or r2[0] != r[0]:
                            ctx.violation("lstopo-syn-reload:" + tag, "synthetic output %r does not reload to the same description (%r)" % (m.group(2), r2),
                                          replay_text(kind, arg, "lstopo-no-graphics", ["--of", "synthetic"]))
                        else:
                            ctx.bump("lstopo-syn-reload-equal")
                            if kind == "synthetic" and struct_dump(l2[1:]) != struct_dump(dump0):   # not for restricted ones
                                ctx.violation("lstopo-syn-reload-structure:" + tag, "topology reloaded from the synthetic export has another structure",
                                              replay_text(kind, arg, "lstopo-no-graphics", ["--of", "synthetic"]))
                    finally:
                        ref2.close()
        if ref.dead:
            ctx.violation("refcrash:lstopo:" + tag, ref.dead, replay_text(kind, arg, "hwv_calcref", []))
    finally:
        ref.close()


SBUF = 1024       # sizeof(sbuffer) in output_synthetic(): exports of this length or more take the malloc path


def long_synthetic_descriptions(ctx, rng):
    """synthetic descriptions whose EXPORT has a length around and beyond the 1024-byte stack buffer of
    lstopo's output_synthetic(): a shuffled NUMA index list (not expressible as an interleaving) makes the
    export long, the number of digits of the memory size tunes it to the exact boundary"""
    ref = Ref(ctx.refexe)
    res = []
    try:
        def export_len(desc):
            l = ref.ask("topo lstopo synthetic " + desc)
            if not l or l[0] != "load rc=0":
                return None
            r = ref.ask("synexport 0")
            m = re.match(r"syn (-?\d+)", r[0]) if r else None
            return int(m.group(1)) if m else None

        def desc(n, perm, digits):
            return "pack:%d [numa(memory=%s indexes=%s)] pu:1" % (n, "1" * digits, ",".join(map(str, perm)))
        base = {}
        for n in range(250, 290):
            perm = list(range(n))
            rng.shuffle(perm)
            ln = export_len(desc(n, perm, 1))
            if ln:
                base[n] = (perm, ln)
        for target in (SBUF - 2, SBUF - 1, SBUF, SBUF + 1, SBUF + 2, SBUF + 40):
            for n, (perm, ln) in sorted(base.items()):
                d = target - ln + 1
                if 1 <= d <= 15:
                    dd = desc(n, perm, d)
                    if export_len(dd) == target:
                        res.append((target, dd))
                        break
        for n in (400, 1500):
            perm = list(range(n))
            rng.shuffle(perm)
            dd = desc(n, perm, 3)
            ln = export_len(dd)
            if ln:
                res.append((ln, dd))
    finally:
        ref.close()
    return res


def check_lstopo_long_synthetic(ctx, rng):
    """lstopo --of synthetic == hwloc_topology_export_synthetic ++ "\n", byte for byte, for export lengths
    1022..1026 and beyond, for the export flags, on stdout and in a file (model: Calc.output_synthetic)"""
    lst = ctx.tools["lstopo-no-graphics"]
    descs = long_synthetic_descriptions(ctx, rng)
    ctx.run.cov["long_synthetic_export_lengths"] = [l for l, _ in descs]
    for k, (ln, d) in enumerate(descs):
        ref = Ref(ctx.refexe)
        try:
            l = ref.ask("topo lstopo synthetic " + d)
            if not l or l[0] != "load rc=0":
                continue
            for flags in (0, 1, 8, 2, 4):
                r = ref.ask("synexport %d" % flags)
                m = re.match(r"syn (-?\d+) ?(.*)", r[0]) if r else None
                if not m:
                    continue
                exp = (m.group(2) + "\n").encode("latin-1") if int(m.group(1)) >= 0 else None
                fout = os.path.join(ctx.tmp, "long-%d-%d.synthetic" % (k, flags))
                for mode in ("stdout", "file"):
                    args = ["-i", d, "--export-synthetic-flags", str(flags), "--of", "synthetic"] + ([fout] if mode == "file" else [])
                    rc, out, err = run_tool(lst, args)
                    if mode == "file":
                        out = open(fout, "rb").read() if os.path.exists(fout) else b""
                    ctx.count("lstopo-long-syn|%d|%d|%s|%d" % (ln, flags, mode, len(out)), nontrivial=True, kind="lstopo-synthetic-long",
                              sample={"export_length": ln, "flags": flags, "mode": mode})
                    if crashed(rc, err):
                        ctx.violation("crash:lstopo-long-syn:%d:%d" % (ln, flags), "lstopo crashed on a synthetic export of %d characters" % ln,
                                      replay_text("synthetic", d, "lstopo-no-graphics", args[2:], err.decode(errors="replace")[-2000:]))
                    elif exp is None:
                        if rc == 0 and out.strip():
                            ctx.violation("lstopo-long-syn-status:%d:%d" % (ln, flags), "library export fails but lstopo printed %r" % out[:60],
                                          replay_text("synthetic", d, "lstopo-no-graphics", args[2:]))
                    elif rc != 0 or out != exp:
                        n = min(len(out), len(exp))
                        first = next((i for i in range(n) if out[i] != exp[i]), n)
                        ctx.violation("lstopo-long-syn-bytes:len%d:flags%d:%s" % (len(exp) - 1, flags, mode),
                                      "lstopo --of synthetic (%s, flags %d) rc=%d wrote %d bytes, hwloc_topology_export_synthetic + newline is %d bytes; first difference at offset %d: tool ...%r library ...%r"
                                      % (mode, flags, rc, len(out), len(exp), first, out[max(0, first - 8):first + 4], exp[max(0, first - 8):first + 4]),
                                      replay_text("synthetic", d, "lstopo-no-graphics", args[2:]))
                    else:
                        ctx.bump("lstopo-long-syn-equal-%s" % ("ge1024" if len(exp) - 1 >= SBUF else "lt1024"))
        finally:
            ref.close()


def norm_xml(b):
    """the library stamps the exporting program's name (ProcessName info of the root): not compared"""
    return re.sub(rb'<info name="ProcessName" value="[^"]*"/>', b'<info name="ProcessName" value="*"/>', b)


def canon_dump(lines):
    """dump equality up to what an XML round trip does not preserve by documentation:
    the topology flags line and userdata presence"""
    res = []
    for l in lines:
        if l.startswith("T "):
            l = re.sub(r"flags=\d+ ", "", l)
        res.append(l)
    return res


def struct_dump(lines):
    res = []
    for l in lines:
        if l.startswith("O "):
            kv = dict(x.split("=", 1) for x in l.split(" ")[2:] if "=" in x)
            # the synthetic format carries OS indexes for the PU and NUMA levels only
            res.append((kv["ty"], kv["dp"], kv["os"] if kv["ty"] in ("4", "14") else "*", kv["li"], kv["cs"], kv["nds"], kv["par"]))
    return res


def first_diff(a, b):
    for x, y in zip(a, b):
        if x != y:
            fx, fy = x.split(" "), y.split(" ")
            d = [(p, q) for p, q in zip(fx, fy) if p != q]
            return "line %r: %r" % (" ".join(fx[:2]), d[:4])
    return "length %d vs %d" % (len(a), len(b))


def check_diff_patch(ctx, kind, arg, tag, rng):
    """hwloc-diff A B ; hwloc-patch A diff == B, on XML files produced by lstopo and edited"""
    lst, dif, pat = ctx.tools["lstopo-no-graphics"], ctx.tools["hwloc-diff"], ctx.tools["hwloc-patch"]
    fa = os.path.join(ctx.tmp, "A-%s.xml" % tag)
    fb = os.path.join(ctx.tmp, "B-%s.xml" % tag)
    fd = os.path.join(ctx.tmp, "D-%s.xml" % tag)
    fo = os.path.join(ctx.tmp, "O-%s.xml" % tag)
    rc, out, err = run_tool(lst, topo_args(kind, arg) + ["--of", "xml", fa])
    if rc != 0:
        return
    xa = open(fa, "rb").read().decode("latin-1")
    xb, edits = edit_xml(rng, xa)
    open(fb, "w", encoding="latin-1").write(xb)
    rc, out, err = run_tool(dif, [fa, fb, fd])
    ctx.count("diff|%s|%s|%d" % (arg, edits, rc), nontrivial=True, kind="diff-patch",
              sample={"topology": arg, "edits": edits, "diff_rc": rc})
    if crashed(rc, err):
        ctx.violation("crash:diff:" + tag, "hwloc-diff crashed", replay_text(kind, arg, "hwloc-diff", edits, err.decode(errors="replace")[-2000:]))
        return
    if rc != 0:
        ctx.bump("diff-too-complex-or-refused")
        return
    rc, out, err = run_tool(pat, [fa, fd, fo])
    if crashed(rc, err) or rc != 0:
        ctx.violation("patch-fails:" + tag + ":" + "+".join(edits), "hwloc-patch rc=%d on the diff hwloc-diff produced (edits %s): %s" % (rc, edits, err.decode(errors="replace")[-300:]),
                      replay_text(kind, arg, "hwloc-patch", edits, "A:\n%s\nB:\n%s\n" % (xa[:3000], xb[:3000])))
        return
    # compare patched A with B as loaded topologies (dump) and as exported XML
    r1, r2 = Ref(ctx.refexe), Ref(ctx.refexe)
    try:
        d1, d2 = r1.ask("topo diff xml " + fo), r2.ask("topo diff xml " + fb)
        if not d1 or not d2 or d1[0] != "load rc=0" or d2[0] != "load rc=0":
            ctx.violation("patch-output-unloadable:" + tag, "patched topology does not load", replay_text(kind, arg, "hwloc-patch", edits))
        elif d1 != d2:
            d = first_diff(d2, d1)
            ctx.violation("diff-patch-differs:" + "+".join(edits), "hwloc-patch(A, hwloc-diff(A,B)) != B after edits %s: %s" % (edits, d),
                          replay_text(kind, arg, "hwloc-diff", edits, d + "\nA:\n%s\nB:\n%s\n" % (xa[:3000], xb[:3000])))
        else:
            ctx.bump("diff-patch-equal" + ("-nonempty" if edits else "-empty"))
        # -R on B gives A back
        fr = os.path.join(ctx.tmp, "R-%s.xml" % tag)
        rc, out, err = run_tool(pat, ["-R", fb, fd, fr])
        if rc == 0:
            r3, r4 = Ref(ctx.refexe), Ref(ctx.refexe)
            try:
                if r3.ask("topo diff xml " + fr) != r4.ask("topo diff xml " + fa):
                    ctx.violation("diff-patch-reverse-differs:" + "+".join(edits), "hwloc-patch -R(B, diff) != A after edits %s" % edits, replay_text(kind, arg, "hwloc-patch", ["-R"] + edits))
                else:
                    ctx.bump("diff-patch-reverse-equal")
            finally:
                r3.close()
                r4.close()
        elif crashed(rc, err):
            ctx.violation("crash:patch-R:" + tag, "hwloc-patch -R crashed", replay_text(kind, arg, "hwloc-patch", ["-R"] + edits, err.decode(errors="replace")[-2000:]))
        else:
            ctx.bump("patch-reverse-refused")
    finally:
        r1.close()
        r2.close()


DISALLOWED_CASES = [
    # (synthetic description, lstopo --allow argument, what is disallowed)
    ("pu:8", "0xfb", "middle PU"), ("pu:8", "0xfe", "first PU"), ("pu:8", "0x7f", "last PU"),
    ("pack:2 core:2 pu:2", "0xdd", "one PU per package"), ("numa:4 pu:2", "nodeset=0xd", "a NUMA node"),
    ("pack:2 [numa] [numa] pu:2", "nodeset=0xe", "first NUMA node"),
]


def check_diff_patch_disallowed(ctx, rng, tag):
    """hwloc-diff / hwloc-patch on XML whose allowed sets are smaller than the complete sets: both tools must see the
    same objects (INCLUDE_DISALLOWED), whatever the position of the edited object relative to the disallowed ones"""
    lst, dif, pat = ctx.tools["lstopo-no-graphics"], ctx.tools["hwloc-diff"], ctx.tools["hwloc-patch"]
    for k, (syn, allow, what) in enumerate(DISALLOWED_CASES):
        fa = os.path.join(ctx.tmp, "dA-%s-%d.xml" % (tag, k))
        rc, out, err = run_tool(lst, ["-i", syn, "--allow", allow, "--of", "xml", fa])
        if rc != 0 or not os.path.exists(fa):
            ctx.bump("disallowed-xml-not-produced")
            continue
        xa = open(fa, "rb").read().decode("latin-1")
        # give every PU and NUMA node a name, so that renaming is a plain value change on both sides
        xa = re.sub(r'<object type="PU" os_index="(\d+)"', lambda m: '<object type="PU" os_index="%s" name="pu-%s"' % (m.group(1), m.group(1)), xa)
        xa = re.sub(r'<object type="NUMANode" os_index="(\d+)"', lambda m: '<object type="NUMANode" os_index="%s" name="node-%s"' % (m.group(1), m.group(1)), xa)
        open(fa, "w", encoding="latin-1").write(xa)
        names = re.findall(r'name="((?:pu|node)-\d+)"', xa)
        mems = list(re.finditer(r'local_memory="(\d+)"', xa))
        # one edit on every named object in turn (before, on and after the disallowed ones), and every node's memory
        edits = [("name", n) for n in names] + [("mem", i) for i in range(len(mems))]
        rng.shuffle(edits)
        for j, (ek, target) in enumerate(edits[: (len(edits) if ctx.run.tier == "thorough" else 6)]):
            if ek == "name":
                xb = xa.replace('name="%s"' % target, 'name="renamed-%s"' % target)
            else:
                m = mems[target]
                xb = xa[:m.start(1)] + str(int(m.group(1)) + 4096) + xa[m.end(1):]
            fb = os.path.join(ctx.tmp, "dB-%s-%d-%d.xml" % (tag, k, j))
            fd = os.path.join(ctx.tmp, "dD-%s-%d-%d.xml" % (tag, k, j))
            fo = os.path.join(ctx.tmp, "dO-%s-%d-%d.xml" % (tag, k, j))
            fr = os.path.join(ctx.tmp, "dR-%s-%d-%d.xml" % (tag, k, j))
            open(fb, "w", encoding="latin-1").write(xb)
            desc = "%s --allow %s (%s disallowed), edit %s %s" % (syn, allow, what, ek, target)
            rtxt = "kind: input\ntool: hwloc-diff\nrecipe: lstopo-no-graphics -i \"%s\" --allow %s --of xml A.xml ; names added to PUs and NUMA nodes ; B.xml = A.xml with %s %s changed ; hwloc-diff A.xml B.xml D.xml ; hwloc-patch A.xml D.xml O.xml ; compare O.xml with B.xml\nA:\n%s\nB:\n%s\n" % (syn, allow, ek, target, xa[:4000], xb[:4000])
            rc, out, err = run_tool(dif, [fa, fb, fd])
            ctx.count("diff-disallowed|%s|%d" % (desc, rc), nontrivial=True, kind="diff-patch-disallowed", sample={"case": desc, "diff_rc": rc})
            if crashed(rc, err):
                ctx.violation("crash:diff-disallowed:%d:%s" % (k, target), "hwloc-diff crashed: " + desc, rtxt)
                continue
            if rc != 0:
                ctx.violation("diff-disallowed-refused:%d:%s" % (k, ek), "hwloc-diff refuses a plain value change (rc=%d): %s: %s" % (rc, desc, err.decode(errors="replace")[-200:]), rtxt)
                continue
            rc, out, err = run_tool(pat, [fa, fd, fo])
            if crashed(rc, err) or rc != 0:
                ctx.violation("patch-disallowed-fails:%d:%s" % (k, ek), "hwloc-patch rc=%d on the diff hwloc-diff produced: %s" % (rc, desc), rtxt)
                continue
            r1, r2 = Ref(ctx.refexe), Ref(ctx.refexe)
            try:
                d1, d2 = r1.ask("topo diff xml " + fo), r2.ask("topo diff xml " + fb)
                if not d1 or not d2 or d1[0] != "load rc=0" or d2[0] != "load rc=0":
                    ctx.violation("patch-disallowed-unloadable:%d" % k, "patched topology does not load: " + desc, rtxt)
                elif d1 != d2:
                    ctx.violation("diff-patch-disallowed-differs:%d:%s:%s" % (k, ek, target),
                                  "hwloc-patch(A, hwloc-diff(A,B)) != B: %s: %s" % (desc, first_diff(d2, d1)), rtxt)
                else:
                    ctx.bump("diff-patch-disallowed-equal")
            finally:
                r1.close()
                r2.close()
            rc, out, err = run_tool(pat, ["-R", fb, fd, fr])
            if rc == 0:
                r3, r4 = Ref(ctx.refexe), Ref(ctx.refexe)
                try:
                    if r3.ask("topo diff xml " + fr) != r4.ask("topo diff xml " + fa):
                        ctx.violation("diff-patch-disallowed-reverse-differs:%d:%s:%s" % (k, ek, target), "hwloc-patch -R(B, diff) != A: " + desc, rtxt)
                    else:
                        ctx.bump("diff-patch-disallowed-reverse-equal")
                finally:
                    r3.close()
                    r4.close()
            else:
                ctx.violation("patch-disallowed-reverse-fails:%d:%s" % (k, ek), "hwloc-patch -R rc=%d: %s" % (rc, desc), rtxt)


KINDS = {"none": 1, "all": 0, "structure": 2, "important": 3}
CACHE_TYPES = list(range(5, 13))      # L1..L5, L1i..L3i


def lstopo_filter_options():
    """(lstopo arguments, configuration lines of the reference = the hwloc_topology_set_*_types_filter() calls the option
    stands for).  lstopo's cache group includes MemCache (as its usage text says), its "all" sets every type in turn."""
    opts = [(["--no-caches"], ["filter cache 1", "filter 15 1"]), (["--no-useless-caches"], ["filter cache 2", "filter 15 2"]),
            (["--no-icaches"], ["filter icache 1"]), (["--no-io"], ["filter io 1"]), (["--no-bridges"], ["filter 16 1"]),
            (["--whole-io"], ["filter io 0"]), (["--merge"], ["filter %d 2" % t for t in range(20)])]
    for kn, kv in KINDS.items():
        opts.append((["--filter", "cache:" + kn], ["filter cache %d" % kv, "filter 15 %d" % kv]))
        opts.append((["--filter", "icache:" + kn], ["filter icache %d" % kv]))
        opts.append((["--filter", "io:" + kn], ["filter io %d" % kv]))
        opts.append((["--filter", "all:" + kn], ["filter %d %d" % (t, kv) for t in range(20)]))
    for name, ty in (("l3i", 12), ("l2i", 11), ("l1i", 10), ("l5", 9), ("l1d", 5), ("memcache", 15), ("bridge", 16), ("pci", 17), ("os", 18), ("group", 13), ("core", 3)):
        for kn in ("none", "structure"):
            opts.append((["--filter", "%s:%s" % (name, kn)], ["filter %d %d" % (ty, KINDS[kn])]))
    return opts


def check_lstopo_filters(ctx, rng):
    """lstopo's type-filter options over inputs that contain every member type of each group: the XML (and synthetic)
    output must be the library export of the topology loaded with the corresponding set_*_types_filter() calls"""
    lst = ctx.tools["lstopo-no-graphics"]
    xmld = os.path.join(C.REPO, "tests/hwloc/xml")
    inputs = [("synthetic", "pack:2 l5:1 l4:1 l3u:1 l3i:1 l2:2 l2i:1 l1d:1 l1i:1 core:1 pu:2"),
              ("synthetic", "pack:2 [numa(memorysidecachesize=1048576)] group:1 l3u:1 l3i:1 l2:2 l2i:1 l1d:1 l1i:1 core:1 pu:2")]
    for n in ("24em64t-2n6c2t-pci.xml", "memorysidecaches.xml"):
        if os.path.exists(os.path.join(xmld, n)):
            inputs.append(("xml", os.path.join(xmld, n)))
    opts = lstopo_filter_options()
    for k, (kind, arg) in enumerate(inputs):
        sel = opts if ctx.run.tier == "thorough" else [o for o in opts if o[0][0] != "--filter"] + rng.sample([o for o in opts if o[0][0] == "--filter"], 10)
        for j, (targs, conf) in enumerate(sel):
            ref = Ref(ctx.refexe)
            try:
                for c in conf:
                    ref.ask("config " + c)
                lines = ref.ask("topo lstopo %s %s" % (kind, arg))
                ok_ref = bool(lines) and lines[0] == "load rc=0"
                fx = os.path.join(ctx.tmp, "lf-%d-%d.xml" % (k, j))
                fr = os.path.join(ctx.tmp, "lfr-%d-%d.xml" % (k, j))
                args = topo_args(kind, arg) + targs + ["--of", "xml", fx]
                rc, out, err = run_tool(lst, args)
                ctx.count("lstopo-filter|%s|%s|%d" % (arg, targs, rc), nontrivial=True, kind="lstopo-filter-option",
                          sample={"topology": arg, "option": targs})
                rtxt = replay_text(kind, arg, "lstopo-no-graphics", targs + ["--of", "xml"], "reference: %s\n" % "; ".join(conf))
                if crashed(rc, err):
                    ctx.violation("crash:lstopo-filter:%d:%s" % (k, "-".join(targs)), "lstopo crashed with %r" % targs, rtxt + err.decode(errors="replace")[-1500:])
                    continue
                if not ok_ref:
                    if rc == 0:
                        ctx.violation("lstopo-filter-status:%d:%s" % (k, "-".join(targs)), "lstopo %r succeeds, the library load with %r fails" % (targs, conf), rtxt)
                    continue
                r = ref.ask("xmlexport 0 " + fr)
                if rc != 0 or not r or not r[0].startswith("xml rc=0") or not os.path.exists(fx):
                    ctx.violation("lstopo-filter-status:%d:%s" % (k, "-".join(targs)), "lstopo %r rc=%d, library export %r" % (targs, rc, r), rtxt)
                    continue
                a, b = norm_xml(open(fx, "rb").read()), norm_xml(open(fr, "rb").read())
                if a != b:
                    ta = sorted(set(re.findall(rb'<object type="(\w+)"', a)))
                    tb = sorted(set(re.findall(rb'<object type="(\w+)"', b)))
                    ca = {t: len(re.findall(rb'<object type="%s"' % t, a)) for t in ta}
                    cb = {t: len(re.findall(rb'<object type="%s"' % t, b)) for t in tb}
                    diff = {t.decode(): (ca.get(t, 0), cb.get(t, 0)) for t in set(ta) | set(tb) if ca.get(t, 0) != cb.get(t, 0)}
                    ctx.violation("lstopo-filter-xml:%s" % "-".join(targs),
                                  "lstopo %s --of xml on %s is not the library export after %s: object counts (lstopo, library) that differ: %r"
                                  % (" ".join(targs), arg, "; ".join(conf[:3]) + ("..." if len(conf) > 3 else ""), diff), rtxt)
                    continue
                ctx.bump("lstopo-filter-xml-equal")
                rc, out, err = run_tool(lst, topo_args(kind, arg) + targs + ["--of", "synthetic"])
                r = ref.ask("synexport 0")
                m = re.match(r"syn (-?\d+) ?(.*)", r[0]) if r else None
                if m and int(m.group(1)) >= 0 and (rc != 0 or out.decode("latin-1") != m.group(2) + "\n"):
                    ctx.violation("lstopo-filter-syn:%s" % "-".join(targs), "lstopo %s --of synthetic prints %r, the library export is %r"
                                  % (" ".join(targs), out[:200], m.group(2)[:200]), rtxt)
                elif m and int(m.group(1)) >= 0:
                    ctx.bump("lstopo-filter-syn-equal")
            finally:
                ref.close()


BOUNDARIES = (4096, 8192, 16384, 65536)


def check_stdin_boundaries(ctx, rng):
    """every tool input that can come from stdin, at sizes straddling the tools' (and the XML backends') internal
    buffer boundaries: the diff of hwloc-patch given as "-", XML topologies given as "-i -" to lstopo and hwloc-calc"""
    lst, dif, pat, calc = (ctx.tools[k] for k in ("lstopo-no-graphics", "hwloc-diff", "hwloc-patch", "hwloc-calc"))
    env = tool_env()
    # ---- A. hwloc-diff A B | hwloc-patch A - O, with the diff size on each side of 4 KiB, 8 KiB, 16 KiB, 64 KiB
    syn = "numa:520 pu:1"
    fa = os.path.join(ctx.tmp, "sbA.xml")
    rc, out, err = run_tool(lst, ["-i", syn, "--of", "xml", fa], timeout=60)
    if rc == 0 and os.path.exists(fa):
        xa = open(fa, "rb").read().decode("latin-1")
        mems = list(re.finditer(r'local_memory="(\d+)"', xa))

        def make_b(digits):
            xb, last = [], 0
            for m, dg in zip(mems, digits):
                xb.append(xa[last:m.start(1)])
                xb.append("7" * dg)
                last = m.end(1)
            xb.append(xa[last:])
            return "".join(xb)

        def diff_of(digits, name):
            fb = os.path.join(ctx.tmp, name)
            open(fb, "w", encoding="latin-1").write(make_b(digits))
            rc, out, err = run_tool(dif, [fa, fb], timeout=60)
            return fb, rc, out
        # size model: header + per-hunk sizes, measured
        _, _, d1 = diff_of([1] * 1, "sbB-probe1.xml")
        _, _, d2 = diff_of([1] * 100, "sbB-probe2.xml")
        per = (len(d2) - len(d1)) / 99.0 if len(d2) > len(d1) else 140.0
        targets = [b + d for b in BOUNDARIES for d in (-1, 0, 1)]
        got_sizes = []
        for t in targets:
            n = max(1, min(len(mems), int((t - (len(d1) - per)) / (per + 2))))
            fb, rc, dtxt = diff_of([1] * n, "sbB-%d.xml" % t)
            # shrink until below the target with 1-digit values, then add digits
            while n > 1 and len(dtxt) > t:
                n -= 1
                fb, rc, dtxt = diff_of([1] * n, "sbB-%d.xml" % t)
            extra = t - len(dtxt)
            digits = [1] * n
            i = 0
            while extra > 0 and i < n:
                add = min(17, extra)
                digits[i] += add
                extra -= add
                i += 1
            fb, rc, dtxt = diff_of(digits, "sbB-%d.xml" % t)
            got_sizes.append(len(dtxt))
            if rc != 0:
                ctx.bump("stdin-boundary-diff-refused")
                continue
            fd = os.path.join(ctx.tmp, "sbD-%d.xml" % t)
            open(fd, "wb").write(dtxt)
            fo1 = os.path.join(ctx.tmp, "sbO1-%d.xml" % t)
            fo2 = os.path.join(ctx.tmp, "sbO2-%d.xml" % t)
            rc1, o1, e1 = run_tool(pat, [fa, fd, fo1], timeout=60)
            rc2, o2, e2 = run_tool(pat, [fa, "-", fo2], stdin=dtxt, timeout=60)
            ctx.count("patch-stdin|%d|%d|%d" % (len(dtxt), rc1, rc2), nontrivial=True, kind="patch-diff-on-stdin",
                      sample={"diff_bytes": len(dtxt), "hunks": n, "rc_file": rc1, "rc_stdin": rc2})
            rtxt = ("kind: input\ntool: hwloc-patch\nrecipe: lstopo-no-graphics -i \"%s\" --of xml A.xml ; B.xml = A.xml with the local_memory of the first %d "
                    "NUMA nodes changed to %s ; hwloc-diff A.xml B.xml | hwloc-patch A.xml - O.xml   (the diff on stdin is %d bytes)\n"
                    % (syn, n, ",".join("7" * d for d in digits[:8]) + ("..." if n > 8 else ""), len(dtxt)))
            if crashed(rc2, e2):
                ctx.violation("crash:patch-stdin:%d" % len(dtxt), "hwloc-patch crashed reading a %d-byte diff on stdin" % len(dtxt), rtxt + e2.decode(errors="replace")[-1500:])
            elif rc1 != 0:
                ctx.violation("patch-file-fails:%d" % len(dtxt), "hwloc-patch rc=%d on a %d-byte diff file" % (rc1, len(dtxt)), rtxt)
            elif rc2 != 0 or not os.path.exists(fo2) or open(fo1, "rb").read() != open(fo2, "rb").read():
                ctx.violation("patch-stdin-differs:%d" % len(dtxt),
                              "hwloc-patch with the %d-byte diff on stdin (rc=%d) does not produce what it produces with the same diff in a file (rc=%d): %s"
                              % (len(dtxt), rc2, rc1, e2.decode(errors="replace")[-200:]), rtxt)
            else:
                r1, r2 = Ref(ctx.refexe), Ref(ctx.refexe)
                try:
                    if r1.ask("topo diff xml " + fo2) != r2.ask("topo diff xml " + fb):
                        ctx.violation("patch-stdin-not-B:%d" % len(dtxt), "hwloc-diff A B | hwloc-patch A - O: O != B (diff of %d bytes)" % len(dtxt), rtxt)
                    else:
                        ctx.bump("patch-diff-on-stdin-equal")
                finally:
                    r1.close()
                    r2.close()
        ctx.run.cov["diff_on_stdin_sizes"] = got_sizes
    # ---- B. XML topology on stdin (-i - --if xml): lstopo and hwloc-calc, libxml and nolibxml readers
    fx = os.path.join(ctx.tmp, "sbX.xml")
    rc, out, err = run_tool(lst, ["-i", "pack:2 core:2 pu:2", "--of", "xml", fx])
    if rc == 0 and os.path.exists(fx):
        x = open(fx, "rb").read()
        m = re.search(rb'<object type="Machine"[^>]*>\n', x)
        sizes = []
        for t in [b + d for b in (4096, 8192, 65536) for d in (-1, 0, 1)]:
            pad = t - len(x) - len(b'    <info name="Pad" value=""/>\n')
            if not m or pad < 0:
                continue
            xt = x[:m.end()] + b'    <info name="Pad" value="' + b"p" * pad + b'"/>\n' + x[m.end():]
            sizes.append(len(xt))
            fxt = os.path.join(ctx.tmp, "sbX-%d.xml" % t)
            open(fxt, "wb").write(xt)
            for libxml in ("1", "0"):
                e = dict(env, HWLOC_LIBXML=libxml)
                o_file = os.path.join(ctx.tmp, "sbXo-%d-%s-f.xml" % (t, libxml))
                o_in = os.path.join(ctx.tmp, "sbXo-%d-%s-i.xml" % (t, libxml))
                r1 = C.sh([lst, "-i", fxt, "--if", "xml", "--of", "xml", o_file], env=e, timeout=60)
                r2 = C.sh([lst, "-i", "-", "--if", "xml", "--of", "xml", o_in], env=e, input=xt, timeout=60)
                c1 = C.sh([calc, "-i", fxt, "--if", "xml", "all", "-N", "pu"], env=e, timeout=60)
                c2 = C.sh([calc, "-i", "-", "--if", "xml", "all", "-N", "pu"], env=e, input=xt, timeout=60)
                ctx.count("xml-stdin|%d|%s|%d|%d" % (len(xt), libxml, r1[0], r2[0]), nontrivial=True, kind="xml-on-stdin",
                          sample={"xml_bytes": len(xt), "libxml": libxml})
                rtxt = "kind: input\ntool: lstopo-no-graphics\nrecipe: XML of \"pack:2 core:2 pu:2\" with a Pad info making the file %d bytes ; HWLOC_LIBXML=%s lstopo-no-graphics -i - --if xml --of xml out.xml < file\n" % (len(xt), libxml)
                if crashed(r2[0], r2[2]) or crashed(c2[0], c2[2]):
                    ctx.violation("crash:xml-stdin:%d:%s" % (len(xt), libxml), "a tool crashed reading a %d-byte XML on stdin" % len(xt), rtxt + (r2[2] + c2[2]).decode(errors="replace")[-1500:])
                elif r1[0] != 0 or r2[0] != 0 or not os.path.exists(o_in) or open(o_file, "rb").read() != open(o_in, "rb").read():
                    ctx.violation("xml-stdin-differs:%d:%s" % (len(xt), libxml), "lstopo -i - (XML of %d bytes on stdin, HWLOC_LIBXML=%s) rc=%d differs from the same XML given as a file rc=%d" % (len(xt), libxml, r2[0], r1[0]), rtxt)
                elif c1[0] != 0 or (c1[0], c1[1]) != (c2[0], c2[1]):
                    ctx.violation("xml-stdin-calc-differs:%d:%s" % (len(xt), libxml), "hwloc-calc -i - (XML of %d bytes on stdin) prints %r rc=%d, with the file %r rc=%d" % (len(xt), c2[1], c2[0], c1[1], c1[0]), rtxt)
                else:
                    ctx.bump("xml-on-stdin-equal")
        ctx.run.cov["xml_on_stdin_sizes"] = sizes


def stdin_boundary_cases(info, rng):
    """hwloc-calc stdin lines whose length straddles its line buffer (64 bytes, doubled as needed: fgets gets 63, 127, 255... characters)"""
    cases = []
    for limit in (63, 127, 255):
        for d in (-1, 0, 1, 2):
            target = limit + d
            locs = []
            text = ""
            while True:
                it = [x for x in G.gen_cmdline(rng, info)["ast"] if x[0] == "loc"][0]
                t = G.loc_text(it)
                if len(text) + len(t) + 1 > target:
                    break
                locs.append(it)
                text += (" " if text else "") + t
            if not locs:
                continue
            text += " " * (target - len(text))              # trailing blanks: skipped by strtok
            other = [x for x in G.gen_cmdline(rng, info)["ast"] if x[0] == "loc"][:2]
            lines = [locs, other, locs]
            texts = [text, " ".join(G.loc_text(x) for x in other), text]
            cases.append({"args": [], "opts": [], "lines": lines, "line_texts": texts, "stdin": "\n".join(texts) + "\n", "out": ("set",)})
    return cases


def edit_xml(rng, x):
    """value-level edits hwloc-diff can express (info values, object names, memory / cache sizes)"""
    edits = []
    n = rng.choice([0, 1, 1, 2, 3])
    for _ in range(n):
        k = rng.choice(["info", "info", "size", "mem", "name"])
        if k == "info":
            ms = list(re.finditer(r'<info name="([^"]+)" value="([^"]*)"/>', x))
            if ms:
                m = rng.choice(ms)
                nv = rng.choice(["changed", "", "a b", m.group(2) + "2"])
                x = x[:m.start(2)] + nv + x[m.end(2):]
                edits.append("info:%s" % m.group(1))
        elif k == "size":
            ms = list(re.finditer(r'cache_size="(\d+)"', x))
            if ms:
                m = rng.choice(ms)
                tag = x[x.rfind("<", 0, m.start()):m.start()]
                x = x[:m.start(1)] + str(int(m.group(1)) + rng.choice([1, 4096])) + x[m.end(1):]
                edits.append("memcache_size" if 'type="MemCache"' in tag else "cache_size")
        elif k == "mem":
            ms = list(re.finditer(r'local_memory="(\d+)"', x))
            if ms:
                m = rng.choice(ms)
                x = x[:m.start(1)] + str(int(m.group(1)) + rng.choice([1, 4096, 1 << 20])) + x[m.end(1):]
                edits.append("local_memory")
        else:
            ms = list(re.finditer(r'<object type="\w+" [^>]*\bname="([^"]*)"', x))
            if ms:
                m = rng.choice(ms)
                x = x[:m.start(1)] + "renamed" + x[m.end(1):]
                edits.append("name")
    return x, edits


def check_distrib(ctx, kind, arg, tag, rng):
    dis = ctx.tools["hwloc-distrib"]
    ref = Ref(ctx.refexe)
    try:
        lines = ref_load(ref, "distrib", kind, arg)
        if not lines or lines[0] != "load rc=0":
            return
        info = G.Info(lines[1:])
        npu = info.npus()
        root = info.root["cs"]
        # levels usable as --from/--to: no CPU-less object among the roots (hwloc_distrib on such roots: C09 finding)
        normal = [d for d in range(info.depth) if info.levels.get(d) and not any(o["cs"].is_empty() for o in info.level(d))]
        pft = 0.85 if "@" in kind else 0.45
        for n in sorted(set([1, 2, npu - 1, npu, npu + 1, rng.randrange(1, 2 * npu + 2), 0])):
            if n < 0:
                continue
            extra = []
            flags = 0
            if rng.random() < 0.25:
                extra.append("--reverse")
                flags = 1
            # --from / --to / --at: several roots, bounded depth
            d_from, d_to = 0, 2147483647
            r = rng.random()
            if r < pft and len(normal) > 1:
                d_from = rng.choice(normal)
                if rng.random() < 0.5:
                    d_to = rng.choice([d for d in normal if d >= d_from])
                    if d_to == d_from and rng.random() < 0.5:
                        extra += ["--at", G.type_spelling(rng, info, d_from, info.level_type[d_from])]
                    else:
                        extra += ["--from", G.type_spelling(rng, info, d_from, info.level_type[d_from]),
                                  "--to", G.type_spelling(rng, info, d_to, info.level_type[d_to])]
                else:
                    extra += ["--from", G.type_spelling(rng, info, d_from, info.level_type[d_from])]
            elif r < pft + 0.15 and normal:
                d_to = rng.choice(normal)
                extra += ["--to", G.type_spelling(rng, info, d_to, info.level_type[d_to])]
            if any(a.isdigit() for a in extra[1:] if a not in ("--reverse",)) :
                # hwloc-distrib takes type names only (no depth numbers): keep the default
                extra = [a for a in extra if a == "--reverse"]
                d_from, d_to = 0, 2147483647
            single = rng.random() < 0.3
            args = extra + (["--single"] if single else []) + [str(n)]
            rc, out, err = run_tool(dis, topo_args(kind, arg) + args)
            ctx.count("distrib|%s|%s|%s" % (arg, args, out), nontrivial=n > 0, kind="distrib" + ("-from-to" if d_from or d_to < 2147483647 else ""),
                      sample={"topology": arg, "args": args, "stdout": out.decode("latin-1")[:200]})
            if crashed(rc, err):
                ctx.violation("crash:distrib:%s:%d" % (tag, n), "hwloc-distrib crashed", replay_text(kind, arg, "hwloc-distrib", args, err.decode(errors="replace")[-2000:]))
                continue
            sets = [parse_tool_set(l, "hwloc", ref) for l in out.decode("latin-1").split("\n") if l != ""]
            sets = [None if s == "huge" else s for s in sets]
            roots_cs = union_all([o["cs"] for o in info.level(d_from)])
            leaf_depth = min(d_to, info.depth - 1)
            nleaves = len([o for o in info.level(leaf_depth) if o["cs"].intersects(roots_cs)])
            what = None
            if rc != 0:
                what = "exit status %d" % rc
            elif len(sets) != n:
                what = "%d lines instead of %d" % (len(sets), n)
            elif any(s is None or s.is_empty() for s in sets):
                what = "empty or unparsable set"
            elif any(not s.subset(root) for s in sets):
                what = "a set is not included in the root cpuset"
            elif not single and n > 0 and union_all(sets) != roots_cs:
                what = "the union of the sets is not the union of the roots"
            elif leaf_depth == info.depth - 1 and n <= nleaves and not pairwise_disjoint(sets):
                # (with --to above the PUs hwloc_distrib splits by cpuset weight and may give one object to two
                # items although there are enough objects: not a C09 guarantee; equality with the library decides)
                what = "sets overlap although N <= number of PUs"
            elif single and any(s.weight() != 1 for s in sets):
                what = "--single set of weight != 1"
            if what:
                ctx.violation("distrib:%s" % what.replace(" ", "-")[:50], "hwloc-distrib %r on %s: %s" % (args, arg, what),
                              replay_text(kind, arg, "hwloc-distrib", args, "stdout:\n" + out.decode("latin-1")))
                continue
            # the library's own answer
            r = ref.ask("distrib %d %d %d %d" % (n, d_from, d_to, flags))
            if r and r[0] == "distrib rc=0":
                lib = [G.BS.parse(l[2:]) for l in r[1:]]
                if single:
                    lib = [G.BS(1 << (s.fin.bit_length() - 1)) if flags else G.BS(1 << s.first()) for s in lib]
                if lib != sets:
                    ctx.violation("distrib-vs-library:%s" % tag, "hwloc-distrib %r differs from hwloc_distrib: %r vs %r" % (args, sets, lib),
                                  replay_text(kind, arg, "hwloc-distrib", args))
                else:
                    ctx.bump("distrib-equals-library")
        # malformed: observed
        for bad in (["--bogus", "2"], [], ["2", "3"], ["--from"], ["--from", "bogus", "2"], ["--to", "bogus", "2"], ["--at", "core", "2"],
                    ["--cof", "zz", "2"], ["zz"], ["--ignore", "zz", "2"], ["--restrict", "zz", "2"]):
            rc, out, err = run_tool(dis, topo_args(kind, arg) + bad)
            ctx.bump("distrib-malformed-exit-%s" % ("0" if rc == 0 else "nonzero"))
            if crashed(rc, err):
                ctx.violation("crash:distrib-malformed:" + "-".join(bad), "hwloc-distrib crashed on %r" % bad,
                              replay_text(kind, arg, "hwloc-distrib", bad, err.decode(errors="replace")[-2000:]))
            elif bad and bad[0] == "--bogus" and rc == 0:
                ctx.violation("exit:distrib:bogus", "hwloc-distrib accepted an unknown option", replay_text(kind, arg, "hwloc-distrib", bad))
    finally:
        ref.close()


def check_info_restrict(ctx, kind, arg, tag, rng):
    """hwloc-info --restrict S --ancestor T pu:0 / --descendants T machine:0 name objects of type T of the
    RESTRICTED topology (same ordering question as hwloc-distrib: types must be resolved after the restrict)"""
    tool = ctx.tools["hwloc-info"]
    ref = Ref(ctx.refexe)
    try:
        lines = ref_load(ref, "lstopo", kind, arg)
        if not lines or lines[0] != "load rc=0":
            return
        info = G.Info(lines[1:])
        pus = info.level(info.depth - 1)
        if not pus:
            return
        # ancestors of PU L#0 by depth
        anc = {}
        o = pus[0]
        while o["par"] not in ("-", "?"):
            o = info.objs[int(o["par"])]
            if o["dp"] >= 0:
                anc[o["dp"]] = o
        for d in sorted(anc):
            ty = info.level_type[d]
            if info.tdepth.get(ty, -1) != d:
                continue                       # type with several depths: hwloc-info refuses it
            name = rng.choice(G.SPELL.get(ty, [G.TYPE_NAMES[ty]]))
            for mode in ("ancestor", "descendants"):
                args = ["--" + mode, name, "pu:0" if mode == "ancestor" else "machine:0"]
                rc, out, err = run_tool(tool, topo_args(kind, arg) + args)
                ctx.count("info|%s|%s|%s" % (arg, args, out[:80]), nontrivial=True, kind="info-" + mode)
                rtxt = replay_text(kind, arg, "hwloc-info", args, "stdout:\n" + out.decode("latin-1")[:400])
                if crashed(rc, err):
                    ctx.violation("crash:info:%s:%s" % (tag, name), "hwloc-info crashed on %r" % (args,), rtxt)
                    continue
                first = out.decode("latin-1").split("\n")[0]
                m = re.match(r"(\S+) L#(\d+) = (parent of PU L#0|descendant #0 of Machine L#0)", first)
                if rc != 0 or not m:
                    ctx.violation("info-restrict-depth:%s:%s:%s" % (tag, mode, name),
                                  "hwloc-info %r: rc=%d first line %r, expected an object of the %s level" % (args, rc, first, G.TYPE_NAMES[ty]), rtxt)
                    continue
                r = ref.ask("typedepth " + m.group(1))
                mm = re.match(r"typedepth (-?\d+) (-?\d+) (-?\d+)", r[0]) if r else None
                got_depth = int(mm.group(3)) if mm and int(mm.group(1)) >= 0 else None
                want_li = anc[d]["li"] if mode == "ancestor" else 0
                if got_depth != d or int(m.group(2)) != want_li:
                    ctx.violation("info-restrict-depth:%s:%s:%s" % (tag, mode, name),
                                  "hwloc-info %r on the restricted topology names %r; the %s of type %s is %s L#%d (depth %d)"
                                  % (args, first, mode, name, G.TYPE_NAMES[ty], want_li, d), rtxt)
                else:
                    ctx.bump("info-%s-ok" % mode)
    finally:
        ref.close()


def union_all(sets):
    r = G.BS(0)
    for s in sets:
        r = r.union(s)
    return r


def pairwise_disjoint(sets):
    acc = G.BS(0)
    for s in sets:
        if acc.intersects(s):
            return False
        acc = acc.union(s)
    return True


# ---------------------------------------------------------------------------
def load_corpus():
    """corpus/c20/*.case: lines 'topology: <kind> <arg>' then 'args: ...' (escaped tokens) [and 'expect: hang|abort|ok']"""
    res = []
    for p in sorted(glob.glob(os.path.join(C.VERIF, "corpus", "c20", "*.case"))):
        kind = arg = None
        for line in open(p, encoding="latin-1"):
            line = line.rstrip("\n")
            if line.startswith("topology: "):
                kind, arg = line[10:].split(" ", 1)
                arg = arg.replace("$REPO", C.REPO)
            elif line.startswith("args: ") and kind:
                toks = [unesc(t) for t in line[6:].split(" ") if t != ""]
                res.append({"file": os.path.basename(p), "kind": kind, "arg": arg, "args": toks})
            elif line.startswith("info: ") and kind:
                # hwloc-info regression: "info: <args> => <expected beginning of the first output line>"
                a, _, e = line[6:].partition(" => ")
                res.append({"file": os.path.basename(p), "kind": kind, "arg": arg.replace("$REPO", C.REPO), "tool": "hwloc-info",
                            "args": a.split(), "expect": e})
            elif line.startswith("stdin: ") and res:
                res[-1]["stdin"] = unesc(line[7:].strip())       # the text hwloc-calc reads when args name no location
    return res


def unesc(t):
    if t == "%":
        return ""
    return re.sub(r"%([0-9a-fA-F]{2})", lambda m: chr(int(m.group(1), 16)), t)


def parse_replay(path):
    kind = arg = tool = None
    args = []
    stdin = None
    for line in open(path, encoding="latin-1"):
        line = line.rstrip("\n")
        if line.startswith("topology: "):
            kind, arg = line[10:].split(" ", 1)
        elif line.startswith("tool: "):
            tool = line[6:]
        elif line.startswith("args: "):
            args = [unesc(t) for t in line[6:].split(" ") if t != ""]
        elif line.startswith("stdin: "):
            stdin = unesc(line[7:].strip())
    return kind, arg, tool, args, stdin


def check(run, replay=None):
    t0 = time.time()
    have_model = os.path.exists(os.path.join(C.COQ_SRC, "Props", "Properties_C20.v"))
    proof = C.prove("C20") if have_model else None
    tools = build_tools()
    refexe = C.build_harness("hwv_calcref", ["hwv_calcref.c"])
    drv = None
    if os.path.exists(os.path.join(C.COQ_SRC, "Extract", "Extract_C20.v")):
        try:
            drv = C.extract("C20", "drv_c20.ml", prelude=["hvnum.ml", "hvdump.ml"])
        except Exception as e:      # the model no longer builds: the search below still runs
            C.log("[C20] model extraction failed: %s" % str(e)[-500:])
    tmp = tempfile.mkdtemp(prefix="hwv-c20-")
    ctx = Ctx(run, tools, refexe, drv, tmp)
    rng = run.rng
    thorough = run.tier == "thorough"
    try:
        if replay:
            kind, arg, tool, args, rstdin = parse_replay(replay)
            corpus_cmds = [{"args": args, "out": ("replay",)}] if tool in ("hwloc-calc", "model", None) else []
            if rstdin is not None and corpus_cmds:
                corpus_cmds[0]["stdin"] = rstdin
            r = check_calc_topology(ctx, kind, arg, 0, 0, rng, corpus_cmds=corpus_cmds)
            if r:
                run_model(ctx, kind, arg, r[0], r[1], "replay")
            if tool and tool.startswith("lstopo"):
                check_lstopo(ctx, kind, arg, "replay")
            if tool in ("hwloc-diff", "hwloc-patch"):
                for k in range(20):
                    check_diff_patch(ctx, kind, arg, "replay%d" % k, rng)
            if tool == "hwloc-distrib":
                check_distrib(ctx, kind, arg, "replay", rng)
            return run.finish(proof, trusted=TRUSTED)
        # ---- topologies
        topos = []
        fixed = ["pack:2 core:2 pu:2", "pu:4", "pack:2 [numa] core:2 pu:2", "numa:2 pack:1 l2:2 core:1 pu:2",
                 "group:2 group:2 pu:2", "pack:2 pu:2(indexes=3,1,2,0)", "pu:1",
                 "pack:2 [numa(memory=1024)] die:2 [numa] l3:1 core:2 pu:2"]
        nsyn = 60 if thorough else 14
        for s in fixed:
            topos.append(("synthetic", s))
        for _ in range(nsyn):
            topos.append(("synthetic", TS.gen_synthetic(rng, max_pus=48)))
        # restricted topologies: CPU-less NUMA nodes (and their CPU-less parents) outside the kept PUs
        for r, s in [("0x3", "pack:2 die:2 [numa] pu:2"), ("0x5", "pack:2 [numa] core:2 pu:2"), ("0x30", "numa:3 core:2 pu:1"),
                     ("0xc", "pack:2 [numa] die:2 [numa] pu:2"), ("0x1", "group:2 [numa] pack:2 [numa] pu:1")]:
            topos.append(("synthetic@" + r, s))
        # ... and restricts after which a level disappears: a Group level with one Group left (merged away with the
        # default filters of hwloc-distrib), packages reduced to one core, with and without REMOVE_CPULESS
        for r, s in [("0xff", "group:2 pack:2 core:2 pu:2"), ("0xf/1", "group:2 pack:2 core:2 pu:2"), ("0x3", "pack:2 core:2 pu:2"),
                     ("0xf0", "group:2 group:2 pack:2 pu:2"), ("0x33/1", "pack:2 [numa] l2:2 core:1 pu:2"), ("0xf", "numa:2 group:2 core:2 pu:1")]:
            topos.append(("synthetic@" + r, s))
        # interleaved / shuffled OS numbering on the PU (and hence Core) level: tree order is not cpuset order
        for s in ["pack:2 core:4 pu:2(indexes=0,8,1,9,2,10,3,11,4,12,5,13,6,14,7,15)", "pack:2 core:2 pu:2(indexes=0,4,2,6,1,5,3,7)",
                  "pack:4 pu:2(indexes=4*2:2*2)", "numa:2 core:2 pu:2(indexes=7,0,6,1,5,2,4,3)"]:
            topos.append(("synthetic", s))
        il = os.path.join(C.REPO, "tests/hwloc/xml/16em64t-4s2c2t.xml")
        if os.path.exists(il):
            topos.append(("xml", il))
        # memory tiers and subtypes (bracket filters of the location grammar)
        for n in ("64intel64-fakeKNL-SNC4-hybrid.xml", "8intel64-4n2t-memattrs.xml"):
            if os.path.exists(os.path.join(C.REPO, "tests/hwloc/xml", n)):
                topos.append(("xml", os.path.join(C.REPO, "tests/hwloc/xml", n)))
        # memory-side caches: in front of some but not all nodes of an attach point, several nodes per attach point,
        # CPU-less nodes behind a cache (restrict), and the XML of the test suite
        for s in ["pack:2 [numa(memorysidecachesize=268435456)] [numa] core:2 pu:2", "pack:2 [numa(memorysidecachesize=1048576)] core:2 pu:2",
                  "numa:2(memorysidecachesize=1048576) core:2 pu:1", "pack:2 [numa] [numa(memorysidecachesize=4096)] die:2 [numa(memorysidecachesize=8192)] pu:2"]:
            topos.append(("synthetic", s))
        topos.append(("synthetic@0x3", "pack:2 [numa(memorysidecachesize=1048576)] [numa] core:2 pu:2"))
        topos.append(("synthetic@0x30", "pack:2 [numa] [numa(memorysidecachesize=4096)] die:2 [numa(memorysidecachesize=8192)] pu:2"))
        msc = os.path.join(C.REPO, "tests/hwloc/xml/memorysidecaches.xml")
        if os.path.exists(msc):
            topos.append(("xml", msc))
        # an asymmetric topology (XML): the restrict removes the whole Group level even with KEEP_ALL filters
        irr = os.path.join(C.REPO, "tests/hwloc/xml/irregulargroups-disallowed.xml")
        if os.path.exists(irr):
            topos.append(("xml@0x1", irr))
        k = 0
        while k < (12 if thorough else 4):
            s = TS.gen_synthetic(rng, max_pus=32)
            if "numa" not in s or "indexes" in s:
                continue
            n = 1
            for m in re.finditer(r":(\d+)", s):
                n *= int(m.group(1))
            mask = 0
            for b in range(n):
                if rng.random() < 0.35:
                    mask |= 1 << b
            if mask == 0 or mask == (1 << n) - 1:
                mask = 1
            topos.append(("synthetic@0x%x" % mask, s))
            k += 1
        xmls = [p for p in TS.xml_corpus() if os.path.getsize(p) < (2000000 if thorough else 150000)]
        rng.shuffle(xmls)
        for p in xmls[: (40 if thorough else 7)]:
            topos.append(("xml", p))
        ncmd = 60 if thorough else 16
        nmal = 60 if thorough else 14
        nstdin = 20 if thorough else 5
        corpus = load_corpus()
        jobs = []
        seeds = [rng.getrandbits(64) for _ in topos]
        import random

        def one(i):
            kind, arg = topos[i]
            r = random.Random(seeds[i])
            tag = "t%d" % i
            cc = [dict(c, out=("corpus",)) for c in corpus if c["kind"] == kind and c["arg"] == arg and c.get("tool") != "hwloc-info"]
            res = check_calc_topology(ctx, kind, arg, ncmd, nmal, r, corpus_cmds=cc, nstdin=nstdin, boundary_lines=(i < 2 or (thorough and i % 5 == 0)))
            if res:
                run_model(ctx, kind, arg, res[0], res[1], tag)
            if i % 2 == 0 or thorough:
                check_lstopo(ctx, kind, arg, tag)
            for k in range(3 if thorough else 1):
                check_diff_patch(ctx, kind, arg, "%s-%d" % (tag, k), r)
            if i % 2 == 1 or thorough or "@" in kind:
                check_distrib(ctx, kind, arg, tag, r)
            if "@" in kind or i % 4 == 0:
                check_info_restrict(ctx, kind, arg, tag, r)

        # hwloc-info regressions of the corpus
        for c in corpus:
            if c.get("tool") == "hwloc-info":
                rc, out, err = run_tool(tools["hwloc-info"], topo_args(c["kind"], c["arg"]) + c["args"])
                first = out.decode("latin-1").split("\n")[0]
                run.count("info-corpus|%s|%s" % (c["args"], first), nontrivial=True, kind="info-corpus")
                if crashed(rc, err) or rc != 0 or not first.startswith(c["expect"]):
                    run.violation("info-corpus:%s:%s" % (c["file"], "-".join(c["args"])), "hwloc-info %r on %s %s prints %r (rc=%d), expected %r"
                                  % (c["args"], c["kind"], c["arg"], first, rc, c["expect"]),
                                  replay_text(c["kind"], c["arg"], "hwloc-info", c["args"], "stdout:\n" + out.decode("latin-1")[:300]))
        corpus = [c for c in corpus if c.get("tool") != "hwloc-info"]
        # corpus topologies that are not in the list get their own entry
        for c in corpus:
            if (c["kind"], c["arg"]) not in topos:
                topos.append((c["kind"], c["arg"]))
                seeds.append(rng.getrandbits(64))
        lrng = random.Random(rng.getrandbits(64))
        with concurrent.futures.ThreadPoolExecutor(max_workers=max(4, C.NCPU)) as ex:
            drng = random.Random(rng.getrandbits(64))
            futs = [ex.submit(one, i) for i in range(len(topos))] + [ex.submit(check_lstopo_long_synthetic, ctx, lrng),
                                                                      ex.submit(check_diff_patch_disallowed, ctx, drng, "dis"),
                                                                      ex.submit(check_stdin_boundaries, ctx, random.Random(rng.getrandbits(64))),
                                                                      ex.submit(check_lstopo_filters, ctx, random.Random(rng.getrandbits(64)))]
            for f in futs:
                f.result()
        run.cov["topologies"] = {"synthetic": sum(1 for t in topos if t[0] == "synthetic"), "xml": sum(1 for t in topos if t[0] == "xml")}
        run.cov["tools_built_from"] = os.path.join(C.REPO, "utils")
        run.cov["model_driver"] = bool(drv)
        run.cov["model_driver_peak_rss_kb"] = PEAK["model_rss_kb"]
        run.cov["model_driver_address_space_limit"] = MODEL_AS_LIMIT
        run.assumptions.append("option parsing of the tools, exit statuses on malformed input and absence of crashes are observed on the ASan+UBSan builds, not proved")
        run.assumptions.append("lstopo / hwloc-diff / hwloc-patch / hwloc-distrib clauses are checked by running the built tools against the library harness (they reduce to C05/C07/C16/C09)")
        return run.finish(proof, trusted=TRUSTED)
    finally:
        shutil.rmtree(tmp, ignore_errors=True)
        C.log("[C20] %.1fs" % (time.time() - t0))


TRUSTED = ["gcc build of utils/hwloc/*.c and utils/lstopo/*.c from the current tree (ASan+UBSan, leak detection off for the tools)",
           "harness/hwv_calcref.c (library-side reference through the public API)",
           "python transliteration of the denotational spec (checks/c20.py denote_*) evaluated on the library's data"]
