"""C08: hwloc_topology_restrict removes exactly what the set excludes, or nothing.

Tie/search: scripts (topology config + Misc/userdata annotations + a sequence of
restrict steps) are executed by harness/hwv_restrict.c on the real library
(ASan/UBSan, hwloc_topology_check in a child); the extracted Coq code
(ocaml/drv_c08.ml) then evaluates, for every step, the executable statement of
the property (restrict_spec_check / einval_identity / restrict_rc_check), the
verified well-formedness checker on the result, and the model restrict_topo
on the tree rebuilt from the 'before' dump, compared with the 'after' dump."""
import hashlib
import os
import re
import concurrent.futures as cf

from hv import common as C
from gen import topo_sources as TS
from gen import restrict_gen as G

DEPS = ["hwv_dump.h", "hwv_load.h"]
PRELUDE = ["hvnum.ml", "hvdump.ml"]
XMLDIR = os.path.join(C.BUILD, "c08-xml")
CORPUS = os.path.join(C.VERIF, "corpus", "c08")


def prebuild():
    C.build_harness("hwv_restrict", ["hwv_restrict.c"], deps=DEPS)
    C.extract("C08", "drv_c08.ml", prelude=PRELUDE)


def store_xml(text):
    os.makedirs(XMLDIR, exist_ok=True)
    p = os.path.join(XMLDIR, hashlib.md5(text.encode()).hexdigest()[:16] + ".xml")
    if not os.path.exists(p):
        with open(p + ".tmp%d" % os.getpid(), "w") as f:
            f.write(text)
        os.replace(p + ".tmp%d" % os.getpid(), p)
    return p


def bits_of_xml_mask(s):
    v = 0
    for w in s.split(","):
        v = (v << 32) | int(w, 16)
    return [b for b in range(v.bit_length()) if (v >> b) & 1]


def xml_universe(path):
    txt = open(path, errors="replace").read(20000)
    m = re.search(r'type="Machine"[^>]*? cpuset="([^"]+)"', txt)
    n = re.search(r'type="Machine"[^>]*? nodeset="([^"]+)"', txt)
    try:
        pus = bits_of_xml_mask(m.group(1)) if m else list(range(16))
        numas = bits_of_xml_mask(n.group(1)) if n else [0]
    except ValueError:
        pus, numas = list(range(16)), [0]
    return pus or [0], numas or [0]


class Case:
    def __init__(self, name, kind, cfg, ann, steps, xml=None):
        self.name, self.kind, self.cfg, self.ann, self.steps, self.xml = name, kind, cfg, ann, steps, xml

    def script(self):
        return G.script_of(self.cfg, self.ann + ["dump", "check"], self.steps)

    def replay_text(self, lines=None):
        t = "\n".join(lines or self.script())
        if self.xml:
            t += "\n--- xml %s\n%s" % (self.xml, open(self.xml).read())
        return t


def filters_for_restrict(rng):
    """Type filters: Misc kept (so that annotations work), I/O kept most of the time, Group/caches random."""
    lines = ["filter 19 0"]
    if rng.random() < 0.8:
        lines.append("filter 15 0")     # MemCache kept
    r = rng.random()
    if r < 0.7:
        lines.append("filter io 0")
    elif r < 0.85:
        lines.append("filter io 3")
    for ty in (13, 2, 3, 5, 6, 7):      # Group, Die, Core, L1, L2, L3
        if rng.random() < 0.35:
            lines.append("filter %d %d" % (ty, rng.choice([0, 2, 2])))
    return lines


def enumerated_cases():
    """Fixed topologies x all 32 flag words (+ unknown bits) x boundary sets, one step each and in pairs."""
    cases = []
    topos = [
        ("pack:2 [numa] core:2 pu:2", list(range(8)), [0, 1]),
        ("group:2 [numa] pack:1 core:2 pu:1", list(range(4)), [0, 1]),
        ("[numa] pack:2 die:1 core:1 pu:2", list(range(4)), [0]),
        ("numa:2 pu:2", list(range(4)), [0, 1]),
    ]
    for desc, pus, numas in topos:
        steps = []
        for fl in list(range(32)) + [32, 40, 1 << 20]:
            uni = numas if fl & 8 else pus
            for s in (G.set_text(uni[:1]), G.set_text(uni[1:] or uni), G.set_text([max(uni) + 1]), "0:0", "1:0",
                      G.set_text([uni[0], 63, 64]), G.set_text(uni[::2])):
                steps.append((fl, s))
        for k, (fl, s) in enumerate(steps):
            st = ["restrict %s %d" % (s, fl)]
            if k % 3 == 0:
                # applied repeatedly: a first restriction that creates CPU-less NUMA nodes / Misc moves
                st = ["restrict %s 0" % G.set_text(pus[: max(1, len(pus) // 2)])] + st
            cases.append(Case("enum:%s|%s" % (desc, ";".join(st)), "enumerated", ["filter 19 0", "filter 13 %d" % (k % 2 * 2), "src synthetic " + desc],
                              ["misc 1 1 a", "misc 2 3 b", "misc -3 1 c", "misc -7 0 d", "ud 1 1"], st))
    return cases


def corpus_cases():
    cases = []
    if not os.path.isdir(CORPUS):
        return cases
    for n in sorted(os.listdir(CORPUS)):
        if n.endswith(".case"):
            cases.append(case_of_text(open(os.path.join(CORPUS, n)).read(), "corpus:" + n, "corpus"))
    return cases


def case_of_text(txt, name, kind):
    parts = re.split(r"^--- xml (\S+)\n", txt, flags=re.M)
    body = parts[0]
    xml = None
    for k in range(1, len(parts), 2):
        content = parts[k + 1].split("\n--- ")[0]
        newp = store_xml(content)
        body = body.replace(parts[k], newp)
        xml = newp
    lines = [l for l in body.split("\n") if l and not l.startswith("#") and not l.startswith("--- ")]
    lines = [l for l in lines if l not in ("new", "load", "destroy", "dump", "check")]
    cfg = [l for l in lines if re.match(r"(filter|flags|env|src) ", l)]
    ann, steps = [], []
    seen_step = False
    for l in lines:
        if l in cfg:
            continue
        steps.append(l)     # order of annotations and steps is kept as written
    return Case(name, kind, cfg, [], steps, xml)


def make_cases(run):
    rng = run.rng
    quick = run.tier == "quick"
    cases = corpus_cases()
    enum = enumerated_cases()
    if quick:
        enum = [c for k, c in enumerate(enum) if k % 4 == run.seed % 4]
    cases += enum
    # synthetic descriptions
    for i in range(160 if quick else 4000):
        desc = TS.gen_synthetic(rng, max_pus=32)
        npu, nnuma = G.synthetic_universe(desc)
        cfg = filters_for_restrict(rng) + (["flags 1"] if rng.random() < 0.1 else []) + ["src synthetic " + desc]
        steps = G.gen_steps(rng, list(range(npu)), list(range(nnuma)))
        cases.append(Case("synthetic:%s|%s|%s" % (desc, ";".join(cfg[:-1]), ";".join(s for _, s in steps)), "synthetic",
                          cfg, G.misc_annotations(rng), [s for _, s in steps]))
    # application-inserted Groups with dont_merge on a subset, then restrictions that make the Group level redundant
    for i in range(90 if quick else 2500):
        cfg, ann, steps, d = G.gen_group_history(rng)
        cases.append(Case("groups:%s|%s|%s" % (d, ";".join(ann), ";".join(steps)), "groups", cfg, ann, steps))
    # disallowed PUs / NUMA nodes dropped at load (cpuset != complete_cpuset, nodeset != complete_nodeset)
    for i in range(90 if quick else 2500):
        cfg, ann, steps, d = G.gen_disallowed_history(rng)
        cases.append(Case("disallowed:%s|%s" % (d, ";".join(steps)), "disallowed", cfg, ann, steps))
    # generated trees: asymmetric, CPU-less NUMA nodes, memory-side caches, I/O, Misc
    for i in range(260 if quick else 6000):
        root, pus, numas = G.gen_tree(rng)
        extra = 0
        allowed = None
        flags = 0
        r = rng.random()
        if r < 0.15:
            extra = 1 << (max(pus) + 1 + rng.randrange(3))     # an offline CPU in the complete cpuset
        elif r < 0.3 and len(pus) > 1:
            flags = 1                                           # INCLUDE_DISALLOWED with a smaller allowed set
            k = rng.randint(1, len(pus) - 1)
            allowed = 0
            for b in rng.sample(pus, k):
                allowed |= 1 << b
        xml = store_xml(G.tree_to_xml(root, extra_complete=extra, allowed_cs=allowed, dont_merge_groups=rng.random() < 0.1))
        cfg = filters_for_restrict(rng) + ["flags %d" % flags, "src xml " + xml]
        steps = G.gen_steps(rng, pus, numas)
        cases.append(Case("tree:%s|%s|%s" % (os.path.basename(xml), ";".join(cfg[:-1]), ";".join(s for _, s in steps)), "tree",
                          cfg, G.misc_annotations(rng) if rng.random() < 0.3 else [], [s for _, s in steps], xml))
    # XML corpus of the repository
    xmls = TS.xml_corpus()
    for x in xmls:
        if os.path.getsize(x) > (400000 if quick else 5000000):
            continue
        pus, numas = xml_universe(x)
        for r in range(1 if quick else 10):
            cfg = filters_for_restrict(rng) + ["src xml " + x]
            steps = G.gen_steps(rng, pus, numas, nsteps=(2 if quick else None))
            cases.append(Case("xml:%s|%s|%s" % (os.path.basename(x), ";".join(cfg[:-1]), ";".join(s for _, s in steps)), "xml",
                              cfg, G.misc_annotations(rng) if rng.random() < 0.5 else [], [s for _, s in steps]))
    return cases


STEP_KEYS = ("rcspec", "spec", "attrs", "wf", "model", "check", "api")


def parse_output(txt):
    """-> dict idx -> {"load":..., "steps":[{...}], "other":[...]}"""
    res = {}
    cur = None
    step = None
    for line in txt.split("\n"):
        m = re.match(r"echo CASE (\d+)$", line)
        if m:
            cur = res.setdefault(int(m.group(1)), {"load": None, "steps": [], "other": [], "done": False})
            step = None
            continue
        if cur is None:
            continue
        if line.startswith("load "):
            cur["load"] = line
        elif line.startswith("init wf ") and step is None:
            cur["init"] = line
        elif line.startswith("check ") and step is None:
            cur["initcheck"] = line
        elif line.startswith("step "):
            step = {"step": line}
            cur["steps"].append(step)
        elif line == "destroy":
            cur["done"] = True
        elif step is not None and line.split(" ")[0] in STEP_KEYS:
            step[line.split(" ")[0]] = line
        else:
            cur["other"].append(line)
    return res


def run_script(exe, drv, script_text, timeout=600):
    env = {k: v for k, v in C.run_env().items() if k != "HWLOC_DEBUG_CHECK"}
    env["HWLOC_XML_VERBOSE"] = "0"
    rc, out, err = C.sh([exe], input=script_text.encode(), env=env, timeout=timeout)
    rc2, out2, err2 = C.sh([drv], input=out, timeout=timeout)
    return rc, rc2, out2.decode(errors="replace"), err.decode(errors="replace"), err2.decode(errors="replace")


def run_cases(cases, exe, drv, shard=12):
    results = {}

    def one(lo):
        part = cases[lo:lo + shard]
        lines = []
        for k, c in enumerate(part):
            lines.append("echo CASE %d" % (lo + k))
            lines += c.script()
        rc, rc2, out, err, err2 = run_script(exe, drv, "\n".join(lines) + "\n")
        return lo, rc, rc2, out, err, err2

    with cf.ThreadPoolExecutor(max_workers=C.NCPU) as ex:
        for lo, rc, rc2, out, err, err2 in ex.map(one, range(0, len(cases), shard)):
            r = parse_output(out)
            results.update(r)
            if rc != 0 or rc2 != 0:
                undone = [i for i in range(lo, min(lo + shard, len(cases))) if not results.get(i, {}).get("done")]
                first = undone[0] if undone else lo
                results.setdefault(first, {"load": None, "steps": [], "other": [], "done": False})
                results[first]["crash"] = "harness rc=%d driver rc=%d\n%s\n%s" % (rc, rc2, err[-3000:], err2[-1500:])
    return results


def step_problems(st):
    """-> (violations [(key, text)], correspondence [(key, text)])"""
    viol, corr = [], []
    for k in ("rcspec", "spec", "attrs", "wf"):
        v = st.get(k)
        if v is None:
            viol.append((k + ":missing", "no verdict for " + k))
        elif "VIOLATION" in v:
            clauses = sorted(set(re.findall(r"([a-zA-Z-]+)@", v))) or [k]
            viol.append(("%s:%s" % (k, ",".join(clauses)), v[:600]))
    # a level merge (hwloc_filter_levels_keep_structure) that appends the memory children of the removed
    # level to the other one without re-sorting them: reproduced by the model (model ok), property clauses hold,
    # only the ordering clauses of well-formedness fail
    merge_order = (st.get("model") == "model ok" and st.get("spec") == "spec ok" and viol
                   and all(k.startswith("wf:") and set(k[3:].split(",")) <= {"memory-children-order", "level-order"} for k, _ in viol))
    if merge_order:
        viol = [("merge-appends-memory-children-unordered:wf", viol[0][1])]
    # hwloc__reorder_children changed the children chain of an object but nothing was removed, so
    # topology->modified stayed 0 and hwloc_connect_children was skipped: reproduced by the model on the
    # chains (model ok), property clauses hold, only the derived pointer fields are stale
    m_n = re.search(r"nobj=(\d+)->(\d+)", st.get("step", ""))
    stale = (not merge_order and st.get("model") == "model ok" and st.get("spec") == "spec ok" and viol
             and m_n is not None and m_n.group(1) == m_n.group(2)
             and all(k.startswith("wf:") and set(k[3:].split(",")) <= {"children-array", "last-child", "first-child", "level-order", "prev-sibling",
                                                                      "next-sibling", "sibling-rank"} for k, _ in viol))
    if stale:
        viol = [("reorder-without-reconnect:wf", viol[0][1])]
    # KEEP_STRUCTURE merge of a Group whose complete sets are wider than its single child's (they name a disallowed PU or
    # node dropped at load): its memory children keep complete sets that are not inside their new parent's
    wider = (not merge_order and not stale and st.get("model") == "model ok" and st.get("spec") == "spec ok" and viol
             and all(k.startswith("wf:") and set(k[3:].split(",")) <= {"complete-cpuset-not-in-parent", "complete-nodeset-not-in-parent"} for k, _ in viol))
    if wider:
        viol = [("merge-memory-child-wider-complete-set:wf", viol[0][1])]
    if st.get("check") != "check ok" and stale:
        viol.append(("reorder-without-reconnect:topology_check", str(st.get("check"))))
    elif st.get("check") != "check ok":
        viol.append(("merge-appends-memory-children-unordered:topology_check" if merge_order else "topology_check-abort", str(st.get("check"))))
    if st.get("api") != "api ok":
        viol.append(("api-accessors-differ-from-dump", str(st.get("api"))))
    m = st.get("model")
    if m is None or not m.startswith("model ok"):
        corr.append(("model", str(m)[:600]))
    return viol, corr


def judge_case(res):
    """-> (violations, correspondence breaks, crash text or None)"""
    viol, corr = [], []
    if res is None:
        return [], [], "case did not run"
    for st in res["steps"]:
        v, c = step_problems(st)
        viol += v
        corr += c
        if v:
            break      # later steps start from a topology that is already broken
    return viol, corr, res.get("crash")


def shrink_case(case, exe, drv, want_key, kind):
    """Minimise annotations/steps while the same problem key is still reported."""
    def fails(lines):
        rc, rc2, out, err, err2 = run_script(exe, drv, "echo CASE 0\n" + "\n".join(lines) + "\n", timeout=120)
        r = parse_output(out).get(0)
        if kind == "crash":
            return rc != 0 or rc2 != 0
        v, c, crash = judge_case(r)
        return any(k == want_key for k, _ in (v if kind == "viol" else c))
    try:
        return G.shrink(case.script(), fails)
    except Exception:
        return case.script()


def check(run, replay=None):
    proof = C.prove("C08")
    exe = C.build_harness("hwv_restrict", ["hwv_restrict.c"], deps=DEPS)
    drv = C.extract("C08", "drv_c08.ml", prelude=PRELUDE)
    if replay:
        txt = open(replay).read().split("---\n", 1)[1]
        cases = [case_of_text(txt.split("\n--- output")[0].split("\n--- verdict")[0], "replay", "replay")]
    else:
        cases = make_cases(run)
    results = run_cases(cases, exe, drv)
    nshrunk = 0
    for i, c in enumerate(cases):
        r = results.get(i)
        viol, corr, crash = judge_case(r)
        loaded = r is not None and r["load"] is not None and "rc=0" in r["load"]
        nsteps = len(r["steps"]) if r else 0
        changed = 0
        for st in (r["steps"] if r else []):
            m = re.search(r"flags=(\d+) rc=(-?\d+) errno=(\S+) nobj=(\d+)->(\d+)", st["step"])
            if m:
                fl, rc = int(m.group(1)), int(m.group(2))
                run.bump("step:%s:%s" % ("bynodeset" if fl & 8 else "bycpuset", "ok" if rc == 0 else m.group(3)))
                run.bump("flags:%d" % fl if fl < 32 else "flags:unknown-bits")
                if rc == 0 and m.group(4) != m.group(5):
                    changed += 1
                    run.bump("step:objects-removed")
                if rc == 0 and st.get("spec") == "spec ok" and st.get("model") == "model ok":
                    run.cov["traces_validated_against_impl"] += 1
        transcript = c.name + "|" + "|".join(st["step"] for st in (r["steps"] if r else []))
        run.count(transcript, nontrivial=loaded and nsteps > 0, kind=c.kind + (":loaded" if loaded else ":not-loaded"),
                  sample={"case": c.name[:300], "steps": [st["step"] for st in (r["steps"] if r else [])][:4]})
        if loaded and not crash and (r.get("init") != "init wf ok" or r.get("initcheck") != "check ok"):
            # the topology is not well formed before any restrict step (load-time defect, C01's domain; the three known
            # causes are fixed in /repo: c78f232, 55dd5ed, 987c54a): reported, not skipped
            clauses = sorted(set(re.findall(r"([a-zA-Z-]+)@", str(r.get("init"))))) or ["topology_check"]
            run.violation("initial-topology-not-well-formed:%s%s" % ("disallowed:" if c.kind == "disallowed" else "", ",".join(clauses)),
                          "topology not well formed right after load (before any restrict): %s" % c.name[:200],
                          c.replay_text() + "\n--- verdict\n%s\n%s" % (r.get("init"), r.get("initcheck")))
            continue
        if crash:
            lines = shrink_case(c, exe, drv, None, "crash") if nshrunk < 6 else c.script()
            nshrunk += 1
            run.violation("crash:%s" % c.kind, "crash / sanitizer report / abort of the harness on %s" % c.name[:200],
                          c.replay_text(lines) + "\n--- output\n" + crash)
            continue
        if r is None:
            run.violation("not-run:" + c.kind, "case did not run (earlier crash in the same shard)", c.replay_text(), no_input=True)
            continue
        done = set()
        for key, text in viol:
            if key in done:
                continue
            done.add(key)
            lines = shrink_case(c, exe, drv, key, "viol") if nshrunk < 6 else c.script()
            nshrunk += 1
            run.violation(key, "restrict result violates the property (%s) on %s" % (key, c.name[:200]),
                          c.replay_text(lines) + "\n--- verdict\n" + text)
        if not viol:
            for key, text in corr[:1]:
                lines = shrink_case(c, exe, drv, key, "corr") if nshrunk < 6 else c.script()
                nshrunk += 1
                run.violation("correspondence:restrict-model:%s" % c.kind,
                              "the model restrict_topo disagrees with the implementation although the property holds on the result: %s" % c.name[:200],
                              c.replay_text(lines) + "\n--- verdict\n" + text, no_input=True)
    run.cov["rule"] = ("one case = (topology source, filters, annotations, sequence of restrict steps); evaluation = one case; "
                       "non-trivial = topology loaded and at least one step executed; distinct = distinct (case, step results)")
    run.assumptions += [
        "theorems are about the model restrict_topo on trees (Topo/Restrict.v); the C code is tied to it by differential execution on every generated step and, independently, judged by the executable statement restrict_spec_check on its own outputs",
        "names, infos, userdata and type attributes of survivors are compared on the raw dump text by the driver (ocaml/drv_c08.ml), not inside Coq",
    ]
    return run.finish(proof, trusted=["harness/hwv_restrict.c, harness/hwv_dump.h (dump through public fields/accessors), ocaml/hvdump.ml + ocaml/drv_c08.ml (dump parser, attribute comparison, dont_merge byte list)"])
