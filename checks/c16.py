"""C16: topology diffs (hwloc/diff.c, diff parts of topology-xml.c).

proof obligations (Props/Properties_C16.v) + correspondence of the extracted
model of diff.c with the real library on generated pairs / hand-built lists +
the property statement evaluated on what the C code produced."""
import glob
import os
import re

from hv import common as C
from gen import diff_gen as G

KEEP = re.compile(r"^(case|build|revbuild|D |apply|S P|SI P|rebuild|unapply|hand|S H|SI H|X)")


def split_cases(text):
    res, cur, order = {}, None, []
    for l in text.split("\n"):
        if l.startswith("case "):
            cur = l[5:].strip()
            res[cur] = []
            order.append(cur)
        elif cur is not None and l:
            res[cur].append(l)
    return res, order


# C16_PREFIX=rollback,name,memattr makes the model follow the code as it was
# before the corresponding fix commit (751402d, 566d2c2, ac5e4b1): only for
# replaying the old defects against an old tree
FIXED = os.environ.get("C16_PREFIX", "")


def run_script(exe, drv, script):
    rc, out, err = C.sh([exe], input=script.encode(), env=C.run_env(), timeout=600)
    rc2, out2, err2 = C.sh([drv] + (["--prefix=" + FIXED] if FIXED else []), input=out, timeout=600)
    return rc, out.decode(errors="replace"), err.decode(errors="replace"), rc2, out2.decode(errors="replace"), err2.decode(errors="replace")


def state(lines, tag, tmem=True):
    res = []
    for l in lines:
        if l.startswith("S %s " % tag):
            f = l.split(" ")[2:]
            if not tmem:
                f[4] = "*"
            res.append(" ".join(f))
        elif l.startswith("SI %s " % tag):
            res.append(l.split(" ", 2)[2])
    return res


def norm_dump(lines, tag, skeleton=False):
    """the dump of one topology reduced to what hwloc_topology_diff_build compares: the tree shape (nesting level and
    child list of every object) and every field but logical_index and total_memory; topology-level lines as they are"""
    out = []
    for l in lines:
        f = l.split(" ")
        if len(f) < 2 or f[1] != tag:
            continue
        if f[0] == "O":
            g = ["O"] + f[2:5] + f[6:16] + f[17:]
            if skeleton:
                # what a diff can carry is blanked: the value of a name (not whether it is set), info values, NUMA local memory
                ninf = int(f[17])
                g = ["O"] + f[2:5] + f[6:13] + ["-" if f[13] == "-" else "set", f[14]] + [f[17]] + [f[18 + 2 * k] for k in range(ninf)]
            out.append(" ".join(g))
        elif f[0] == "T":
            out.append(" ".join(["T"] + f[3:]))          # nb_levels follows from the tree
        elif f[0] == "TI" and skeleton:
            out.append("TI " + f[2])
        elif f[0] in ("TI", "TD", "TM", "TMT", "TK"):
            out.append(" ".join([f[0]] + f[2:]))
    return out


def sdump(lines, tag):
    """S lines of one topology: {(depth, idx): (name, lmem, [(info name, value)...])} in dump order"""
    res, order = {}, []
    for l in lines:
        f = l.split(" ")
        if f[0] == "S" and f[1] == tag:
            ninf = int(f[7])
            res[(f[2], f[3])] = (f[4], f[5], [(f[8 + 2 * k], f[9 + 2 * k]) for k in range(ninf)])
            order.append((f[2], f[3]))
    return res, order


def entries_match_dumps(clines, L):
    """every entry of a built list against the two dumps, without the model: it addresses (by depth and LOGICAL index)
    an object whose attribute is the entry's old value in A and its new value in B; and every object whose name, local
    memory or info value differs between the dumps has its entry.  Only when B has the objects of A (a dup with edits)."""
    sa, oa_ = sdump(clines, "A")
    sb, ob = sdump(clines, "B")
    if oa_ != ob:
        return None
    want = set()
    for k in oa_:
        a, b = sa[k], sb[k]
        if a[0] != b[0]:
            want.add((k, "name", "-", a[0], b[0]))
        if a[1] != b[1]:
            want.add((k, "size", "0", a[1], b[1]))
        if len(a[2]) == len(b[2]):
            for (n1, v1), (n2, v2) in zip(a[2], b[2]):
                if n1 == n2 and v1 != v2:
                    want.add((k, "info", n1, v1, v2))
    nbl = next((l.split()[2] for l in clines if l.startswith("T A ")), None)
    got = set()
    for l in L:
        f = l.split()
        if len(f) == 8 and f[0] == "D" and f[1] == "a" and f[2] != nbl:
            got.add(((f[2], f[3]), f[4], f[5], f[6], f[7]))
    if got != want:
        extra, missing = sorted(got - want), sorted(want - got)
        return "entries not matching the dumps: %s; differences of the dumps without entry: %s" % (extra[:2], missing[:2])
    return None


def kv(line):
    return dict(p.split("=", 1) for p in line.split()[1:] if "=" in p)


def steps(lines):
    """split a case transcript into its build step and hand steps"""
    st, cur = [], None
    for l in lines:
        if l == "dobuild":
            cur = {"kind": "build", "lines": []}
            st.append(cur)
        elif re.match(r"hand \d+ \d+$", l):
            cur = {"kind": "hand", "lines": [l]}
            st.append(cur)
        elif re.match(r"xmlhand \d+$", l):
            cur = {"kind": "xml", "lines": [l]}
            st.append(cur)
        elif cur is not None:
            cur["lines"].append(l)
    return st


REFNAME = 'ref<&"1>.xml'
EXPECT_DOCS = {name: (rc, n) for name, _doc, rc, n in G.xml_documents()}
by_script = {}     # case name -> script lines (filled by check)


def xml_ok(line, n, has_tc=False, want_ref=None):
    """the XML round-trip clause on one 'xml ...' line of the harness: export succeeds, the returned length is
    strlen+1, the loaded list and refname are the exported ones, the file variant holds the same bytes as the
    buffer (without the NUL) and loads to the same list"""
    if line is None:
        return "XML export/load did not return"
    f = kv(line)
    ref = G.hx(REFNAME) if want_ref is None else want_ref
    if has_tc:
        return None if (f.get("export") == "-1" and f.get("fexport") == "-1") else "a list holding a TOO_COMPLEX entry was exported (doc: only lists without one may be)"
    if f.get("export") != "0":
        return "export_xmlbuffer failed"
    bad = []
    if want_ref is not None and want_ref.startswith("@"):
        ref = f.get("refin")                    # generated string: the harness prints what it passed
    elif f.get("refin") != ref:
        bad.append("harness passed another refname than the case asks for")
    if f.get("len") != f.get("strlen"):
        bad.append("returned buflen %s but strlen(buffer)+1 = %s" % (f.get("len"), f.get("strlen")))
    if f.get("load") != "0" or f.get("same") != "1" or f.get("n") != str(n) or f.get("ref") != ref:
        bad.append("load_xmlbuffer of the exported buffer: rc=%s same=%s n=%s (want %d) refname %s" % (
            f.get("load"), f.get("same"), f.get("n"), n, "ok" if f.get("ref") == ref else "differs"))
    if f.get("fexport") != "0" or f.get("fsame") != "1":
        bad.append("export_xml to a file: rc=%s, %s bytes, same bytes as the buffer variant=%s" % (f.get("fexport"), f.get("fsize"), f.get("fsame")))
    if f.get("fload") != "0" or f.get("fsamelist") != "1" or f.get("fref") != ref:
        bad.append("load_xml of the exported file: rc=%s same=%s" % (f.get("fload"), f.get("fsamelist")))
    if "xapply" in f and f.get("load") == "0" and not (f["xapply"] == "0" and f.get("xrebuild") == "0/0" and f.get("xunapply") == "0" and f.get("xback") == "0/0"):
        bad.append("the reloaded list applied to a copy of A: apply=%s, diff against B=%s, reverse apply=%s, diff against A=%s" % (
            f["xapply"], f.get("xrebuild"), f.get("xunapply"), f.get("xback")))
    if f.get("fbad") != "-1" or f.get("lbad") != "-1":
        bad.append("export_xml to / load_xml from a path that cannot exist: rc=%s / %s" % (f.get("fbad"), f.get("lbad")))
    return "; ".join(bad) if bad else None


def case_refname(case):
    """refname token of the case script (None: the harness default); NULL is '-', the empty string is 's'"""
    r = next((l.split(" ", 1)[1].strip() for l in by_script.get(case, []) if l.startswith("refname ")), None)
    return r


def unsafe_for_libxml_import(case, dlines):
    """known finding xml-bytes-libxml-import: the list holds a NAME/INFO string that XML 1.0 / UTF-8 cannot carry and
    the libxml2 importer is in use"""
    xb = next((l.split() for l in by_script.get(case, []) if l.startswith("xmlbackend ")), None)
    imp = (xb[2] if len(xb) > 2 else xb[1]) if xb else "1"
    if imp != "1":
        return False
    r = case_refname(case)
    if r and r.startswith("s") and G.xml_unsafe(bytes.fromhex(r[1:])):
        return True
    for l in dlines:
        f = l.split()
        if len(f) >= 7 and f[0] == "D" and f[1] == "a" and f[4] in ("name", "info"):
            for tok in f[5:8]:
                if tok.startswith("s") and G.xml_unsafe(bytes.fromhex(tok[1:])):
                    return True
    return False


def evaluate(case, clines, mlines):
    """Spec evaluation on the C transcript (+ the model's hypothesis lines) and
    correspondence.  Returns a list of (key, what)."""
    viol = []
    stateA = state(clines, "A")
    stateB = state(clines, "B")
    cx = [l for l in clines if l.startswith("X ")]
    mx = [l for l in mlines if l.startswith("X ")]
    c_crashed = not cx or cx[-1] != "X ok"
    m_crashed = bool(mx) and mx[-1].startswith("X crash")
    csteps_all, msteps = steps(clines), steps(mlines)
    # argument checks of build/apply
    mis = [l for l in clines if l.startswith("misuse ")]
    if mis:
        want = ["misuse build-unloaded-first -1 EINVAL untouched=1", "misuse build-unloaded-second -1 EINVAL untouched=1",
                "misuse build-flags -1 EINVAL untouched=1", "misuse apply-unloaded -1 EINVAL", "misuse apply-adopted -1 EPERM"]
        if mis != want:
            bad = next((a for a, b in zip(mis + [""] * 5, want) if a != b), "?")
            viol.append(("argument-checks:" + case, "build/apply argument check: got '%s'" % bad))
        if state(clines, "M") != stateA:
            viol.append(("argument-checks:" + case, "a refused apply changed the topology"))
        mf = [l for l in mlines if l.startswith("mflags")]
        if mf != ["mflags -1 0"]:
            viol.append(("correspondence:" + case, "model of diff_build with flags != 0: %r" % mf))
    # arbitrary documents given to the importer
    xl = next((l for l in clines if l.startswith("xmlload ")), None)
    if xl is not None or any(l.startswith("xmlload") for l in by_script.get(case, [])):
        m = re.match(r"xmlload-i(\d)-(.*)$", case)
        exp = EXPECT_DOCS.get(m.group(2)) if m else None
        if xl is None:
            viol.append(("xml-import-crash:" + case, "load_xmlbuffer of a document did not return: %s" % (cx[-1] if cx else "?")))
        else:
            f = xl.split()
            rc, n = int(f[1]), int(f[2][2:])
            if exp and exp[0] is not None and (rc != exp[0] or (exp[1] is not None and n != exp[1])):
                viol.append(("xml-import:" + (m.group(2) if m else case), "diff importer (%s) on document '%s': rc=%d n=%d, expected rc=%d n=%s" % (
                    ("nolibxml", "libxml")[int(m.group(1))], m.group(2), rc, n, exp[0], exp[1])))
            if rc == 0 and not (exp and exp[1] is None):
                rl = next((l for l in clines if l.startswith("xmlreload ")), "")
                if rl != "xmlreload 0 same=1 refsame=1":
                    viol.append(("xml-roundtrip:" + case, "a loaded list does not survive export + load: '%s'" % rl))
    for xs in [c for c in csteps_all if c["kind"] == "xml"]:
        n = int(xs["lines"][0].split()[1])
        tc_in = any(l.startswith("D tc") for l in by_script.get(case, []))
        why = xml_ok(next((l for l in xs["lines"] if l.startswith("xml ")), None), n, tc_in, case_refname(case))
        if why and unsafe_for_libxml_import(case, by_script.get(case, [])) and "load=-1" in " ".join(xs["lines"]):
            viol.append(("xml-bytes-libxml-import", "list with a string XML 1.0/UTF-8 cannot carry (case %s): exported as is, the libxml2 importer rejects the document" % case))
        elif why:
            m = re.match(r"xml-e(\d)-i(\d)-", case)
            key = "xml-roundtrip:%s-export-%s-import" % (("nolibxml", "libxml")[int(m.group(1))], ("nolibxml", "libxml")[int(m.group(2))]) if m else "xml-roundtrip:" + case
            viol.append((key, "diff XML round trip of a %d-entry list (case %s): %s" % (n, case, why)))
    csteps = [c for c in csteps_all if c["kind"] != "xml"]
    hypA = kv(next((l for l in mlines if l.startswith("hyp A ")), "hyp"))
    hypB = kv(next((l for l in mlines if l.startswith("hyp B ")), "hyp"))
    # total_memory is compared only when it is the sum of the local memories on both sides
    tm = hypA.get("tmem_consistent") == "1" and hypB.get("tmem_consistent") == "1"
    # B may be any topology (even hand-edited); the level arrays matter for the one apply runs on
    wferr = [l for l in clines if l.startswith("E A ") and not l.endswith(" 0")]
    if wferr:
        viol.append(("levels-inconsistent:" + case, "level arrays / parent pointers disagree with the tree: %s" % wferr[0]))
    if any(l.startswith("editfail") or l.startswith("bad") or l.startswith("topo error") for l in clines):
        pass  # an edit that does not apply to this topology: the case still runs
    for i, cs in enumerate(csteps):
        ms = msteps[i] if i < len(msteps) else {"kind": cs["kind"], "lines": []}
        L = cs["lines"]
        last_step = (i == len(csteps) - 1)
        crashed_here = c_crashed and last_step
        if cs["kind"] == "build":
            hd = kv(next((l for l in ms["lines"] if l.startswith("hypd ")), "hypd"))
            eq = kv(next((l for l in ms["lines"] if l.startswith("eq ")), "eq"))
            b = next((l.split() for l in L if l.startswith("build ")), None)
            m_overread = any(l.startswith("X crash build-overread") for l in mlines)
            if b is None:
                if m_overread:
                    viol.append(("memattr-initiators-overread", "diff_build reads imtg2->initiators[k] for k >= its nr_initiators (diff.c:412-416): %s" % (cx[-1] if cx else "no status")))
                else:
                    viol.append(("crash-in-build:" + case, "diff_build did not return: %s" % (cx[-1] if cx else "?")))
                continue
            rc, n = int(b[1]), int(b[2])
            has_tc = any(l.startswith("D tc") for l in L)
            if (rc == 1) != has_tc or rc not in (0, 1):
                viol.append(("build-rc:" + case, "rc=%d but TOO_COMPLEX entry present=%s" % (rc, has_tc)))
            # independently of the model: "0 with a NULL diff" only for equal dumps, in both directions; inexpressible is symmetric
            same_dumps = norm_dump(clines, "A") == norm_dump(clines, "B")
            rb = next((l.split() for l in L if l.startswith("revbuild ")), None)
            if rc == 0 and n == 0 and not same_dumps:
                viol.append(("build-zero-dumps-differ:" + case, "diff_build(A,B) returns 0 with a NULL diff but the dumps of A and B differ in what it compares"))
            same_skel = norm_dump(clines, "A", True) == norm_dump(clines, "B", True)
            if rc == 0 and not same_skel:
                viol.append(("build-expressible-dumps-differ:" + case, "diff_build(A,B) returns 0 but the dumps differ in something a diff cannot carry"))
            if rb is not None and int(rb[1]) == 0 and not same_skel:
                viol.append(("build-expressible-dumps-differ:" + case, "diff_build(B,A) returns 0 but the dumps differ in something a diff cannot carry"))
            if rb is not None:
                rrc, rn = int(rb[1]), int(rb[2])
                if rrc == 0 and rn == 0 and not same_dumps:
                    viol.append(("build-zero-dumps-differ:" + case, "diff_build(B,A) returns 0 with a NULL diff but the dumps of A and B differ in what it compares"))
                if (rc == 1) != (rrc == 1) or (rrc == 1) != (rb[3] == "tc=1"):
                    viol.append(("build-asymmetric:" + case, "diff_build(A,B) returns %d and diff_build(B,A) returns %d (%s): whether a difference is expressible does not depend on the direction" % (rc, rrc, rb[3])))
                if same_dumps and hypA.get("no_hetero") != "0" and not (rrc == 0 and rn == 0):
                    viol.append(("build-zero:" + case, "equal dumps but diff_build(B,A) returns %d with %d entries" % (rrc, rn)))
            if eq:
                equal_all = eq["root"] == "1" and eq["top"] == "1" and eq["tinfos"] == "1" and eq["mattr"] == "1"
                express = eq["skel"] == "1" and eq["top"] == "1" and eq["tinfonames"] == "1" and eq["mattr"] == "1"
                hetero = hypA.get("no_hetero") == "0"
                if (rc == 0 and n == 0) != equal_all:
                    if hetero and equal_all:
                        viol.append(("hetero-distances-too-complex", "diff_build of identical topologies holding a heterogeneous distances matrix returns %d" % rc))
                    elif rc == 0 and n == 0 and eq["mattr"] == "0":
                        viol.append(("memattr-initiators-not-compared", "diff_build returns 0 with an empty diff although the memory attribute values differ"))
                    else:
                        viol.append(("build-zero:" + case, "rc=%d n=%d but equal=%s" % (rc, n, equal_all)))
                elif (rc == 1) != (not express):
                    if hetero and express:
                        viol.append(("hetero-distances-too-complex", "diff_build returns 1 for topologies that differ in nothing inexpressible (heterogeneous distances matrix)"))
                    elif rc == 0 and eq["mattr"] == "0":
                        viol.append(("memattr-initiators-not-compared", "diff_build returns 0 although the memory attribute values differ"))
                    else:
                        viol.append(("build-toocomplex:" + case, "rc=%d but expressible=%s" % (rc, express)))
            if rc == 0:
                bad = entries_match_dumps(clines, L)
                if bad:
                    viol.append(("build-entries:" + case, "diff_build returns 0 but " + bad))

                def classify(what, generic):
                    if hd.get("nonnull") == "0":
                        viol.append(("name-unset", "name set on one side only: diff_build returns 0 with a NULL old/new value; " + what))
                    elif hd.get("dupname_hit") == "1":
                        viol.append(("dup-info-name", "the built list holds an INFO entry on an object carrying that info name twice: " + what))
                    else:
                        viol.append((generic + ":" + case, what))
                ap = next((l for l in L if l.startswith("apply ")), None)
                if ap is None:
                    classify("apply of the built diff did not return (%s)" % (cx[-1] if cx else "?"), "apply-crash")
                    continue
                if ap != "apply 0" or state(L, "P1", tm) != state(clines, "B", tm):
                    classify("apply(A, build(A,B)) gives '%s' and a state %s B" % (ap, "equal to" if state(L, "P1", tm) == state(clines, "B", tm) else "different from"), "apply-build")
                rb = next((l for l in L if l.startswith("rebuild ")), None)
                if rb is not None and rb != "rebuild 0 0":
                    classify("diff_build(apply(A, build(A,B)), B) = '%s', not an empty diff" % rb, "apply-build")
                ua = next((l for l in L if l.startswith("unapply ")), None)
                if ua is None:
                    classify("reverse apply did not return", "reverse-crash")
                    continue
                if ap == "apply 0" and (ua != "unapply 0" or state(L, "P2") != stateA):
                    classify("apply REVERSE after apply gives '%s', state %s A" % (ua, "equal to" if state(L, "P2") == stateA else "different from"), "reverse")
                xl = next((l for l in L if l.startswith("xml ")), None)
                why = xml_ok(xl, n, False, case_refname(case))
                if xl is None:
                    classify("XML export/load of the diff did not return", "xml-crash")
                elif why and unsafe_for_libxml_import(case, [l for l in L if l.startswith("D a")]) and " load=-1 " in xl:
                    viol.append(("xml-bytes-libxml-import", "built diff with a string XML 1.0/UTF-8 cannot carry (case %s): exported as is, the libxml2 importer rejects the document" % case))
                elif why:
                    classify("diff XML round trip: " + why, "xml-roundtrip")
        else:
            hh = kv(next((l for l in ms["lines"] if l.startswith("hyph ")), "hyph"))
            flags = int(L[0].split()[1])
            res = next((l for l in L if re.match(r"hand -?\d+$", l)), None)
            if res is None:
                viol.append(("hand-crash:" + case, "apply of a hand-built list (non-NULL strings) did not return"))
                continue
            rc = int(res.split()[1])
            if rc < 0 and state(L, "H") != stateA:
                if hh.get("dupname_hit") == "1":
                    viol.append(("dup-info-name", "the list holds an INFO entry on an object carrying that info name twice: apply returns %d but undoing that entry patched the other same-named info" % rc))
                elif hh.get("slots_distinct") == "0":
                    # fixed in 751402d: only a regression of that fix comes out here
                    viol.append(("rollback-forward-order", "apply returns %d but the topology is not as before: the cancel loop undoes the applied entries first to last" % rc))
                else:
                    viol.append(("rollback:" + case, "apply returns %d but the topology is not as before the call" % rc))
            if flags & ~1 and rc != -1:
                viol.append(("apply-flags:" + case, "invalid flags %d accepted (rc=%d)" % (flags, rc)))
    # correspondence on everything the C side printed before a crash
    c = [l for l in clines if KEEP.match(l)]
    m = [l for l in mlines if KEEP.match(l)]
    if c_crashed:
        c = c[:-1] if c and c[-1].startswith("X") else c
        m2 = m[:len(c)]
        diff = next(((a, b) for a, b in zip(c, m2) if a != b), None)
        if diff is None and not m_crashed and not viol:
            viol.append(("crash:" + case, "the library crashed (%s) where the model does not" % (cx[-1] if cx else "?")))
    else:
        diff = next(((a, b) for a, b in zip(c, m) if a != b), None)
        if diff is None and len(c) != len(m):
            diff = (c[len(m)] if len(c) > len(m) else "<end>", m[len(c)] if len(m) > len(c) else "<end>")
    return viol, diff


def check(run, replay=None):
    # replay files of earlier runs (seeded trees, other tiers) must not be taken for findings of this run
    for f in glob.glob(os.path.join(C.REPLAY, "C16-*.case")):
        if not (replay and os.path.abspath(f) == os.path.abspath(replay)):
            try:
                os.unlink(f)
            except OSError:
                pass
    proof = C.prove("C16")
    exe = C.build_harness("hwv_diff", ["hwv_diff.c"])
    drv = C.extract("C16", "drv_c16.ml")
    rng = run.rng
    cases = []          # (name, lines)
    if replay:
        txt = open(replay).read()
        body = txt.split("---\n", 1)[-1]
        lines = [l for l in body.split("\n")]
        cur = None
        for l in lines:
            if l.startswith("case "):
                cur = [l]
            elif cur is not None:
                cur.append(l)
                if l == "end":
                    cases.append((cur[0][5:], cur))
                    cur = None
    else:
        for f in sorted(glob.glob(os.path.join(C.VERIF, "corpus", "c16", "*.case"))):
            cur = None
            for l in open(f).read().split("\n"):
                l = l.replace("@REPO@", C.REPO)
                if l.startswith("case "):
                    cur = [l]
                elif cur is not None and l:
                    cur.append(l)
                    if l == "end":
                        cases.append((cur[0][5:], cur))
                        cur = None
        # XML round trip across the exporter's internal buffer boundary, 2 export x 2 import backends
        rcp, outp, _, _, _, _ = run_script(exe, drv, "\n".join(G.xml_probe()) + "\n")
        base = None
        for l in outp.split("\n"):
            if l.startswith("xml export=0"):
                base = int(kv(l)["len"]) - 100
        for xc in G.xml_cases(rng, base, run.tier) + G.xmlload_cases() + G.bytes_cases() + G.refname_cases(base) + G.index_cases(rng):
            cases.append((xc[0][5:], xc))
        # child lists of different length / content at one place, all four kinds, both directions
        stopos = G.shape_topos(C.REPO)
        rcs, outs, _, _, _, _ = run_script(exe, drv, G.probe_script(stopos))
        for sc in G.shape_cases(rng, stopos, G.parse_tables(outs), run.tier) + G.filter_cases(C.REPO):
            cases.append((sc[0][5:], sc))
        topos = G.topo_lines(C.REPO, run.tier)
        rc, out, err, _, _, _ = run_script(exe, drv, G.probe_script(topos))
        tables = G.parse_tables(out)
        nbl = {}
        for l in out.split("\n"):
            if l.startswith("case "):
                cname = l[5:]
            elif l.startswith("T A "):
                nbl[cname] = int(l.split()[2])
        n = 260 if run.tier == "quick" else 6000
        for i in range(n):
            t = rng.randrange(len(topos))
            objs = tables.get("probe%d" % t)
            if not objs:
                continue
            if len(objs) > 60 and rng.random() < 0.7:
                continue
            kind = rng.choice(["pair", "pair", "hand", "both"])
            cases.append(("g%d" % i, G.gen_case(rng, "g%d" % i, topos[t], objs, nbl.get("probe%d" % t, 3), kind)))
    script = "\n".join("\n".join(ls) for _, ls in cases) + "\n"
    rc, out, err, rc2, mout, merr = run_script(exe, drv, script)
    if rc != 0:
        run.violation("harness-crash", "C harness failed rc=%d" % rc, err[-3000:], no_input=True)
    if rc2 != 0:
        run.violation("driver-crash", "model driver failed rc=%d: %s" % (rc2, merr[-500:]), merr[-3000:], no_input=True)
    cc, order = split_cases(out)
    mc, _ = split_cases(mout)
    by_name = dict(cases)
    by_script.clear()
    by_script.update(by_name)
    hyp_stats = {}
    first_of_key = {}
    for name in order:
        cl, ml = cc.get(name, []), mc.get(name, [])
        viol, diff = evaluate(name, cl, ml)
        res = [l for l in cl if KEEP.match(l)]
        nontriv = any(l.startswith("D ") for l in res)
        kind = "index" if name.startswith("index-") else "refname" if name.startswith("ref-") else "bytes" if name.startswith("bytes-") else "shape" if name.startswith(("shape-", "filt-")) else "xmlload" if any(l.startswith("xmlload") for l in cl) else "misuse" if any(l.startswith("misuse") for l in cl) else "xml" if any(l.startswith("xmlhand") for l in cl) else ("hand" if any(l.startswith("hand") for l in res) else "pair")
        run.count("\n".join(res), nontrivial=nontriv, sample={"case": by_name.get(name, [])[:12], "impl": res[:6]}, kind=kind)
        for l in ml:
            if l.startswith("hyp A") or l.startswith("hypd") or l.startswith("hyph"):
                for k, v in kv(l).items():
                    hyp_stats.setdefault(l.split()[0] + "." + k, [0, 0])[int(v == "1")] += 1
        for l in cl:
            if l.startswith("build "):
                run.bump("build_rc=" + l.split()[1])
            if re.match(r"hand -?\d+$", l):
                r = int(l.split()[1])
                run.bump("hand_rc=" + ("0" if r == 0 else "neg"))
                if r < 0:
                    run.bump("hand_fail_pos=%d" % -r)
        for key, what in viol:
            if key not in first_of_key:
                first_of_key[key] = (name, what)
        if diff is not None and not viol:
            run.violation("correspondence:" + name, "model and implementation differ: impl=%r model=%r" % diff,
                          "kind: correspondence\n" + "\n".join(by_name.get(name, [])) + "\nimpl: %s\nmodel: %s\n" % diff, no_input=True)
        elif diff is None:
            run.cov["traces_validated_against_impl"] += 1
    # shrink and report the first case of every violation key
    for key, (name, what) in first_of_key.items():
        lines = by_name.get(name)
        if lines is None:
            continue
        base = key.split(":")[0]

        def still(cand, base=base):
            s = "\n".join(cand) + "\n"
            r = run_script(exe, drv, s)
            c1, o1 = split_cases(r[1])
            m1, _ = split_cases(r[4])
            if not o1:
                return False
            v, _d = evaluate(o1[0], c1.get(o1[0], []), m1.get(o1[0], []))
            return any(k.split(":")[0] == base for k, _ in v)
        is_known = any(re.fullmatch(k["key"], key) for k in run.known)
        small = G.shrink(lines, still) if (len(first_of_key) <= 12 and not is_known) else lines
        r = run_script(exe, drv, "\n".join(small) + "\n")
        run.violation(key, what, "kind: input\n" + "\n".join(small) + "\n--- implementation\n" + r[1][-6000:] + "\n--- model\n" + r[4][-3000:] +
                      ("\n--- stderr\n" + r[2][-2500:] if r[2] else ""))
    run.cov["hypothesis_fractions"] = {k: {"false": v[0], "true": v[1]} for k, v in sorted(hyp_stats.items())}
    run.cov["cases"] = len(order)
    run.assumptions += [
        "malloc never fails inside diff.c (the err<0 paths are not modelled)",
        "the level arrays and parent pointers agree with the object tree (checked on every dump by the harness: E lines)",
        "hand-built lists carry non-NULL strings in INFO entries and in NAME entries (NULL there is the caller's error); NULL appears only in lists produced by hwloc_topology_diff_build",
        "the opaque components (sets, attribute bytes, distances, cpukinds) are rendered injectively by the harness",
    ]
    return run.finish(proof, trusted=["harness/hwv_diff.c edit operations and canonical dumps; gen/diff_gen.py; ocaml/drv_c16.ml parsing",
                                      "XML round trip of diffs is checked on the C side only (not modelled)"])
