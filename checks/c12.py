"""C12: hwloc_topology_dup yields an equivalent, fully independent topology.

Proof: Props/Properties_C12.v (generic heap model of the duplication, Topo/Heap.v, Dup.v).
Tie/search: harness/hwv_dup.c on the real library (ASan/UBSan/LSan):
  * dumps of original and copy: verified checker wf_check on both, identical text (gp_index, userdata presence);
  * observation (dump, XML export, distances, memattrs, cpukinds, infos, support) of the copy = the original's;
  * raw trees of both through private.h: the model's dup_tree(original) must equal the copy's tree (every field of
    every block), and the model's request sequence must equal the sizes logged by a tma passed to hwloc__topology_dup;
  * sharing pattern: no block of the copy is a block of the original; only the declared pointers are shared;
  * fields of the copy never written by the dup (two dups under allocators filling with different bytes);
  * differential histories: mutate/destroy one, the other's observation must not change; destroy in both orders."""
import os
import re
import concurrent.futures as cf

from hv import common as C
from gen import topo_sources as S
from gen import dup_gen as G

DEPS = ["hwv_dump.h", "hwv_load.h", "hwv_ptree.h"]
PRELUDE = ["hvnum.ml", "hvdump.ml"]
HARMLESS_UNINIT = {"topology.want_some_cpu_caches"}   # only read during discovery


def prebuild():
    C.build_harness("hwv_dup", ["hwv_dup.c"], deps=DEPS)
    C.extract("C12", "drv_c12.ml", prelude=PRELUDE)


def corpus_cases():
    res = []
    cdir = os.path.join(C.VERIF, "corpus", "c12")
    for n in sorted(os.listdir(cdir)) if os.path.isdir(cdir) else []:
        if not n.endswith(".case"):
            continue
        cfg, hist = [], []
        for l in open(os.path.join(cdir, n)):
            l = l.rstrip("\n").replace("{REPO}", C.REPO)
            if not l or l.startswith("#"):
                continue
            (cfg if l.startswith(("filter ", "flags ", "env ", "src ")) else hist).append(l)
        res.append(("corpus:" + n, cfg, hist, "corpus"))
    return res


def make_cases(run):
    rng = run.rng
    quick = run.tier == "quick"
    cases = corpus_cases()
    for name, cfg, hist in G.boundary_cases():
        cases.append((name + ":" + hist[-2][-1], cfg, hist, "boundary"))
    # XML carrying a <support> element for every support field, loaded with IMPORT_SUPPORT (not this system)
    for desc in ("pack:2 [numa(memory=1024)] core:2 pu:2", "pu:4"):
        for order in ("AB", "BA"):
            cases.append(("b:imported-support:%s:%s" % (desc, order), ["flags 8", "src synthsupport " + desc], ["pre info 0 0 a b", "dup", "mut B info 0 0 c d", "destroy " + order[0], "destroy " + order[1]], "boundary"))
    # level arrays: 15, 16, 17, 18, 32, 33 (and 34) normal levels, reached at load (XML of a chain of nested Groups) ...
    for g in (13, 14, 15, 16, 30, 31, 32):
        cases.append(("b:levels%d-at-load" % (g + 2), ["src synthchain %d" % g], ["pre info 0 0 a b", "dup", "mut B info 0 0 c d", "destroy B", "destroy A"], "boundary"))
    # ... or by Group insertions after load (each one adds a level), before the dup and on both sides after it
    for g0, extra in ((14, 1), (14, 2), (15, 1), (30, 1), (30, 2), (13, 1)):
        npu = g0 + extra + 2
        pre = ["pre gobj 1004 0 %d" % j for j in range(npu - 2, npu - 2 - g0, -1)]
        post = ["both gobj 1004 0 %d" % j for j in range(npu - 2 - g0, npu - 2 - g0 - extra, -1)]
        cases.append(("b:levels%d+%d-by-insertion" % (g0 + 2, extra), ["src synthetic pu:%d" % npu], pre + ["dup"] + post + ["dup", "destroy A", "destroy B"], "boundary"))
    for name, cfg, hist in G.empty_boundary_cases():
        cases.append((name, cfg, hist, "empty"))
    for i in range(60 if quick else 2500):
        cases.append(("empty%d" % i, ["src synthetic " + rng.choice(G.SYN[2:9])], G.gen_empty_history(rng), "empty"))
    for name, cfg, hist in G.twin_boundary_cases():
        cases.append((name, cfg, hist, "twin"))
    for i in range(60 if quick else 2500):
        cases.append(("twin%d" % i, ["src synthetic " + rng.choice(G.SYN[2:9])], G.gen_twin_history(rng), "twin"))
    nsyn = 150 if quick else 6000
    for i in range(nsyn):
        if rng.random() < 0.5:
            desc = rng.choice(G.SYN)
        else:
            desc = S.gen_synthetic(rng, max_pus=32)
        misc_ok = rng.random() < 0.5
        cfg = (["filter 19 0"] if misc_ok else []) + (["filter 13 0"] if rng.random() < 0.2 else [])
        if rng.random() < 0.35:
            cfg.append("flags %d" % rng.choice([1, 1, 1, 512, 8, 1 | 8, 128, 256]))
        cases.append(("syn%d:%s" % (i, desc), cfg + ["src synthetic " + desc], G.gen_history(rng, misc_ok), "synthetic"))
    xmls = S.xml_corpus()
    if quick:
        xmls = rng.sample(xmls, min(24, len(xmls)))
    for x in xmls:
        for r in range(1 if quick else 4):
            cfg = ["env HWLOC_LIBXML_IMPORT %d" % rng.randint(0, 1)]
            if rng.random() < 0.5:
                cfg.append("filter all 0")
            cases.append(("xml:%s#%d" % (os.path.basename(x), r), cfg + ["src xml " + x],
                          G.gen_history(rng, "filter all 0" in cfg, npre=rng.randint(0, 2), nmut=rng.randint(1, 3)), "xml"))
    return cases


def script_of(cfg, hist):
    return ["new"] + cfg + ["load"] + hist


def run_shard(exe, drv, part, lo):
    lines = []
    for i, (name, cfg, hist, kind) in enumerate(part):
        lines.append("echo CASE %d" % (lo + i))
        lines += script_of(cfg, hist)
    env = {k: v for k, v in C.run_env().items() if k != "HWLOC_DEBUG_CHECK"}
    rc, out, err = C.sh([exe], input=("\n".join(lines) + "\n").encode(), env=env, timeout=900)
    rc2, out2, err2 = C.sh([drv], input=out, timeout=900)
    return lo, rc, out2.decode(errors="replace"), err.decode(errors="replace"), rc2, err2.decode(errors="replace")


def run_cases(cases, exe, drv, shard=12):
    results = {}
    meta = {"classes": {}, "allowed": set()}
    with cf.ThreadPoolExecutor(max_workers=C.NCPU) as ex:
        todo = [(lo, min(lo + shard, len(cases))) for lo in range(0, len(cases), shard)]
        while todo:
          futs = [(ex.submit(run_shard, exe, drv, cases[lo:hi], lo), hi) for lo, hi in todo]
          todo = []
          for f, hi in futs:
            lo, rc, txt, err, rc2, err2 = f.result()
            cur = None
            for line in txt.split("\n"):
                m = re.match(r"echo CASE (\d+)$", line)
                if m:
                    cur = int(m.group(1))
                    results[cur] = {"lines": []}
                elif line.startswith("class "):
                    _, f_, c_ = line.split(" ")
                    meta["classes"][f_] = c_
                elif line.startswith("allowed "):
                    meta["allowed"].add(line.split(" ")[1])
                elif cur is not None:
                    results[cur]["lines"].append(line)
            if rc != 0 or rc2 != 0:
                last = max([i for i in results if lo <= i < hi], default=lo)
                results.setdefault(last, {"lines": []})
                results[last]["crash"] = "harness rc=%d driver rc=%d\n%s\n%s" % (rc, rc2, err[-4000:], err2[-1500:])
                results[last]["crash_rc"] = rc
                if last + 1 < hi:
                    todo.append((last + 1, hi))      # the cases after the one that died
    return results, meta


def crash_key(txt):
    """A key naming the failing site, not the input: sanitizer kind + first library frame."""
    m = re.search(r"runtime error: ([^\n]*)\n\s*#0 \S+ in (\w+)", txt)
    if m:
        return "ubsan:%s:%s" % (m.group(2), re.sub(r"[^a-z]+", "-", m.group(1).lower())[:40].strip("-"))
    m = re.search(r"ERROR: AddressSanitizer: ([\w-]+(?: [\w-]+)?)", txt)
    if m:
        fr = re.findall(r"#\d+ \S+ in (hwloc_\w+)", txt)
        return "asan:%s:%s" % (m.group(1).replace(" ", "-"), fr[0] if fr else "?")
    m = re.search(r": (\w+): Assertion `([^']*)' failed", txt)
    if m:
        return "abort:%s:%s" % (m.group(1), re.sub(r"[^A-Za-z0-9_]+", "-", m.group(2))[:50].strip("-"))
    if "LeakSanitizer" in txt:
        fr = re.findall(r"#\d+ \S+ in (hwloc_\w+)", txt)
        return "lsan:%s" % (fr[0] if fr else "?")
    if "TIMEOUT" in txt:
        return "timeout"
    return "crash"


def findings_of(r, meta):
    """List of (key, what, is_correspondence_only) for one executed case."""
    out = []
    lines = r["lines"]
    dumps = [l for l in lines if l.startswith("wf ")]
    # C12 is about the copy: a copy that is not well formed although the original is (an ill-formed original is C01's business)
    if len(dumps) >= 2 and dumps[0].startswith("wf ok") and not dumps[1].startswith("wf ok"):
        out.append(("wf:copy:%s" % ",".join(sorted(set(re.findall(r"([a-z-]+)@", dumps[1])))), "wf_check accepts the dump of the original and rejects the copy's: %s" % dumps[1][:300], False))
    shared_bad = []
    # a twin history: nothing was applied to one side only, and no call created an object
    # (object creation legitimately diverges: the copy's next_gp_index is ahead by nobj-1)
    hist_ = r.get("script", [])
    twin_ok = not any(h.startswith("mut ") for h in hist_) and not any(
        h.startswith("both ") and (h.split(" ")[1] in ("misc", "gobj") or (h.split(" ")[1] == "distadd" and int(h.split(" ")[5]) & 1)) for h in hist_)
    for l in lines:
        if l.startswith("dup rc=") and "rc=0" not in l:
            out.append(("dup-fails", "hwloc_topology_dup failed on a loaded topology: " + l, False))
        elif l.startswith("obscmp DIFF") and lines[lines.index(l) - 1].startswith(("uninit", "allocseq", "seq ", "share", "overlap", "firstq", "firstq0")):
            out.append(("dup-not-equal", "the copy does not report what the original reports: " + l[:400], False))
        elif l.startswith(("opcmp DIFF", "obscmp DIFF")) and twin_ok and lines[lines.index(l) - (1 if l.startswith("opcmp") else 2)].startswith("both "):
            # identical histories on the original and on the copy (no object created since the dup): they must stay identical
            step = [h for h in r.get("script", []) if h.startswith("both ")]
            nboth = sum(1 for x in lines[:lines.index(l)] if x.startswith("both "))
            opname = step[nboth - 1].split(" ")[1] if 0 < nboth <= len(step) else "?"
            out.append(("twin-diverges:" + opname, "the same call on the original and on the copy answers differently / leaves different observations after identical histories (%s): %s" % (step[nboth - 1] if 0 < nboth <= len(step) else "?", l[:500]), False))
        elif l.startswith("dupdup ") and " same" not in l:
            out.append(("dup-of-dup-not-equal", "a duplicate of the duplicate does not report what the original reports: " + l[:400], False))
        elif l.startswith("pubdup ") and " same" not in l:
            out.append(("public-dup-not-equal", "hwloc_topology_dup (duplicate + refresh of the copy) does not report what the original reports: " + l[:400], False))
        elif l.startswith(("firstq ", "firstq0 ")) and " same" not in l:
            out.append(("first-query-differs:" + l.split(" ")[1] + (":unrefreshed-duplicate" if l.startswith("firstq0") else ""), "an accessor used as the FIRST query on a fresh duplicate answers differently from the original: " + l[:500], False))
        elif l.startswith("nogpcmp DIFF") and not any(h.startswith("mut ") for h in r.get("script", [])):
            step = [h for h in r.get("script", []) if h.startswith("both ")]
            nboth = sum(1 for x in lines[:lines.index(l)] if x.startswith("both "))
            cur = step[nboth - 1] if 0 < nboth <= len(step) else "?"
            out.append(("twin-diverges:" + (cur.split(" ")[1] if cur != "?" else "?") + ":objects", "identical histories on the original and on the copy give different topologies even with gp_index left out (%s): %s" % (cur, l[:500]), False))
        elif l.startswith("frame DIFF"):
            prev = lines[lines.index(l) - 1]
            out.append(("frame:" + (prev.split(" ")[0] if prev else "?"), "modifying/destroying one topology changed what the other reports (%s): %s" % (prev, l[:400]), False))
        elif l.startswith("share "):
            m = re.match(r"share (\S+) copied=(\d+) shared=(\d+) dropped=(\d+) new=(\d+) null=(\d+) mismatch=(\d+)", l)
            if not m:
                if "crash" not in r:
                    out.append(("correspondence:share-line", "unparsable: " + l, True))
                continue
            fld, cop, sh, dr, nw, nu, mm = m.group(1), *map(int, m.groups()[1:])
            if mm:
                out.append(("share-shape:" + fld, "original and copy do not have the same block structure at " + fld, False))
            if sh and fld not in meta["allowed"]:
                shared_bad.append(fld)
            decl = meta["classes"].get(fld)
            if decl == "dropped" and (sh or cop):
                out.append(("correspondence:class:" + fld, "model declares %s dropped by dup, implementation: %s" % (fld, l), True))
            if decl is None and (sh or dr) and fld not in meta["allowed"]:
                out.append(("correspondence:class:" + fld, "model declares %s allocated-and-copied, implementation: %s" % (fld, l), True))
            if decl == "shared" and cop:
                out.append(("correspondence:class:" + fld, "model declares %s shared, implementation copies it: %s" % (fld, l), True))
        elif l.startswith("overlap "):
            out.append(("overlap:" + l.split(" ")[2], "a block of the copy is a block of the original: " + l, False))
        elif l.startswith("share-shape-mismatch"):
            out.append(("share-shape", l, False))
        elif l.startswith("tree DIFF"):
            out.append(("correspondence:tree:" + re.sub(r"[^a-z0-9=]", "", l.split("model=")[1].split(" ")[0].split(":")[0])[:40], "model dup_tree(original) differs from the copy's raw tree: " + l[:300], True))
        elif l.startswith(("modelwf BAD", "modelview BAD", "tree nosource", "seq nomodel")):
            out.append(("correspondence:view", "the raw tree printed by the harness does not have the shape the model expects: " + l, True))
        elif l.startswith("seq DIFF"):
            out.append(("correspondence:allocseq", "model request sequence differs from the sizes logged from hwloc__topology_dup: " + l, True))
        elif l.startswith("bitmap-layout-mismatch"):
            out.append(("correspondence:bitmap-layout", "struct hwloc_bitmap_s no longer has the layout the harness assumes", True))
    un = sorted(l.split(" ")[1] for l in lines if l.startswith("uninit ") and l.split(" ")[1] not in HARMLESS_UNINIT)
    if un:
        grp = sorted(set(re.sub(r"_(verbose|nbaccuracies|accuracies|next_subkind)$", "", u) for u in un))
        out.append(("uninit:" + ",".join(grp), "hwloc_topology_dup leaves fields of the copy uninitialised although later calls read them: " + " ".join(un), False))
    for fld in sorted(set(shared_bad)):
        out.append(("shared:" + fld, "original and copy share mutable storage through " + fld + " (freed by both destroys)", False))
    if "crash" in r:
        key = crash_key(r["crash"])
        out.append((key, "crash / sanitizer report (exit %s):\n%s" % (r.get("crash_rc"), r["crash"][-2500:]), False))
    return out


def shrink(exe, drv, cfg, hist, key, meta, budget=40):
    """Delta-debugging over the history lines (dup and the destroys are kept)."""
    cur = list(hist)
    i = 0
    while i < len(cur) and budget > 0:
        if cur[i] == "dup":
            i += 1
            continue
        cand = cur[:i] + cur[i + 1:]
        budget -= 1
        res, _ = run_cases([("shrink", cfg, cand, "shrink")], exe, drv)
        r = res.get(0)
        if r is not None:
            r["script"] = cand
            if any(k == key for k, _, _ in findings_of(r, meta)):
                cur = cand
                continue
        i += 1
    return cur


def check(run, replay=None):
    proof = C.prove("C12")
    exe = C.build_harness("hwv_dup", ["hwv_dup.c"], deps=DEPS)
    drv = C.extract("C12", "drv_c12.ml", prelude=PRELUDE)
    if replay:
        txt = open(replay).read().split("---\n", 1)[1].split("\n--- ")[0]
        ls = [l for l in txt.split("\n") if l and l not in ("new", "load")]
        cfg = [l for l in ls if l.startswith(("filter ", "flags ", "env ", "src "))]
        cases = [("replay", cfg, [l for l in ls if l not in cfg], "replay")]
    else:
        cases = make_cases(run)
    results, meta = run_cases(cases, exe, drv)
    drift = {}
    reported = set()
    for i, (name, cfg, hist, kind) in enumerate(cases):
        r = results.get(i)
        script = "\n".join(script_of(cfg, hist))
        if r is None:
            run.violation("not-run:" + kind, "case did not run (earlier crash in the same shard)", script, no_input=True)
            continue
        r["script"] = hist
        ok_dup = any(l.startswith("dup rc=0") for l in r["lines"])
        nmut = sum(1 for l in hist if l.startswith(("mut ", "both ", "destroy ")))
        run.count(name + "|" + "|".join(l for l in r["lines"] if l.startswith(("tree ", "seq ", "frame ", "obscmp ", "mut ", "both "))), nontrivial=ok_dup,
                  sample={"case": name, "history": hist[:6], "verdicts": [l[:80] for l in r["lines"] if l.startswith(("tree ", "seq ", "frame ", "obscmp "))][:6]},
                  kind=kind + (":dup" if ok_dup else ":nodup"))
        run.bump("history-steps", nmut)
        for l in r["lines"]:
            if l.startswith("mut ") or l.startswith("pre "):
                op = (hist[0].split(" ") + ["?"])[0]
            if l.startswith("obscmp DIFF") and r["lines"][r["lines"].index(l) - 1].startswith("both "):
                drift["both-history-diverges(next_gp_index)"] = drift.get("both-history-diverges(next_gp_index)", 0) + 1
        fs = findings_of(r, meta)
        if ok_dup and not fs:
            run.cov["traces_validated_against_impl"] += 1
        spec_broken = any(not corr for _, _, corr in fs)
        for key, what, corr in fs:
            if key in reported:
                continue
            reported.add(key)
            h2 = hist
            if not corr and not replay and kind != "corpus":
                h2 = shrink(exe, drv, cfg, hist, key, meta)
            run.violation(key, what + "   [case %s]" % name, "\n".join(script_of(cfg, h2)) + "\n--- output\n" + "\n".join(l[:400] for l in r["lines"] if not l.startswith(("share ", "class ", "allowed ")))[:6000],
                          no_input=corr and not spec_broken)
    for op in ("robj", "misc", "gobj", "distadd", "disthet", "distrm", "distrmdepth", "distfail", "disthandle", "mreg", "mset", "mseto", "mseti", "kobj", "kinfo", "kinfoclr", "subtype", "allowobj", "allownode", "allow", "info", "infoclr", "tinfo", "tinfoclr", "refresh", "ud", "udclr", "restrict"):
        n = sum(1 for (_, _, hist, _) in cases for l in hist if (" " + op + " ") in (" " + l + " "))
        if n:
            run.bump("op:" + op, n)
    run.cov["drift"] = drift
    run.cov["rule"] = ("one case = source x filters/flags x pre-dup history x post-dup history on either copy x destroy order; "
                       "non-trivial = dup succeeded; distinct = distinct (case, verdict lines)")
    run.assumptions += [
        "internal links (parent/sibling/cousin/children[]/level arrays) are object indexes in the model; that they designate the right objects of the copy is decided on the C side: identical canonical dumps (pointer fields as dump-local ids), wf_check on both dumps, raw-tree equality (a link to a foreign object prints as an impossible id)",
        "leak-freedom and absence of invalid accesses at destroy are LeakSanitizer/AddressSanitizer verdicts on the executed histories, not theorems",
        "the order of block stores is not modelled (all blocks of the copy are fresh and distinct, so the final heap does not depend on it); the order of allocation requests is (c_sizes, compared with the logged sequence)"]
    return run.finish(proof, trusted=["harness/hwv_ptree.h (walk of the private structures; replica of struct hwloc_bitmap_s validated at start-up through hwloc_bitmap_tma_dup)",
                                      "harness/hwv_dump.h, ocaml/hvdump.ml, ocaml/drv_c12.ml (parsers)"])
