"""C14: memory attributes (hwloc/memattrs.c).

Tie + search side: cases (corpus first, then generated streams) are run through
harness/hwv_memattrs.c (the real code, ASan+UBSan) and through the extracted
Coq model (ocaml/drv_c14.ml); the R lines are diffed per case and the
reference spec of gen/memattrs_gen.py (independent of the model) is evaluated
on the C outputs.  Crashes / sanitizer reports are violations with the case as
replay; failing cases are shrunk by delta debugging over the op lines."""
import glob
import os
import time
from collections import Counter

from hv import common as C
from gen import memattrs_gen as G

NCASES = {"quick": 600, "thorough": 6000}
GEN_BUDGET_S = {"quick": 30, "thorough": 600}
MAX_SHRINKS = 8
MAX_PER_CLASS = 3     # distinct (stream/topology) keys listed per failure class
STREAMS = ["clean"] * 11 + ["overlap"] * 3 + ["outside"] * 2 + ["malformed"] * 2 + ["internal"] * 2 + ["hetero"] * 3 + ["tiers"] * 3 + ["allow"] * 3 + ["nomem"] * 3 + ["names"] * 3


class Ev:
    """evaluation of one executed case"""

    def __init__(self, case, out, crash, types):
        self.case, self.out, self.crash, self.types = case, out, crash, types
        self.trans = G.Trans(out)
        self.findings, self.ref = G.spec_eval(case, self.trans, types)
        self.mscript, self.idx = G.model_script(case, self.trans)
        self.mlines = None
        self.diffs = []

    def desc(self):
        return "%s/%s" % (self.case.meta.get("stream", "corpus"), self.case.meta.get("topo", self.case.name).split("+")[0])

    def crash_key(self):
        if not self.crash:
            return None
        n = len(self.trans.results)
        op = self.case.ops[n] if n < len(self.case.ops) else "end"
        if self.ref.doomed:
            return "crash:dup-empty-targets-double-free"
        if n < len(self.case.ops) and self.trans.start_table() is not None:
            e = self.ref.expect(op)
            if e.ub == "uninit":
                return G.UNINIT_KEY
        return "crash:%s:%s" % (self.crash["kind"], op.split(" ")[0])

    def diff(self, mlines):
        self.mlines, self.diffs = mlines, []
        if self.crash:
            return
        res = self.trans.results
        for j, i in enumerate(self.idx):
            op = self.case.ops[i].split(" ")[0]
            if j >= len(mlines):
                self.diffs.append((i, op, res[i][0], "<model printed no line>"))
                break
            m = mlines[j]
            if " rc=UB " in m:
                if op == "dup":
                    return      # the C side has undefined behaviour from here on
                continue
            if res[i][0] != m:
                self.diffs.append((i, op, res[i][0], m))
        if len(mlines) > len(self.idx):
            self.diffs.append((len(self.case.ops), "extra", "<none>", mlines[len(self.idx)]))

    def replay_text(self, key, what):
        t = ["# kind: " + key, "# " + what.replace("\n", " ")[:600]] + self.case.lines()
        t += ["# ---- C transcript"] + ["# " + l for l in self.out if not l.startswith("T ")]
        if self.crash:
            t += ["# ---- C harness died: %s rc=%s" % (self.crash["kind"], self.crash["rc"])]
            t += ["# " + l for l in self.crash["stderr"].split("\n")[-40:]]
        if self.mlines is not None:
            t += ["# ---- model transcript"] + ["# " + l for l in self.mlines]
        return "\n".join(t) + "\n"


class Ctx:
    def __init__(self, run, exe, drv):
        self.run, self.exe, self.drv, self.env = run, exe, drv, C.run_env(HWV_REPO=C.REPO)
        self.types = dict(G.DEFAULT_TYPES)
        self.stats = Counter()
        self.shrinks = 0

    # -- execution of finished scripts (corpus, replay, shrinking)
    def run_scripts(self, cases, with_model=True):
        types, per, crashes = G.run_batch(self.exe, cases, self.env)
        self.types.update(types)
        bycase = {c["case"]: c for c in crashes if c["case"] is not None}
        evs = [Ev(c, per.get(c.name, []), bycase.get(c.name), self.types) for c in cases]
        for c in crashes:
            if c["case"] is None:
                bad = G.attribute_exit_failure(self.exe, cases, self.env, c["kind"]) if len(cases) > 1 else cases[0]
                for e in evs:
                    if bad is not None and e.case.name == bad.name and not e.crash:
                        e.crash = dict(c, atexit=True)
        if with_model:
            self.model(evs)
        return evs

    def model(self, evs):
        if not self.drv:
            return
        todo = [e for e in evs if not e.crash and e.trans.start_table() is not None]
        per, died = G.run_model(self.drv, [(e.case.name, e.mscript) for e in todo])
        for e in todo:
            e.diff(per.get(e.case.name, []))
            if e.case.name in died:
                e.diffs.append((-1, "model-driver-died", "", ""))

    # -- failure classes of an evaluated case: {key: (what, no_input)}
    def failures(self, e):
        f = {}
        ck = e.crash_key()
        if ck:
            f[ck] = ("C harness died (%s, rc=%s) in case %s: %s" % (e.crash["kind"], e.crash["rc"], e.desc(),
                                                                    e.crash["stderr"].strip().split("\n")[-1][:200]), False)
        flagged = set()
        for kind, i, msg in e.findings:
            flagged.add(i)
            if kind.startswith("ub:uninit"):
                key = G.UNINIT_KEY
            else:
                key = "spec:%s:%s" % (kind, e.desc())
            f.setdefault(key, (msg, False))
        for i, op, c, m in e.diffs:
            if i in flagged:
                continue
            f.setdefault("correspondence:" + op, ("model and implementation differ in case %s on op %d (%s): impl=%r model=%r" % (
                e.desc(), i, e.case.ops[i] if 0 <= i < len(e.case.ops) else op, c, m), True))
        if not e.crash and not e.trans.ended and e.trans.start_table() is not None:
            f.setdefault("crash:truncated-output", ("transcript of case %s has no E line" % e.desc(), False))
        return f

    @staticmethod
    def fclass(key):
        """what has to persist while shrinking"""
        return key.rsplit(":", 1)[0] if key.startswith("spec:") else key

    def shrink(self, e, key):
        if self.shrinks >= MAX_SHRINKS or len(e.case.ops) < 2:
            return e
        self.shrinks += 1
        cls, t_end = self.fclass(key), time.time() + 20
        best = [e]

        def test(ops):
            if time.time() > t_end:
                return False
            c = G.Case(e.case.name, e.case.header, ops, e.case.meta)
            ev = self.run_scripts([c], with_model=key.startswith("correspondence:"))[0]
            ok = any(self.fclass(k) == cls for k in self.failures(ev))
            if ok:
                best[0] = ev
            return ok
        G.ddmin(e.case.ops, test, budget=100)
        return best[0]

    def report(self, evs):
        run = self.run
        for e in evs:
            fs = self.failures(e)
            for key, (what, no_input) in fs.items():
                if any(v["key"] == key for v in run.violations):
                    continue
                if sum(1 for v in run.violations if self.fclass(v["key"]) == self.fclass(key)) >= MAX_PER_CLASS:
                    run.cov["violations_not_listed_same_class"] = run.cov.get("violations_not_listed_same_class", 0) + 1
                    continue
                known = any(__import__("re").fullmatch(k["key"], key) for k in run.known)
                ee = e if known else self.shrink(e, key)
                w = self.failures(ee).get(key, (what, no_input))[0] if ee is not e else what
                run.violation(key, w, ee.replay_text(key, w), no_input=no_input)

    # -- coverage
    def account(self, e):
        run, ref = self.run, e.ref
        st = e.case.meta.get("stream", "corpus")
        run.bump("stream:" + st)
        run.bump("topo:" + e.case.meta.get("topo", "corpus").split("+")[0])
        for x in e.case.meta.get("topo", "").split("+")[1:]:
            run.bump("topo+" + x)
        cls = [x for x in ("overlap", "outside", "internal", "ub") if x in ref.flags]
        run.bump("case:" + ("+".join(cls) if cls else "clean"))
        self.stats.update(ref.stats)
        nm = 0
        for i, op in enumerate(e.case.ops):
            if i >= len(e.trans.results):
                break
            r = e.trans.results[i][0]
            w = op.split(" ")[0]
            run.count(op + "|" + r, nontrivial=" rc=0 " in r, kind="op:" + w,
                      sample={"case": e.case.name, "op": op, "impl": r} if (i == 3 and w in ("get", "bestt", "targets")) else None)
        if e.mlines is not None and not e.diffs:
            nm = len(e.idx)
        run.cov["traces_validated_against_impl"] += nm


def load_corpus():
    cases = []
    for p in sorted(glob.glob(os.path.join(C.VERIF, "corpus", "c14", "*.case"))):
        for c in G.parse_cases(open(p).read()):
            c.meta.setdefault("stream", "corpus")
            c.meta.setdefault("topo", os.path.basename(p)[:-5])
            cases.append(c)
    return cases


def check(run, replay=None):
    proof = C.prove("C14")
    drv = None
    try:
        drv = C.extract("C14", "drv_c14.ml")
        run.cov["model_driver"] = "present"
    except Exception as ex:   # the model does not build: nothing can be compared
        run.cov["model_driver"] = "broken"
        run.violation("correspondence:model-driver-build", "the extracted model / driver does not build: %s" % str(ex)[-1500:],
                      "kind: correspondence\n%s\n" % str(ex)[-4000:], no_input=True)
    exe = C.build_harness("hwv_memattrs", ["hwv_memattrs.c"])
    ctx = Ctx(run, exe, drv)

    if replay:
        txt = open(replay).read()
        if "\n---\n" in txt:
            txt = txt.split("\n---\n", 1)[1]
        evs = ctx.run_scripts(G.parse_cases(txt))
        for e in evs:
            ctx.account(e)
        ctx.shrinks = MAX_SHRINKS      # a replay is reported as is
        ctx.report(evs)
        run.cov["replayed_cases"] = len(evs)
        return finish(run, ctx, proof)

    # 1. corpus
    evs = ctx.run_scripts(load_corpus())
    run.cov["corpus_cases"] = len(evs)

    # 2. generated streams (interactive: the generator needs gp indexes and post-restrict tables)
    n = NCASES[run.tier]
    rng = run.rng
    plan = [("g%d" % i, "clean" if i == 0 else rng.choice(STREAMS)) for i in range(n)]
    plan += [("u%d" % i, "uninit") for i in range(3)] + [("d%d" % i, "dupfree") for i in range(2)]
    t0 = time.time()
    types, runs, exit_failures = G.generate(rng, exe, ctx.env, plan, deadline=t0 + GEN_BUDGET_S[run.tier])
    ctx.types.update(types)
    run.cov["generated_cases"] = len(runs)
    run.cov["generation_wall_s"] = round(time.time() - t0, 2)
    if len(runs) < len(plan):
        run.cov["generation_cut_by_budget"] = len(plan) - len(runs)
    gen_evs = [Ev(r["case"], r["out"], r["crash"], ctx.types) for r in runs]
    for ef in exit_failures:     # reported at process exit only (leaks): find the case
        bad = G.attribute_exit_failure(exe, ef["cases"], ctx.env, ef["kind"]) if len(ef["cases"]) > 1 else (ef["cases"] or [None])[0]
        for e in gen_evs:
            if bad is not None and e.case.name == bad.name and not e.crash:
                e.crash = {"rc": ef["rc"], "kind": ef["kind"], "stderr": ef["stderr"], "atexit": True}
    t1 = time.time()
    ctx.model(gen_evs)
    run.cov["model_wall_s"] = round(time.time() - t1, 2)
    evs += gen_evs

    # 3. accounting and verdicts
    benign = 0
    for e in evs:
        ctx.account(e)
        if e.case.meta.get("stream") in ("uninit", "dupfree") and not ctx.failures(e):
            benign += 1
    run.cov["regression_stream_cases_clean"] = benign   # streams uninit/dupfree: fixed defects c37319b, 4d6acad
    ctx.report(evs)
    return finish(run, ctx, proof)


def finish(run, ctx, proof):
    st = ctx.stats
    run.cov["c14_stats"] = dict(sorted(st.items()))
    run.cov["gets_hitting_a_stored_value"] = st.get("get_hit", 0)
    run.cov["best_queries_with_ties"] = st.get("bestt_ties", 0) + st.get("besti_ties", 0)
    run.cov["entries_vanished_at_restrict"] = st.get("vanished_keys", 0)
    run.cov["targets_vanished_at_restrict"] = st.get("vanished_targets", 0)
    run.assumptions.append("hist_ok: cpuset initiators given to set_value are included in the root cpuset (otherwise memattr_outside_root_refuted applies); "
                           "stored cpuset initiators pairwise disjoint for the 'included query' clause (otherwise memattr_get_last_set_overlap_refuted); "
                           "cases violating either are generated too (streams overlap/outside) and compared model-vs-C only")
    run.cov["spec_checked_results"] = st.get("checked", 0)
    run.cov["results_left_to_correspondence_only"] = st.get("unchecked_results", 0)
    for k, v in st.items():
        if k.startswith("err_"):
            run.bump("err:" + k[4:], v)
    trusted = ["harness/hwv_memattrs.c (prints the public API results; sets parsed/printed bit by bit)",
               "gen/memattrs_gen.py reference table (section-3 spec, independent of the Coq model)",
               "model abstractions (Attr/Memattrs.v): topology = root cpuset + flat object list (type, gp_index, os_index, cpuset, local memory, subtype) "
               "taken from the harness after load/restrict/dup/xml (what restrict removes is C08's subject, the new topology is an input of the model); "
               "bitmaps are BSet values (C03); allocation failures not modelled; cached object pointers represented by gp_index plus an 'initialised' bit",
               "theorems quantify over histories of the public API + restrict + dup + XML round trips + hwloc_internal_memattr_set_value by the fields of an existing object, meeting hist_ok_x "
               "(objects belong to the topology, set_value cpusets inside the root cpuset); preservation of stored VALUES by the XML replay and internal set_value addressed by os_index only "
               "are modelled and compared with the C code on every run but not covered by a theorem",
               "ocaml/drv_c14.ml (script parsing, bignum <-> Coq N conversion, printing)"]
    if proof is None:
        return run.finish(None, level="proof", extra_cov={"obligations": 0, "discharged": 0, "checker_cmd": "n/a",
                                                           "trusted_base": trusted, "theorems": []})
    return run.finish(proof, trusted=trusted)
