"""C05: XML export followed by import reproduces the topology (and is a fixpoint).

Tie/search: harness/hwv_xmlrt.c loads a topology with the real library
(ASan/UBSan), annotates it, exports it to XML, reloads the XML with the same
flags and every type kept, dumps both, and exports the reloaded topology again.
One harness process per XML backend pairing (the backend choice is a
per-process static).  This file compares, per case:
  * the dump of the reloaded topology with the dump of the original on every
    field the property lists (strings after the documented export filter),
  * distances / memattrs / cpukinds / topology infos / support listings,
  * the userdata import transcript against the export transcript,
  * second export == first export (bytes),
  * the reloaded dumps across backend pairings,
  * v2: tree and sets only,
  * the nolibxml export bytes against the extracted Coq model (Text/XmlExport.v)."""
import concurrent.futures as cf
import os
import re
import tempfile
import shutil

from hv import common as C
from gen import topo_sources as S
from gen import xmlrt_gen as G

DEPS = ["hwv_dump.h", "hwv_load.h"]
PRELUDE = ["hvnum.ml"]
PAIRINGS = [("0", "0"), ("0", "1"), ("1", "0"), ("1", "1")]      # (HWLOC_LIBXML_EXPORT, HWLOC_LIBXML_IMPORT)


def prebuild():
    C.build_harness("hwv_xmlrt", ["hwv_xmlrt.c"], deps=DEPS)
    C.extract("C05", "drv_c05.ml", prelude=PRELUDE)


# --------------------------------------------------------------------------
# cases
# --------------------------------------------------------------------------

class Case:
    def __init__(self, name, kind, cfg, anns, classes=(), expect=None):
        self.name, self.kind, self.cfg, self.anns, self.classes = name, kind, list(cfg), list(anns), set(classes)
        self.expect = expect      # path of a hand-written v3 XML file the nolibxml re-export must reproduce byte for byte

    def script(self, mode, ver, tmpdir, idx):
        # mode: buffer | file | stdio, optionally "+nd" (reload with HWLOC_XML_USERDATA_NOT_DECODED)
        base, _, opt = mode.partition("+")
        m = base if base == "buffer" else "%s:%s/x%d.xml" % (base, tmpdir, idx)
        post = [a.replace("{TMP}", "%s/g%d.xml" % (tmpdir, idx)) for a in self.anns]
        if opt == "dirty":
            opt = "dirty:%s/o%d.xml" % (tmpdir, idx)
        return "\n".join(["case %s" % self.name.replace("\n", " ")] + self.cfg + ["load"] + post + [("rt %s %s %s" % (m, ver, opt)).rstrip(), "end"]) + "\n"


def corpus_cases(scratch=None):
    out = []
    d = os.path.join(C.VERIF, "corpus", "c05")
    for n in sorted(os.listdir(d)) if os.path.isdir(d) else []:
        if not n.endswith(".case"):
            continue
        cfg, anns, expect = [], [], None
        for l in open(os.path.join(d, n)):
            l = l.rstrip("\n")
            if not l or l.startswith("#"):
                continue
            l = l.replace("{REPO}", C.REPO).replace("{CORPUS}", d)
            m = re.search(r"\{SNAP:([^}]+)\}", l)
            if m:
                if scratch is None:
                    continue
                l = l.replace(m.group(0), scratch.unpack(os.path.join(C.REPO, "tests/hwloc", m.group(1))))
            if l.startswith("expect-reexport "):
                expect = l.split(" ", 1)[1]
                continue
            (anns if l.startswith("ann ") else cfg).append(l)
        out.append(Case("corpus:" + n, "corpus", cfg, anns, ["corpus", "dirty"] if n.startswith("dirty-") else ["corpus"], expect=expect))
    return out


def make_cases(run, scratch=None):
    rng = run.rng
    quick = run.tier == "quick"
    cases = corpus_cases(scratch)
    nsyn = 50 if quick else 600
    for i in range(nsyn):
        desc = S.gen_synthetic(rng, max_pus=32 if quick else 64)
        flags = 0
        for b in (1, 8, 128, 256, 512):
            if rng.random() < (0.5 if b == 8 else 0.15):
                flags |= b
        anns, cl = G.gen_annotations(rng, rich=rng.choice([0.5, 1.0, 1.5]))
        if flags & 1 and rng.random() < 0.7:
            anns.insert(0, "ann allow %d" % rng.randint(0, 100))
            cl.add("allow")
        # NO_DISTANCES / NO_MEMATTRS / NO_CPUKINDS apply to the reload too ("same flags"): nothing of that kind to round-trip
        anns = [a for a in anns if not ((flags & 128 and a.startswith("ann dist")) or (flags & 256 and a.startswith("ann mattr")) or (flags & 512 and a.startswith("ann cpukind")))]
        if i % 2:
            tail = G.gen_dirty_tail(rng)
            tail = [a for a in tail if not ((flags & 128 and a.startswith("ann dist")) or (flags & 256 and a.startswith("ann mattr")) or (flags & 512 and a.startswith("ann cpukind")))]
            anns = [a for a in anns if not a.startswith("ann restrict")] + tail
            cl.add("dirty")
        cases.append(Case("syn%d:%s|flags=%d" % (i, desc, flags), "synthetic", ["filter all 0", "flags %d" % flags, "src synthetic " + desc], anns, cl))
    # a few cases with names hwloc does not sanitise on export (distances / memattr names)
    for i in range(2 if quick else 30):
        desc = S.gen_synthetic(rng, max_pus=16)
        anns, cl = G.gen_annotations(rng, rich=0.5, unsafe_names=True)
        cl.add("unsafe-names")
        cases.append(Case("synunsafe%d:%s" % (i, desc), "synthetic", ["filter all 0", "flags 0", "src synthetic " + desc], anns, cl))
    xmls = S.xml_corpus()
    if quick:
        xmls = rng.sample(xmls, min(10, len(xmls)))
    for x in xmls:
        for r in range(1 if quick else 4):
            flags = rng.choice([0, 1, 1, 8, 9])
            anns, cl = (G.gen_annotations(rng, rich=0.5) if r else ([], set()))
            cl.add("xmlsrc")
            imp = rng.choice(["0", "1"])
            cases.append(Case("xml:%s|flags=%d|r%d" % (os.path.basename(x), flags, r), "xml",
                              ["filter all 0", "flags %d" % flags, "src xml " + x], anns, cl))
    return cases


def io_snapshots():
    """Linux snapshots that contain PCI devices (listing the tarballs takes < 1 s)."""
    import subprocess
    res = []
    for tb in S.snapshots("linux"):
        try:
            out = subprocess.run(["tar", "tjf", tb], capture_output=True, timeout=60).stdout
        except Exception:     # noqa
            continue
        if re.search(rb"sys/bus/pci/devices/.", out):
            res.append(tb)
    return res


def plain_userdata_cases(run):
    """Plain hwloc_export_obj_userdata() over the XML-special and whitespace characters: each one alone, embedded, leading and
    trailing, on the root, an inner object and a leaf; then mixed strings of length 0..100.  Enumerated, not sampled; the caller
    runs every case under all four backend pairings, buffer and file."""
    rng = run.rng
    quick = run.tier == "quick"
    cfg = ["filter all 0", "flags 8", "src synthetic package:2 core:2 pu:2"]
    ROOT, INNER, LEAF = 0, 1, 3        # DFS positions of Machine, Package, PU in that topology
    out = []
    specials = [(34, "quot"), (62, "gt"), (9, "tab"), (10, "nl"), (13, "cr"), (60, "lt"), (38, "amp"), (39, "apos"), (32, "space")]
    for c, nm in specials:
        ch = bytes([c])
        out.append(Case("udplain:%s:embedded" % nm, "udplain", cfg,
                        ["ann ud %d 0 %s %s" % (ROOT, G.hx(b"r" + ch), G.hx(b"a" + ch + b"b")),
                         "ann ud %d 0 - %s" % (INNER, G.hx(b"x" + ch + ch + b"y" + ch + b"z")),
                         "ann ud %d 0 %s %s" % (LEAF, G.hx(b"leaf"), G.hx(b"p" + ch + b"q"))], ["udplain"]))
        out.append(Case("udplain:%s:edges" % nm, "udplain", cfg,
                        ["ann ud %d 0 - %s" % (ROOT, G.hx(ch + b"lead")),
                         "ann ud %d 0 %s %s" % (INNER, G.hx(b"n"), G.hx(b"trail" + ch)),
                         "ann ud %d 0 - %s" % (LEAF, G.hx(ch + b"both" + ch))], ["udplain"]))
        out.append(Case("udplain:%s:alone" % nm, "udplain", cfg,
                        ["ann ud %d 0 - %s" % (LEAF, G.hx(ch))], ["udplain"]))
    alphabet = b"\"><&'\t\n\r  abcxyz;#0123lgtampquo"
    nmixed = 24 if quick else 400
    for i in range(nmixed):
        ln = [0, 1, 2, 3, 99, 100][i] if i < 6 else rng.randint(0, 100)
        mode = i % 4
        pool = alphabet if mode == 0 else b"\">\t\n abc'" if mode == 1 else b"\"'\t\n >xyz" if mode == 2 else b"abc xyz\t\n"
        data = bytes(rng.choice(pool) for _ in range(ln))
        if mode == 3 and ln > 2:
            data = b" " + data[1:-1] + b"\n"            # leading / trailing whitespace around text
        k = [ROOT, INNER, LEAF][i % 3]
        anns = ["ann ud %d 0 %s %s" % (k, G.hx(rng.choice([None, b"nm", b"a b", b"q\"<&>"]) or None) if rng.random() < 0.6 else "-", G.hx(data))]
        out.append(Case("udplain:mixed%d:len%d" % (i, ln), "udplain", cfg, anns, ["udplain"]))
    return out


def feature_cases(run, scratch):
    """Enumerated cases for paths the random stream reaches rarely or never: returns (case, [(pairing, mode, ver), ...])."""
    out = []
    quick = run.tier == "quick"
    ALL = PAIRINGS
    SYN = ["filter all 0", "flags 8", "src synthetic package:2 [numa] l2:2 pu:2"]
    UD = ["ann ud 0 1 s6e s000102ff", "ann ud 1 0 - s68656c6c6f", "ann ud 3 1 - s00", "ann ud 3 0 s7120 s61206220630a64", "ann ud 4 1 s62 s", "ann ud 5 0 - s",
          "ann name 2 s613c623e2622", "ann info 2 s6b s76"]
    # argument checks (EINVAL paths) + HWLOC_LIBXML generic variable
    out.append((Case("feature:guards", "feature", SYN, ["guards {TMP}"] + UD[:2], ["feature"]), [(("0", "0", "g"), "buffer", "v3"), (("1", "1", "g"), "file", "v3")]))
    # "-" = stdout / stdin, and the not-decoded userdata pass-through, over the whole matrix
    out.append((Case("feature:stdio", "feature", SYN, UD, ["feature"]), [(p, "stdio", "v3") for p in ALL] + [(("0", "0"), "stdio", "v2")]))
    out.append((Case("feature:userdata-not-decoded", "feature", SYN, UD, ["feature"]),
                [(p, m, "v3") for p in ALL for m in ("buffer+nd", "file+nd")] + [(("0", "0"), "stdio+nd", "v3")]))
    # "dirty" histories: modifying calls immediately before the export, no query in between; buffer and file export of the
    # same state (forked copy) must agree, the text must not refer to removed objects, then the usual clauses
    SYN2 = ["filter all 0", "flags 8", "src synthetic package:2 [numa(memory=1048576)] l2:2 pu:2"]
    DIRTY = [(("0", "0"), "buffer+dirty", "v3"), (("0", "0"), "file+dirty", "v3"), (("1", "1"), "buffer+dirty", "v3"), (("0", "1"), "file+dirty", "v3"),
             (("1", "0"), "buffer+dirty", "v2")]
    H = G.hx
    hist = {
        "dist-pu-restrict": ["ann dist 4 5 3 " + H(b"PUs"), "ann restrict 0 0"],
        "dist-numa-restrictnode": ["ann dist 14 5 1 " + H(b"NUMALatency"), "ann mattr 0 1 c 1 77", "ann mattr 1 0 c 2 5", "ann restrictnode 1 0"],
        "dist-numa-restrictnode-memless": ["ann dist 14 6 2 " + H(b"NodeBW"), "ann restrictnode 0 16"],
        "hetero-restrict-pu": ["ann disthet 6 4 5 7 " + H(b"Het"), "ann restrict 3 0"],
        "hetero-restrict-cache": ["ann disthet 6 1 5 7 " + H(b"Het2"), "ann restrict 0 0", "ann restrict 0 0"],
        "two-matrices-restrict": ["ann dist 4 5 3 " + H(b"A"), "ann dist 6 9 4 " + H(b"B"), "ann disthet 1 4 5 0 " + H(b"C"), "ann restrict 5 1"],
        "cpukind-mattr-restrict": ["ann cpukind 1 3 1 %s %s" % (H(b"CoreType"), H(b"big")), "ann cpukind 8 1 0", "ann mattrreg %s 5" % H(b"MyBW"),
                                   "ann mattr 6 0 c 3 100", "ann mattr 6 1 o 2 200", "ann mattr 0 0 c 1 9", "ann restrict 2 0"],
        "restrict-then-dist": ["ann restrict 7 0", "ann dist 4 5 3 " + H(b"After")],
        "dist-remove": ["ann dist 4 5 3 " + H(b"Gone"), "ann dist 14 5 1 " + H(b"Kept?"), "ann distremove"],
        "group-misc-allow-info": ["ann dist 1 5 2 " + H(b"Pk"), "ann group 3 4 1 0 0", "ann misc 2 " + H(b"m"), "ann subtype 1 " + H(b"sub<t>"),
                                  "ann info 2 %s %s" % (H(b"k"), H(b"v&")), "ann ud 2 1 - s0001"],
    }
    for nm, anns in hist.items():
        out.append((Case("feature:dirty:" + nm, "feature", SYN2, anns, ["feature", "dirty"]), DIRTY))
    # distances arrays are written ten numbers per element: every matrix size around the line width, homogeneous (os and gp
    # indexing) and heterogeneous, so that arrays ending exactly on a full line (n or n*n multiple of 10) occur
    sizes = list(range(2, 32)) + [40, 50, 100]
    plans = [[(("0", "0"), "buffer", "v3"), (("1", "1"), "file", "v3")], [(("0", "1"), "file", "v3"), (("1", "0"), "buffer", "v2")],
             [(("1", "1"), "buffer", "v3"), (("0", "0"), "file", "v2")], [(("1", "0"), "file", "v3"), (("0", "1"), "buffer", "v2")]]
    for n in sizes:
        top = ["filter all 0", "flags 0", "src synthetic package:%d [numa(memory=1048576)] core:1 pu:1" % n]
        anns = ["ann distn 4 %d -1 0 5 %d %s" % (n, n, H(b"PU%d" % n)),          # PUs: os indexing
                "ann distn 1 %d -1 0 9 %d %s" % (n, n + 1, H(b"Pk%d" % n)),      # Packages: gp indexing
                "ann distn 14 %d -1 0 6 %d %s" % (n, n + 2, H(b"Nd%d" % n)),     # NUMA nodes
                "ann distn 3 %d 4 %d 5 %d %s" % (n // 2, n - n // 2, n + 3, H(b"Het%d" % n))]   # Cores + PUs, n objects in total
        plan = plans[n % 4] if quick and n not in (10, 20, 30) else [j for pl in plans for j in pl]
        out.append((Case("feature:dist-size:%d" % n, "feature", top, anns, ["feature", "distsize"]), plan))
    # a whole level of Groups that brings no structure (one Group above each Package, same cpuset) survives only through
    # dont_merge: the attribute must be exported in v2 as well, else the reload merges the level away (tree clause of v2)
    out.append((Case("feature:v2-dontmerge-level", "feature", ["filter all 0", "flags 0", "src synthetic package:2 pu:2"],
                     ["ann group 1 1 1 0 0", "ann group 5 5 1 0 0"], ["feature"]),
                [(p, "buffer", "v2") for p in ALL] + [(("0", "0"), "file", "v2"), (("0", "0"), "buffer", "v3"), (("1", "1"), "file", "v3")]))
    # info lists: exact duplicate pairs (adjacent and separated), same name with other values, same value under other names,
    # for topology infos, object infos (root, inner, leaf) and cpukind infos: count, order and bytes must survive
    def dup_list(prefix):
        return [(prefix + b"Rack", b"r12"), (prefix + b"Rack", b"r12"), (prefix + b"Zone", b"a"), (prefix + b"Rack", b"r12"), (prefix + b"Rack", b"r13"),
                (prefix + b"Other", b"r12"), (prefix + b"Zone", b"a"), (prefix + b"Last", b"<&>")]
    anns = ["ann tinfo %s %s" % (H(n), H(val)) for n, val in dup_list(b"T")]
    for k in (0, 1, 3):
        anns += ["ann info %d %s %s" % (k, H(n), H(val)) for n, val in dup_list(b"O%d" % k)]
    ck = dup_list(b"K")
    anns.append("ann cpukind 1 3 %d %s" % (len(ck), " ".join("%s %s" % (H(n), H(val)) for n, val in ck)))
    anns.append("ann cpukind 4 1 2 %s %s %s %s" % (H(b"KRack"), H(b"r12"), H(b"KRack"), H(b"r12")))
    out.append((Case("feature:info-duplicates", "feature", SYN, anns, ["feature"]),
                [(p, m, "v3") for p in ALL for m in ("buffer", "file")] + [(("0", "0"), "buffer", "v2"), (("1", "1"), "file", "v2")]))
    # empty info values and names
    anns = ["ann tinfo %s %s" % (H(b"TEmpty"), H(b"")), "ann tinfo %s %s" % (H(b"TAfter"), H(b"x")), "ann info 1 %s %s" % (H(b"OEmpty"), H(b"")),
            "ann info 1 %s %s" % (H(b"OAfter"), H(b"y")), "ann cpukind 1 3 2 %s %s %s %s" % (H(b"KEmpty"), H(b""), H(b"KAfter"), H(b"z"))]
    out.append((Case("feature:info-empty-values", "feature", SYN, anns, ["feature"]), [(p, "buffer", "v3") for p in ALL]))
    # topology diffs: export to file and buffer, load both back, apply
    out.append((Case("feature:diff-xml", "feature", SYN, ["diffrt {TMP} %s" % G.hx(b"ref <name> & \"q\""), "ann name 1 s70"], ["feature"]),
                [(("0", "0"), "buffer", "v3"), (("1", "1"), "buffer", "v3"), (("0", "1"), "file", "v3"), (("1", "0"), "file", "v3")]))
    # support fields other than 0/1 are exported with a value attribute
    out.append((Case("feature:support-values", "feature", SYN, ["ann support membind 3 7", "ann support cpubind 0 255", "ann support discovery 5 2"], ["feature"]),
                [(p, "buffer", "v3") for p in ALL]))
    # every support field the exporter can write (all bytes of the three public structs of the current source), each alone and
    # all together, imported with IMPORT_SUPPORT: compared bit by bit through hwloc_topology_get_support() and by re-export
    allsup = []
    n = 0
    for cat in ("discovery", "cpubind", "membind"):
        for idx in range(24):          # beyond the struct size the annotation is refused (rc=-1): harmless
            allsup.append("ann support %s %d 1" % (cat, idx))
            out.append((Case("feature:support-bit:%s:%d" % (cat, idx), "feature", SYN, ["ann support %s %d 1" % (cat, idx)], ["feature"]),
                        [(ALL[n % 4], "buffer" if n % 2 else "file", "v3")]))
            n += 1
    out.append((Case("feature:support-all-bits", "feature", SYN, allsup, ["feature"]), [(p, m, "v3") for p in ALL for m in ("buffer", "file")]))
    # v2: HOPS matrices are written as LATENCY, and read back as HOPS when named XGMIHops
    out.append((Case("feature:v2-xgmihops", "feature", SYN, ["ann dist 4 33 5 %s" % G.hx(b"XGMIHops"), "ann dist 6 34 2 %s" % G.hx(b"OtherHops")], ["feature"]),
                [(p, "buffer", "v2") for p in ALL] + [(("0", "0"), "buffer", "v3")]))
    # OS devices of every kind: the v2 osdev_type / Backend / Size conversions of export and import
    d = scratch.unpack(os.path.join(C.REPO, "tests/hwloc/linux/2pa-pcidomain32bits.tar.bz2"))
    LIN = ["env HWLOC_COMPONENTS linux,stop", "env HWLOC_THISSYSTEM 0", "filter all 0", "flags 0", "src fsroot " + d]
    sets = [
        [(1, None, b"sda"), (2, None, b"dax0.0"), (32, None, b"mlx5_0"), (16, b"BXI", b"bxi0"), (16, None, b"eth0")],
        [(64, None, b"dma0"), (8, None, b"nvml0"), (8, None, b"rsmi1"), (8 | 4, b"CUDA", b"cuda0"), (4, b"Display", b":0.0")],
        [(8 | 4, b"OpenCL", b"opencl0d0"), (8 | 4, b"LevelZero", b"ze0"), (8, b"OpenCL", b"opencl0d1"), (8 | 4, b"RSMI", b"rsmi0"), (8 | 4, b"NVML", b"nvml1")],
        [(0, None, b"none"), (8, b"VectorEngine", b"ve0"), (4, b"CUDA", b"cuda1"), (3, None, b"pmem0"), (48, None, b"hfi1_0")],
    ]
    for i, st in enumerate(sets):
        anns = []
        for k, (types, sub, nm) in enumerate(st):
            anns.append("ann osdev %d %d %s %s" % (k, types, G.hx(sub), G.hx(nm)))
        anns.append("ann osdevinfo 0 %s %s" % (G.hx(b"Size"), G.hx(b"1024")))
        anns.append("ann osdevinfo 1 %s %s" % (G.hx(b"CUDAGlobalMemorySize"), G.hx(b"2048 KiB")))
        anns.append("ann osdevinfo 2 %s %s" % (G.hx(b"OpenCLDeviceType"), G.hx(b"GPU")))
        if i < 2:
            anns.append("ann osdevinfo 3 %s %s" % (G.hx(b"Backend"), G.hx(b"RSMI")))      # an explicit Backend info suppresses the v2 one
        out.append((Case("feature:osdev%d" % i, "feature", LIN, anns, ["feature"]),
                    [(p, "buffer", "v2") for p in ALL] + [(("0", "0"), "file", "v3"), (("1", "1"), "buffer", "v3")]))
    # every (type, subtype, info name) the importer's version-dependent compatibility code looks at, with values that do and do
    # not already carry the rewritten form, short and > 60 bytes: a v3 round trip must reproduce them byte for byte
    LONG = b"x" * 61 + b" MB and then some more text beyond any 64-byte scratch buffer"
    def il(pairs):
        return "%d %s" % (len(pairs), " ".join("%s %s" % (H(a), H(b)) for a, b in pairs))
    compat = ["ann miscsub 0 %s %s %s" % (H(b"DIMM0"), H(b"MemoryModule"), il([(b"Size", b"16384 MB"), (b"Size", b"1024"), (b"Size", b"4096KiB"), (b"Size", LONG), (b"SectorSize", b"512")])),
              "ann miscsub 1 %s %s %s" % (H(b"DIMM1"), H(b"MemoryModule"), il([(b"Size", b"8")])),
              "ann miscsub 3 %s %s %s" % (H(b"other"), H(b"NotAModule"), il([(b"Size", b"77")])),
              "ann miscsub 2 %s - %s" % (H(b"plain"), il([(b"Size", b"5 GB")]))]
    for nm in (b"Backend", b"SyntheticDescription", b"LinuxCgroup", b"MemoryTiersNr", b"WindowsBuildEnvironment", b"OSName", b"OSRelease", b"OSVersion",
               b"HostName", b"Architecture", b"hwlocVersion", b"ProcessName"):
        compat.append("ann info 0 %s %s" % (H(nm), H(b"root-" + nm)))       # on the root OBJECT: must not move to the topology infos in v3
    compat += ["ann dist 4 5 3 %s" % H(b"XGMIHops")]                           # latency matrix with the name v2 used for hops
    # a Group whose subtype is "Die", and one of kind 104 (what 2.0 files used for dies): still Groups after a v3 round trip
    out.append((Case("feature:compat-group-die", "feature", SYN, ["ann group 1 1 1 0 0", "ann subtype 1 %s" % H(b"Die"), "ann group 6 6 1 104 0"], ["feature"]),
                [(p, "buffer", "v3") for p in ALL] + [(("0", "0"), "file", "v3")]))
    out.append((Case("feature:compat-tweaks", "feature", SYN, compat, ["feature"]),
                [(p, m, "v3") for p in ALL for m in ("buffer", "file")] + [(("0", "0"), "buffer", "v2")]))
    for i, st in enumerate(sets):
        anns = []
        for k, (types, sub, nm) in enumerate(st):
            anns.append("ann osdev %d %d %s %s" % (k, types, H(sub), H(nm)))
            anns.append("ann osdevinfo %d %s %s" % (k, H(b"Backend"), H([b"CUDA", b"NVML", b"RSMI", b"LevelZero", b"OpenCL", b"GL"][(i + k) % 6])))
            anns.append("ann osdevinfo %d %s %s" % (k, H([b"Size", b"CUDAGlobalMemorySize", b"CXLPMEMSize", b"SectorSize", b"LevelZeroHBMSize"][k % 5]), H([b"1024", b"2048 KiB", b"77", LONG, b"1 KiB"][(i + k) % 5])))
        anns.append("ann osdev 0 %d %s %s" % (i, H([None, b"NVM", b"CXLMem", b"BXI"][i]), H([b"dax0.0", b"dax1.0", b"mem0", b"bxi0"][i])))   # numeric values the v2 mapping rewrites
        out.append((Case("feature:compat-osdev%d" % i, "feature", LIN, anns, ["feature"]), [(p, "buffer", "v3") for p in ALL] + [(("0", "0"), "file", "v3")]))
    return out


def length_sweep_cases(exe, tmpdir):
    """Documents whose built-in export is exactly 16380..16388 characters (the exporter's first-guess buffer is 16384 bytes):
    a probe run measures the export length of the topology with a known padding, then the padding of one root info is adjusted."""
    cfg = ["filter all 0", "flags 8", "src synthetic package:2 [numa] l2:2 pu:2"]
    fixed = ["ann info 0 %s %s" % (G.hx(b"Pad%d" % i), G.hx(b"f" * 3000)) for i in range(3)]

    def mk(pad, name):
        return Case(name, "feature", cfg, fixed + ["ann info 0 %s %s" % (G.hx(b"PadV"), G.hx(b"v" * pad))], ["feature", "length-sweep"])
    rs, _ = execute(exe, [(mk(1000, "feature:export-length:probe"), ("0", "0"), "buffer", "v3")], tmpdir)
    if not rs[0] or not rs[0]["X1"] or not rs[0]["X1"].startswith("X1 rc=0"):
        return []
    base = int(kv(rs[0]["X1"])["len"]) - 1 - 1000          # document length without the NUL, without the variable padding
    out = []
    for target in range(16380, 16389):
        pad = target - base
        if not 1 <= pad <= 3900:
            continue
        plan = [(("0", "0"), "buffer+dirty", "v3"), (("0", "0"), "file+dirty", "v3"), (("0", "1"), "buffer", "v3"), (("1", "1"), "buffer+dirty", "v3")]
        if target == 16384:
            plan += [(("0", "1"), "file", "v3"), (("1", "0"), "file+dirty", "v3"), (("0", "0"), "stdio", "v3")]
        out.append((mk(pad, "feature:export-length:%d" % target), plan))
    return out


def snapshot_cases(run, scratch):
    rng = run.rng
    quick = run.tier == "quick"
    out = []
    LIN = ["env HWLOC_COMPONENTS linux,stop", "env HWLOC_THISSYSTEM 0"]
    # every snapshot with I/O, natively discovered, I/O kept (KEEP_ALL and KEEP_IMPORTANT): PCI / bridge / OS device attributes
    # of real machines (32-bit PCI domains, link speeds, ...) only exist on this path
    for tb in io_snapshots():
        d = scratch.unpack(tb)
        for iof, tag in (("filter all 0", "io-all"), ("filter io 3", "io-important")):
            for r in range(1 if quick else 3):
                anns, cl = (G.gen_annotations(rng, rich=0.5) if r else ([], set()))
                cl.add("snapshot-io")
                flags = rng.choice([0, 1, 9]) if r else 0
                out.append(Case("linuxio:%s|%s|flags=%d|r%d" % (os.path.basename(tb), tag, flags, r), "linuxio",
                                LIN + [iof, "flags %d" % flags, "src fsroot " + d], anns, cl))
    lin = [tb for tb in S.snapshots("linux")]
    lin = rng.sample(lin, min(3 if quick else 25, len(lin)))
    for tb in lin:
        d = scratch.unpack(tb)
        anns, cl = G.gen_annotations(rng, rich=0.5)
        cl.add("snapshot")
        flags = rng.choice([0, 1, 9])
        out.append(Case("linux:%s|flags=%d" % (os.path.basename(tb), flags), "linux",
                        LIN + ["filter all 0", "flags %d" % flags, "src fsroot " + d], anns, cl))
    x86 = S.snapshots("x86")
    x86 = rng.sample(x86, min(2 if quick else len(x86), len(x86)))
    for tb in x86:
        d = scratch.unpack(tb)
        anns, cl = G.gen_annotations(rng, rich=0.5)
        cl.add("x86")
        out.append(Case("x86:%s" % os.path.basename(tb), "x86",
                        ["env HWLOC_COMPONENTS x86,stop", "env HWLOC_THISSYSTEM 0", "env HWLOC_FSROOT", "filter all 0", "flags 0", "src cpuid " + d], anns, cl))
    return out


# --------------------------------------------------------------------------
# running
# --------------------------------------------------------------------------

def parse_output(txt):
    """-> list of dicts, one per CASE"""
    res = []
    cur = None
    for line in txt.split("\n"):
        if line.startswith("CASE "):
            cur = {"name": line[5:], "ann": [], "A": [], "AX": [], "M": [], "B": [], "BX": [], "UE": [], "UI": [], "load": None,
                   "X1": None, "X2": None, "XO": None, "XOstatus": None, "reload": None, "bcheck": None, "acheck": None, "X": None, "rt": None, "endrt": False, "other": []}
            res.append(cur)
        elif cur is None:
            continue
        elif line.startswith("A|"):
            cur["A"].append(line[2:])
        elif line.startswith("B|"):
            cur["B"].append(line[2:])
        elif line.startswith("AX|"):
            cur["AX"].append(line[3:])
        elif line.startswith("BX|"):
            cur["BX"].append(line[3:])
        elif line.startswith("M"):
            cur["M"].append(line)
        elif line.startswith("UE "):
            cur["UE"].append(line)
        elif line.startswith("UI "):
            cur["UI"].append(line)
        elif line.startswith("ann "):
            cur["ann"].append(line)
        elif line.startswith("load "):
            cur["load"] = line
        elif line.startswith("XO "):
            cur["XO"] = line
        elif line.startswith("XOstatus "):
            cur["XOstatus"] = line
        elif line.startswith("X1 "):
            cur["X1"] = line
        elif line.startswith("X2 "):
            cur["X2"] = line
        elif line.startswith("reload "):
            cur["reload"] = line
        elif line.startswith("Bcheck "):
            cur["bcheck"] = line
        elif line.startswith("Acheck "):
            cur["acheck"] = line
        elif line.startswith("RT "):
            cur["rt"] = line
        elif line == "ENDRT":
            cur["endrt"] = True
        elif line.startswith("X "):
            cur["X"] = line
        elif line:
            cur["other"].append(line)
    return res


def run_shard(exe, script, pairing, timeout=900):
    if len(pairing) > 2:
        # the generic variable HWLOC_LIBXML selects both sides at once
        env = C.run_env(HWLOC_LIBXML=pairing[0])
        env.pop("HWLOC_LIBXML_EXPORT", None)
        env.pop("HWLOC_LIBXML_IMPORT", None)
    else:
        env = C.run_env(HWLOC_LIBXML_EXPORT=pairing[0], HWLOC_LIBXML_IMPORT=pairing[1])
        env.pop("HWLOC_LIBXML", None)
    env.pop("HWLOC_DEBUG_CHECK", None)
    env.pop("HWLOC_XML_USERDATA_NOT_DECODED", None)
    rc, out, err = C.sh([exe], input=script.encode(), env=env, timeout=timeout)
    return rc, out.decode(errors="replace"), err.decode(errors="replace")


# --------------------------------------------------------------------------
# judging one round trip
# --------------------------------------------------------------------------

def kv(line):
    d = {}
    for f in line.split(" "):
        i = f.find("=")
        if i > 0:
            d[f[:i]] = f[i + 1:]
    return d


def pct_decode(s):
    """hwv_pstr rendering -> bytes or None"""
    if s == "-":
        return None
    s = s[1:-1]
    out = bytearray()
    i = 0
    while i < len(s):
        if s[i] == "%":
            out.append(int(s[i + 1:i + 3], 16))
            i += 3
        else:
            out.append(ord(s[i]))
            i += 1
    return bytes(out)


def parse_infos(s):
    if s == "-":
        return []
    res = []
    for p in s.split(";"):
        n, v = p.split("=", 1)
        res.append((pct_decode(n), pct_decode(v)))
    return res


TREE_FIELDS = ["ty", "os", "par", "fc", "lc", "ps", "ns", "ar", "mar", "iar", "xar", "rk", "ca", "nch", "mch", "ich", "xch", "cs", "ccs", "nds", "cnds"]
FULL_FIELDS = TREE_FIELDS + ["dp", "gp", "pc", "nc", "li", "tm", "lm", "sym", "at"]


def obj_records(lines):
    return [kv(l) for l in lines if l.startswith("O ")]


class Verdict:
    def __init__(self):
        self.items = []      # (key, what)
        self.unsafe = 0      # strings that lost characters by the documented filter
        self.skipped = None
        self.stale_tm = 0

    def add(self, key, what):
        if not any(k == key for k, _ in self.items):
            self.items.append((key, what))


def hexbytes(s):
    return None if s == "-" else bytes.fromhex(s[1:])


def filt(v, b):
    if b is not None and not G.xml_safe(b):
        v.unsafe += 1
    return G.safe_filter(b)


def expected_ud(r):
    """From the export transcript: the records the importer must deliver, in order, and the rc each export call must have had."""
    exp, bad = [], []
    for l in r["UE"]:
        d = kv(l)
        name, data = hexbytes(d["name"]), hexbytes(d["bytes"])
        ok_name = name is None or G.xml_safe(name)
        ok = ok_name and (d["b64"] == "1" or G.xml_safe(data))
        want_rc = "0" if ok else "-1"
        if d["rc"] != want_rc or (not ok and d["errno"] != "EINVAL"):
            bad.append("export call for gp=%s b64=%s name=%r len=%s returned rc=%s errno=%s, expected rc=%s" % (d["gp"], d["b64"], name, d["len"], d["rc"], d["errno"], want_rc))
        if d["rc"] == "0":
            exp.append((d["gp"], name, int(d["len"]), data, d["b64"]))
    return exp, bad


def crash_key(r):
    """A key naming the call site of a crash / sanitizer report rather than the case."""
    err = r.get("stderr", "")
    m = re.search(r"([\w.-]+\.c):(\d+):\d+: runtime error: ([^\n]*)", err)
    if m:
        return "ubsan:%s:%s" % (m.group(1), re.sub(r"[^a-z]+", "-", m.group(3).lower())[:40].strip("-"))
    m = re.search(r"ERROR: AddressSanitizer: ([\w-]+)", err)
    if m:
        fr = re.search(r"#\d+ 0x[0-9a-f]+ in (hwloc\w+) ", err)
        return "asan:%s:%s" % (m.group(1), fr.group(1) if fr else "?")
    if "LeakSanitizer" in err:
        # name the allocation site of the first direct leak: the first hwloc frame that is not a bare allocator
        blocks = re.split(r"\n(?=Direct leak)", err)
        for b in blocks:
            if b.startswith("Direct leak") or "Direct leak" in b[:200]:
                fr = [f for f in re.findall(r"#\d+ 0x[0-9a-f]+ in (\w+) ", b) if f.startswith("hwloc") and f not in ("hwloc_tma_malloc", "hwloc_tma_calloc", "hwloc_bitmap_alloc", "hwloc_bitmap_dup", "hwloc_alloc_setup_object")]
                xml = any("xml" in f for f in re.findall(r"#\d+ 0x[0-9a-f]+ in (\w+) ", b))
                return "leak:%s%s" % (fr[0] if fr else "harness", "" if xml else ":outside-xml")
        return "leak:?"
    return (r["X"] or "none").replace(" ", "_")


def content_classes(data):
    """Classes of XML-special / whitespace characters in one plain userdata buffer (the key of a finding names them)."""
    cls = set()
    for ch, nm in ((b"<", "lt"), (b"&", "amp"), (b">", "gt"), (b"\r", "cr"), (b'"', "quot"), (b"\t", "tab"), (b"\n", "nl")):
        if ch in data:
            cls.add(nm)
    if b"\r\n" in data:
        cls.add("crlf")        # libxml2 turns CR LF into one LF on input: the content gets shorter than length=
    if re.match(rb"[ \t\n]+\r", data) and data.strip(b" \t\n\r"):
        cls.add("blankcr")     # blanks then CR then text: libxml2 delivers the blank prefix as its own chunk and NOBLANKS drops it
    if b"]]>" in data:
        cls.add("cdend")
    if data and not data.strip(b" \t\n\r"):
        cls.add("blank")
    return cls


def markup_class(exp_ud):
    """Union over the plain (not base64) userdata records of a case."""
    cls = set()
    for gp, name, ln, data, b64 in exp_ud:
        if b64 != "1":
            cls |= content_classes(data)
    return cls


def cls_tag(cls):
    return "+".join(sorted(cls)) if cls else "none"


def text_index_spec(xml):
    """Spec on the exported text: every object a <distances2>, <distances2hetero>, <memattr_value> or <cpukind> refers to
    is in the exported object list.  Returns a list of complaints."""
    bad = []
    tname = {}
    objs = re.findall(rb'<object type="([A-Za-z0-9]+)"((?: [a-z_]+="[^"]*")*)', xml)
    gp_by_type, os_by_type, pus = {}, {}, set()
    for ty, attrs in objs:
        a = dict(re.findall(rb' ([a-z_]+)="([^"]*)"', attrs))
        gp_by_type.setdefault(ty, set()).add(a.get(b"gp_index"))
        if b"os_index" in a:
            os_by_type.setdefault(ty, set()).add(a[b"os_index"])
    for m in re.finditer(rb'<distances2 type="([A-Za-z0-9]+)" nbobjs="(\d+)"[^>]*indexing="(os|gp)"[^>]*>(.*?)</distances2>', xml, re.S):
        ty, nb, idxing, body = m.groups()
        idx = b" ".join(re.findall(rb'<indexes length="\d+">([^<]*)</indexes>', body)).split()
        vals = b" ".join(re.findall(rb'<u64values length="\d+">([^<]*)</u64values>', body)).split()
        pool = os_by_type.get(ty, set()) if idxing == b"os" else gp_by_type.get(ty, set())
        if len(idx) != int(nb) or len(vals) != int(nb) ** 2:
            bad.append("distances2 %s: nbobjs=%s but %d indexes, %d values" % (ty.decode(), nb.decode(), len(idx), len(vals)))
        for i in idx:
            if i not in pool:
                bad.append("distances2 %s index %s (%s) is not an exported object" % (ty.decode(), i.decode(), idxing.decode()))
                break
    for m in re.finditer(rb'<distances2hetero nbobjs="(\d+)"[^>]*>(.*?)</distances2hetero>', xml, re.S):
        nb, body = m.groups()
        idx = b" ".join(re.findall(rb'<indexes length="\d+">([^<]*)</indexes>', body)).split()
        if len(idx) != int(nb):
            bad.append("distances2hetero: nbobjs=%s but %d indexes" % (nb.decode(), len(idx)))
        for i in idx:
            ty, _, gp = i.partition(b":")
            if gp not in gp_by_type.get(ty, set()):
                bad.append("distances2hetero entry %s is not an exported object" % i.decode())
                break
    for m in re.finditer(rb'<memattr_value((?: [a-z_]+="[^"]*")*)', xml):
        a = dict(re.findall(rb' ([a-z_]+)="([^"]*)"', m.group(1)))
        if a.get(b"target_obj_gp_index") not in gp_by_type.get(a.get(b"target_obj_type"), set()):
            bad.append("memattr_value target %s:%s is not an exported object" % (a.get(b"target_obj_type", b"?").decode(), a.get(b"target_obj_gp_index", b"?").decode()))
        if b"initiator_obj_gp_index" in a and a[b"initiator_obj_gp_index"] not in gp_by_type.get(a.get(b"initiator_obj_type"), set()):
            bad.append("memattr_value object initiator %s:%s is not an exported object" % (a.get(b"initiator_obj_type", b"?").decode(), a[b"initiator_obj_gp_index"].decode()))
    return bad


def judge_rt(r, ver, flags):
    """r: parsed output of one case under one pairing.  Returns Verdict."""
    v = Verdict()
    if not r["load"] or "rc=0" not in r["load"]:
        if r["X"] != "X ok":
            v.add("crash-at-load:" + crash_key(r), "harness child ended with %s while loading the source" % r["X"])
        return v          # source not loadable: nothing to round-trip
    if r["X"] != "X ok" and not r["rt"]:
        v.skipped = "crash-while-annotating:" + crash_key(r)     # a modifying call died before any XML code ran (C02/C14/C15 territory)
        return v
    if r["acheck"] == "Acheck abort":
        v.skipped = "original-not-wellformed"
        return v          # the annotated original is itself rejected by hwloc_topology_check (a C01/C02 matter)
    exp_ud, bad = expected_ud(r) if r["X1"] else ([], [])
    mk = markup_class(exp_ud)
    failed_reload = bool(r["reload"]) and "rc=0" not in r["reload"]
    if r["X"] != "X ok":
        ck = crash_key(r)
        if ck.startswith("leak:") and ck.endswith(":outside-xml"):
            v.skipped = "leak-outside-xml-code:" + ck[5:-12]      # e.g. Group insertion: a matter for C02, not for the XML round trip
        elif failed_reload and ck.startswith("leak:"):
            v.add("leak-after-failed-reload:" + ck[5:], "memory leaked by the failed reload (%s)" % r["X"])
        else:
            v.add("crash:" + ck, "harness child ended with %s (%s)" % (r["X"], ck))
            if not failed_reload:
                return v
    if not r["X1"] or not r["X1"].startswith("X1 rc=0"):
        v.add("export-failed", "export of a loaded topology failed: %s" % (r["X1"] or "")[:80])
        return v
    for b in bad:
        v.add("userdata-export-rc", b)
    # ---- spec on the exported text; buffer export == file export of the same (dirty) state ----
    x1b = hexbytes(kv(r["X1"])["hex"]) if " hex=-" not in r["X1"] else None
    if x1b is not None and r["rt"]:
        isbuf = kv(r["rt"]).get("mode") == "buffer"
        body = x1b[:-1] if isbuf and x1b.endswith(b"\0") else x1b
        if isbuf and not x1b.endswith(b"\0"):
            v.add("export-shape:buffer-not-nul-terminated", "the returned buffer (buflen=%d) does not end with a NUL" % len(x1b))
        if b"\0" in body:
            v.add("export-shape:embedded-nul", "buflen / file length %d but the first NUL is at offset %d (buflen must be strlen+1, a file has no NUL)" % (len(x1b), body.index(b"\0")))
        if not body.rstrip(b"\0").endswith(b"</topology>\n"):
            v.add("export-shape:document-end", "the exported document does not end with '</topology>' and a newline: ...%r" % body[-24:])
    if x1b is not None or "textspec" in r:
        for c in (r["textspec"] if "textspec" in r else text_index_spec(x1b))[:2]:
            v.add("export-text:" + c.split(" ")[0] + "-dangling-reference", "the exported XML refers to an object it does not contain: " + c)
    if r["rt"] and kv(r["rt"]).get("dirty") == "1":
        if r["XOstatus"] != "XOstatus exit 0" or not r["XO"] or not r["XO"].startswith("XO rc=0"):
            v.add("dirty-export:other-channel-failed", "export of the freshly modified topology through the other channel: %s %s" % (r["XOstatus"], (r["XO"] or "")[:40]))
        elif x1b is not None:
            xob = hexbytes(kv(r["XO"])["hex"])
            if xob.rstrip(b"\0") != x1b.rstrip(b"\0"):
                l1, l2 = x1b.split(b"\n"), xob.split(b"\n")
                d = next(((x, y) for x, y in zip(l1, l2) if x != y), (b"<%d lines>" % len(l1), b"<%d lines>" % len(l2)))
                v.add("dirty-export:buffer-differs-from-file", "buffer and file export of the same freshly modified topology differ: %r vs %r" % (d[0][:160], d[1][:160]))
    if not r["reload"] or "rc=0" not in r["reload"]:
        if mk:
            v.add("reload-failed:userdata-plain:" + cls_tag(mk), "hwloc could not load its own export (%s) with plain userdata containing %s" % (r["reload"], "/".join(sorted(mk))))
        else:
            v.add("reload-failed", "hwloc could not load its own export: %s" % r["reload"])
        return v
    if r["bcheck"] != "Bcheck ok":
        v.add("reloaded-check-abort", "hwloc_topology_check() aborts on the reloaded topology")
    # ---- argument checks of the export entry points ----
    for l in r["other"]:
        if l.startswith("G "):
            nm = l.split(" ")[1]
            d = kv(l)
            if nm == "export-with-refused-userdata":
                if d.get("rc") != "0" or d.get("has_userdata") != "0":
                    v.add("guard:" + nm, "export with only refused userdata calls: %s" % l)
            elif nm == "file-unwritable":
                if d.get("rc") != "-1":
                    v.add("guard:" + nm, "export to an unwritable path returned %s" % d.get("rc"))
            elif d.get("rc") != "-1" or d.get("errno") != "EINVAL":
                v.add("guard:" + nm, "expected -1/EINVAL: %s" % l)
    # ---- topology diff through XML file and buffer (same export callbacks, diff entry points) ----
    for l in r["other"]:
        if l.startswith("DIFF "):
            want = "export_file=0 export_buffer=0 filebuf_same=1 load_file=0 same=1 ref=1 load_buffer=0 same=1 ref=1 apply=0 name_ok=1 load_missing=-1"
            m = re.match(r"DIFF build rc=0 n=(\d+) (.*)$", l)
            if not m or int(m.group(1)) < 2 or m.group(2).strip() != want:
                v.add("diff-xml-roundtrip", "diff export/load through XML: got '%s', expected '... %s'" % (l, want))
    # ---- userdata transcript ----
    if r["rt"] and kv(r["rt"]).get("nd") == "1":
        # pass-through mode: the callback receives "base64:<name>" / "normal-anon" and the element content as stored
        import base64 as _b64
        exp_ud = [(gp, (b"base64" if b64 == "1" else b"normal") + ((b":" + name) if name is not None else b"-anon"), ln,
                   _b64.b64encode(data) if b64 == "1" else data, b64) for gp, name, ln, data, b64 in exp_ud]
    got = []
    for l in r["UI"]:
        d = kv(l)
        got.append((d["gp"], hexbytes(d["name"]), int(d["len"]), hexbytes(d["bytes"]), d["nul"]))
    if len(got) != len(exp_ud):
        v.add("userdata-count" + (":plain:" + cls_tag(mk) if mk else ""), "import callback called %d times, export delivered %d records" % (len(got), len(exp_ud)))
    for e, g in zip(exp_ud, got):
        if e[0] != g[0] and ver == "v3":
            v.add("userdata-object", "userdata delivered to object gp=%s instead of gp=%s" % (g[0], e[0]))
        if e[1] != g[1]:
            v.add("userdata-name", "userdata name %r imported as %r" % (e[1], g[1]))
        if e[2] != g[2] or e[3] != g[3]:
            v.add("userdata-bytes:" + ("base64" if e[4] == "1" else "plain:" + cls_tag(content_classes(e[3]))), "userdata (len %d, %s) imported as (len %d, %s)" % (e[2], e[3][:40].hex(), g[2], (g[3] or b"")[:40].hex()))
        if g[4] != "1":
            v.add("userdata-no-nul:" + ("base64" if e[4] == "1" else "plain"), "import callback buffer is not followed by a NUL byte (documented in export.h)")
    # ---- dumps ----
    A, B = obj_records(r["A"]), obj_records(r["B"])
    ta, tb = kv(r["A"][0]), kv(r["B"][0])
    for f in ("acpu", "anode") + (("depth", "nobj") if ver == "v3" else ("nobj",)):
        if ta.get(f) != tb.get(f):
            v.add("topology:" + f, "topology %s %s reloaded as %s" % (f, ta.get(f), tb.get(f)))
    if len(A) != len(B):
        v.add("object-count", "%d objects reloaded as %d" % (len(A), len(B)))
        return v
    fields = FULL_FIELDS if ver == "v3" else TREE_FIELDS
    # total_memory is derived: hwloc recomputes it at load.  Compare the reloaded value with the value recomputed from the
    # original's tree (public insert calls can leave a stale total in the original: not an XML matter, counted separately)
    tm = [int(a["lm"]) for a in A]
    for i in range(len(A) - 1, 0, -1):
        if A[i]["par"] not in ("-", "?"):
            tm[int(A[i]["par"])] += tm[i]
    for i, a in enumerate(A):
        if int(a["tm"]) != tm[i]:
            v.stale_tm += 1
            a["tm"] = str(tm[i])
    # group.depth is derived too (rank of the object's level among the Group levels; not exported, recomputed at load);
    # restrict can leave it stale in the original: compare with the value recomputed from the original's levels
    glev = sorted(int(l.split(" ")[1]) for l in r["A"] if l.startswith("L ") and l.split(" ")[2] == "13" and int(l.split(" ")[1]) >= 0)
    for a in A:
        if a["ty"] == "13" and a.get("at", "-").startswith("gdepth:") and int(a["dp"]) in glev:
            want = "gdepth:%d" % glev.index(int(a["dp"]))
            cur = a["at"].split(",")[0]
            if cur != want:
                v.stale_tm += 1
                a["at"] = want + a["at"][len(cur):]
    for a, b in zip(A, B):
        for f in fields:
            if a.get(f) != b.get(f):
                if f == "at" and ver == "v3":
                    sa, sb = a[f].split(","), b[f].split(",")
                    diff = [x.split(":")[0] for x, y in zip(sa, sb) if x != y] or ["len"]
                    v.add("obj-attr:ty%s:%s" % (a["ty"], "+".join(diff[:3])), "object gp=%s type %s attributes %s reloaded as %s" % (a["gp"], a["ty"], a[f], b[f]))
                elif f == "ccs" and a["ty"] in ("14", "15") and b.get("par") not in ("-", "?", None) and B[int(b["par"])].get("ccs") == b.get("ccs") \
                        and A[int(a["par"])].get("ccs") != a.get("ccs"):
                    # the original's memory object does not carry its parent's complete_cpuset (offline CPUs); the import copies the parent's
                    v.add("obj-field:ccs:memory-child-differs-from-parent-in-original", "object gp=%s type %s: complete_cpuset %s (parent has %s) reloaded as %s" % (a.get("gp"), a["ty"], a.get(f), A[int(a["par"])].get("ccs"), b.get(f)))
                else:
                    v.add("obj-field:" + f, "object gp=%s type %s: %s=%s reloaded as %s" % (a.get("gp"), a["ty"], f, a.get(f), b.get(f)))
        if ver != "v3":
            continue
        for f, label in (("nm", "name"), ("st", "subtype")):
            ea = filt(v, pct_decode(a[f]))
            gb = pct_decode(b[f])
            if ea != gb:
                cls = "empty-to-null" if ea == b"" and gb is None else "value"
                v.add("obj-%s:%s" % (label, cls), "object gp=%s %s %r (filtered %r) reloaded as %r" % (a["gp"], label, pct_decode(a[f]), ea, gb))
        ia = [(filt(v, n), filt(v, val)) for n, val in parse_infos(a["inf"])]
        ib = parse_infos(b["inf"])
        if ia != ib:
            cls = "value"
            if len(ia) != len(ib):
                cls = "count"
                if [x for x in ia if x[0] != b"" and x[1] != b""] == ib or [x for x in ia if x[1] != b""] == ib or [x for x in ia if x[0] != b""] == ib:
                    cls = "empty-dropped"
            v.add("obj-infos:" + cls, "object gp=%s infos %r reloaded as %r" % (a["gp"], ia[:6], ib[:6]))
        # userdata presence
    if ver != "v3":
        return v
    # ---- extras ----
    def group(lines):
        g = {}
        for l in lines:
            g.setdefault(l.split(" ", 1)[0], []).append(l)
        return g
    ga, gb = group(r["AX"]), group(r["BX"])
    tia = [(filt(v, hexbytes(l.split(" ")[2])), filt(v, hexbytes(l.split(" ")[3]))) for l in ga.get("TI", [])]
    tib = [(hexbytes(l.split(" ")[2]), hexbytes(l.split(" ")[3])) for l in gb.get("TI", [])]
    if tia != tib:
        cls = "empty-dropped" if [x for x in tia if x[0] != b"" and x[1] != b""] == tib or [x for x in tia if x[1] != b""] == tib else "value"
        v.add("topology-infos:" + cls, "topology infos %r reloaded as %r" % (tia[:8], tib[:8]))
    for tag, label in (("PL", "pci-linkspeed"), ("DI", "distances"), ("MA", "memattr"), ("MAT", "memattr-values"), ("CK", "cpukinds")):
        la, lb = ga.get(tag, []), gb.get(tag, [])
        if tag == "CK":
            # infos go through the export filter
            def norm(l, fa):
                d = kv(l)
                inf = []
                if d["inf"] != "-":
                    for p in d["inf"].split(";"):
                        n, val = p.split("=")
                        n, val = hexbytes(n), hexbytes(val)
                        inf.append((filt(v, n), filt(v, val)) if fa else (n, val))
                return (d["set"], d["eff"], d["forced"], inf)
            la, lb = [norm(l, True) for l in la], [norm(l, False) for l in lb]
        if tag in ("DI", "MA"):
            def normn(l, fa):
                d = kv(l)
                nm = hexbytes(d["name"])
                if fa:
                    nm = filt(v, nm)      # distances / memattr names go through the export filter since /repo 3735d4f
                return (nm,) + tuple(sorted((k, x) for k, x in d.items() if k != "name"))
            la, lb = [normn(l, True) for l in la], [normn(l, False) for l in lb]
            if tag == "DI":
                # the export writes homogeneous matrices before heterogeneous ones: the order of the list is not part of the statement
                la, lb = sorted(la, key=repr), sorted(lb, key=repr)
        if la != lb:
            cls = "count" if len(la) != len(lb) else "value"
            first = next((i for i, (x, y) in enumerate(zip(la, lb)) if x != y), min(len(la), len(lb)))
            if tag == "MAT" and first < len(la) and isinstance(la[first], str):
                locs = [t.split("=")[0] for t in la[first].split(" ") if t[:1] in "co" and "=" in t]
                if len(locs) != len(set(locs)):
                    cls = "duplicate-initiators-in-original"      # two initiators of one target became equal (restrict shrank their cpusets)
            v.add("%s:%s" % (label, cls), "%s listing differs after reload (entry %d): %r -> %r" % (label, first, (la[first] if first < len(la) else None), (lb[first] if first < len(lb) else None)))
    if flags & 8:
        sa, sb = kv(ga["SU"][0]), kv(gb["SU"][0])
        for f in ("disc", "cpu", "mem"):
            if sa[f] != sb[f]:
                v.add("support:" + f, "support bits %s=%s imported (IMPORT_SUPPORT) as %s" % (f, sa[f], sb[f]))
    # ---- fixpoint ----
    x2 = r["X2"] or ""
    if " same=1" not in x2:
        ok = False
        if x2.startswith("X2 rc=0") and not (flags & 8):
            # without IMPORT_SUPPORT the reloaded topology carries the XML backend's own support bits: compare modulo <support> elements
            x1b, x2b = hexbytes(kv(r["X1"])["hex"]), hexbytes(kv(x2)["hex"])
            strip = lambda b: re.sub(rb"[ \t]*<support [^>]*/>\n", b"", b)
            ok = strip(x1b) == strip(x2b)
        if not ok:
            v.add("second-export-differs" + (":after-userdata-loss" if any(k.startswith("userdata-bytes:plain") or k.startswith("userdata-count:plain") for k, _ in v.items)
                                             else ":after-ccs-normalisation" if any(k.startswith("obj-field:ccs:memory-child") for k, _ in v.items)
                                             else ":after-duplicate-initiators" if any(k.startswith("memattr-values:duplicate-initiators") for k, _ in v.items) else ""), "exporting the reloaded topology does not give the same bytes: %s" % first_diff(r))
    return v


def first_diff(r):
    try:
        x1b, x2b = hexbytes(kv(r["X1"])["hex"]), hexbytes(kv(r["X2"])["hex"])
        l1, l2 = x1b.split(b"\n"), x2b.split(b"\n")
        for a, b in zip(l1, l2):
            if a != b:
                return "%r vs %r" % (a[:200], b[:200])
        return "line count %d vs %d" % (len(l1), len(l2))
    except Exception as e:    # noqa
        return "?"


# --------------------------------------------------------------------------
# the model side
# --------------------------------------------------------------------------

def model_bytes(drv, results):
    """results: list of parsed rts.  Returns list of answers ("<hex>" | "overflow"), or (None, error)."""
    chunks = [results[i:i + 8] for i in range(0, len(results), 8)]

    def one(chunk):
        inp = []
        for r in chunk:
            inp += r["M"]
        rc, out, err = C.sh([drv], input=("\n".join(inp) + "\n").encode(), timeout=900)
        lines = [l for l in out.decode(errors="replace").split("\n") if l.startswith("XM ")]
        if rc != 0 or len(lines) != len(chunk):
            return None, "driver rc=%d produced %d of %d answers: %s" % (rc, len(lines), len(chunk), err.decode(errors="replace")[-500:])
        return [l[3:] for l in lines], None
    res = []
    with cf.ThreadPoolExecutor(max_workers=C.NCPU) as ex:
        for lines, e in ex.map(one, chunks):
            if lines is None:
                return None, e
            res += lines
    return res, None


def b64_stream(run, exe, drv):
    """Direct differential test of the two base64 routines (valid and malformed inputs, every target size around the need)."""
    rng = run.rng
    lines = []
    n = 400 if run.tier == "quick" else 20000
    alpha = b"ABCDEFGHIJKLMNOPQRSTUVWXYZabcdefghijklmnopqrstuvwxyz0123456789+/"
    for ln in range(0, 14):
        data = bytes(rng.randint(0, 255) for _ in range(ln))
        need = 4 * ((ln + 2) // 3)
        for ts in sorted({0, 1, need - 1, need, need + 1, need + 2, 64} - {-1}):
            lines.append("b64e %s %d" % (G.hx(data), ts))
    fixed = [b"", b"=", b"A", b"A=", b"A===", b"AA", b"AA=", b"AA==", b"AA==A", b"AA== ", b"AA = =", b"AA=A", b"AAA", b"AAA=", b"AAA= ", b"AAA=A", b"AAA==", b"AAAA", b"AAAA=",
             b"AB==", b"AAB=", b"AQ==", b" A Q = = ", b"AQ==\n", b"AQ=\t=", b"A\x01AA", b"AAAA\xff", b"AA-A", b"AAAAA", b"AAAAAA==", b"AAAAAAA=", b"////", b"++++", b"/w==", b"//8="]
    for f in fixed:
        for ts in (0, 1, 2, 3, 4, 5, 8):
            lines.append("b64d %s %d" % (G.hx(f), ts))
    for _ in range(n):
        if rng.random() < 0.5:
            ln = rng.randint(0, 40)
            data = bytes(rng.randint(0, 255) for _ in range(ln))
            lines.append("b64e %s %d" % (G.hx(data), rng.choice([4 * ((ln + 2) // 3) + 1, rng.randint(0, 70)])))
        else:
            ln = rng.randint(0, 24)
            r = rng.random()
            if r < 0.5:
                import base64
                raw = bytes(rng.randint(0, 255) for _ in range(ln))
                txt = bytearray(base64.b64encode(raw))
                for _ in range(rng.choice([0, 0, 1, 2])):
                    if txt:
                        k = rng.randrange(len(txt))
                        op = rng.random()
                        if op < 0.3:
                            txt.insert(k, rng.choice(b" \t\n\r\x0b\x0c"))
                        elif op < 0.6:
                            txt[k] = rng.choice(alpha + b"=-_\x80")
                        else:
                            del txt[k]
                want = ln
            else:
                txt = bytearray(rng.choice(alpha + b"= \n") for _ in range(ln))
                want = (ln * 3) // 4
            txt = bytes(c for c in txt if c != 0)
            lines.append("b64d %s %d" % (G.hx(txt), rng.choice([want, want + 1, want + 1, want + 2, rng.randint(0, 30)])))
    inp = ("\n".join(lines) + "\n").encode()
    rc1, o1, e1 = C.sh([exe], input=inp, env=C.run_env(), timeout=600)
    rc2, o2, e2 = C.sh([drv], input=inp, timeout=600)
    l1 = [l for l in o1.decode(errors="replace").split("\n") if l.startswith("B64")]
    l2 = [l for l in o2.decode(errors="replace").split("\n") if l.startswith("B64")]
    if rc1 != 0:
        run.violation("crash:base64", "base64 harness died rc=%d: %s" % (rc1, e1.decode(errors="replace")[-1500:]), "\n".join(lines[:50]))
    nd = 0
    for i, (a, b) in enumerate(zip(l1, l2)):
        ok = a == b
        run.count("b64|%s|%s" % (lines[i][:80], a[:60]), nontrivial="rc=-1" not in a, kind="base64:" + ("accepted" if "rc=-1" not in a else "rejected"))
        if not ok:
            nd += 1
            run.violation("correspondence:base64:%s" % lines[i].split(" ")[0], "base64 model and C differ on '%s': C '%s' model '%s'" % (lines[i][:120], a[:120], b[:120]),
                          "%s\nC:     %s\nmodel: %s" % (lines[i], a, b), no_input=True)
        # spec on the C output: decode(encode x) = x
        if ok:
            run.cov["traces_validated_against_impl"] += 1
    if len(l1) != len(lines) or len(l2) != len(lines):
        run.violation("correspondence:base64:count", "base64 stream: %d inputs, %d C answers, %d model answers" % (len(lines), len(l1), len(l2)), "", no_input=True)
    # spec evaluation on the implementation: every accepted encoding decodes back (C both ways)
    enc = [(lines[i], a) for i, a in enumerate(l1) if lines[i].startswith("b64e") and "rc=-1" not in a]
    back = []
    for ln, a in enc:
        h = kv(a)["out"][1:-2]          # drop the NUL
        src = ln.split(" ")[1]
        back.append(("b64d s%s %d" % (h, len(src[1:]) // 2 + 1), src))
    if back:
        rc3, o3, e3 = C.sh([exe], input=("\n".join(b for b, _ in back) + "\n").encode(), env=C.run_env(), timeout=600)
        l3 = [l for l in o3.decode(errors="replace").split("\n") if l.startswith("B64D")]
        for (cmd, src), a in zip(back, l3):
            if kv(a)["out"] != src:
                run.violation("base64-roundtrip", "hwloc_decode_from_base64(hwloc_encode_to_base64(x)) != x for x=%s: %s" % (src[:80], a[:100]), cmd)
            run.bump("base64:c-roundtrip")


# --------------------------------------------------------------------------
# the check
# --------------------------------------------------------------------------

def replay_text(case, pairing, mode, ver, extra=""):
    return ("pairing: %s %s\nmode: %s\nver: %s\n" % (pairing[0], pairing[1], mode, ver)) + "\n".join(["case replay"] + case.cfg + ["load"] + case.anns + ["rt %s %s" % (mode, ver), "end"]) + "\n--- info\n" + extra


def execute(exe, jobs, tmpdir):
    """jobs: list of (case, pairing, mode, ver).  Groups by pairing into shards, runs in parallel.
    Returns list of parsed results aligned with jobs (None if missing)."""
    by = {}
    for i, j in enumerate(jobs):
        by.setdefault(j[1], []).append(i)
    shards = []
    for p, idxs in by.items():
        for lo in range(0, len(idxs), 12):
            shards.append((p, idxs[lo:lo + 12]))
    out = [None] * len(jobs)
    errs = {}

    def one(sh):
        p, idxs = sh
        scr = "".join(jobs[i][0].script(jobs[i][2], jobs[i][3], tmpdir, i) for i in idxs)
        rc, txt, err = run_shard(exe, scr, p)
        return sh, rc, txt, err

    with cf.ThreadPoolExecutor(max_workers=C.NCPU) as ex:
        for (p, idxs), rc, txt, err in ex.map(one, shards):
            rs = parse_output(txt)
            for k, i in enumerate(idxs):
                if k < len(rs):
                    out[i] = rs[k]
                    out[i]["stderr"] = ""
                    if rs[k]["X1"] and rs[k]["X1"].startswith("X1 rc=0") and " hex=-" not in rs[k]["X1"]:
                        rs[k]["textspec"] = text_index_spec(hexbytes(kv(rs[k]["X1"])["hex"]))
                    # memory: the exported bytes are needed only for the model comparison (nolibxml export) or when the second export differs
                    if p[0] == "1" and rs[k]["X1"] and rs[k]["X2"] and " same=1" in rs[k]["X2"] and not rs[k]["XO"]:
                        rs[k]["X1"] = rs[k]["X1"].split(" hex=")[0] + " hex=-"
                    if p[0] == "1":
                        rs[k]["M"] = []
            if rc != 0:
                errs[idxs[0]] = "harness rc=%d: %s" % (rc, err[-2000:])
        # a child that died: run that case alone to attribute the sanitizer report to it
        bad = [i for i, r in enumerate(out) if r is not None and r["X"] != "X ok"]

        def again(i):
            rc, txt, err = run_shard(exe, jobs[i][0].script(jobs[i][2], jobs[i][3], tmpdir, i), jobs[i][1])
            return i, err
        for i, err in ex.map(again, bad):
            out[i]["stderr"] = err[-20000:]
    return out, errs


def norm_b_side(r):
    """What must agree across backend pairings: object records + extras of the reloaded topology."""
    objs = []
    for l in r["B"]:
        if l.startswith("O "):
            objs.append(l)
    return objs, [l for l in r["BX"] if not l.startswith("SU")]


def check(run, replay=None):
    proof = C.prove("C05")
    exe = C.build_harness("hwv_xmlrt", ["hwv_xmlrt.c"], deps=DEPS)
    tmpdir = tempfile.mkdtemp(prefix="hwv-c05-")
    try:
        drv = C.extract("C05", "drv_c05.ml", prelude=PRELUDE)
        # private copy: a concurrent run that re-extracts after a source change removes the cached executable
        shutil.copy(drv, os.path.join(tmpdir, "drv_c05"))
        drv = os.path.join(tmpdir, "drv_c05")
    except Exception as e:      # model does not build: correspondence cannot run, the proof failure is reported by finish()
        drv = None
        run.cov["model_driver_error"] = str(e)[-500:]
    quick = run.tier == "quick"
    rng = run.rng
    unsafe_total = 0
    try:
        with S.Scratch() as scratch:
            jobs = []
            if replay:
                txt = open(replay).read().split("---\n", 1)[1]
                head, rest = txt.split("case replay\n", 1)
                body = rest.split("\n--- info")[0].split("\n")
                p = re.search(r"pairing: (\d) (\d)", head)
                mode = re.search(r"mode: (\S+)", head).group(1)
                ver = re.search(r"ver: (\S+)", head).group(1)
                cfg = [l for l in body if l and not l.startswith("ann ") and not l.startswith("guards ") and not l.startswith("diffrt ") and l not in ("load", "end") and not l.startswith("rt ")]
                anns = [l for l in body if l.startswith("ann ") or l.startswith("guards ") or l.startswith("diffrt ")]
                jobs.append((Case("replay", "replay", cfg, anns), (p.group(1), p.group(2)), mode, ver))
            else:
                cases = make_cases(run, scratch) + snapshot_cases(run, scratch) + plain_userdata_cases(run)
                for c, plan in feature_cases(run, scratch) + length_sweep_cases(exe, tmpdir):
                    for p, mode, ver in plan:
                        jobs.append((c, p, mode, ver))
                for ci, c in enumerate(cases):
                    if c.kind == "udplain":
                        for p in PAIRINGS:
                            for mode in ("buffer", "file"):
                                jobs.append((c, p, mode, "v3"))
                    elif quick and c.kind == "linuxio":
                        jobs.append((c, PAIRINGS[ci % 4], "buffer" if ci % 3 else "file", "v3"))
                    elif quick and c.kind != "corpus":
                        ps = rng.sample(PAIRINGS, 2)
                        if ("0", "0") not in ps and rng.random() < 0.5:
                            ps[0] = ("0", "0")
                        for p in ps:
                            m = rng.choice(["buffer", "buffer", "file"])
                            jobs.append((c, p, m + "+dirty" if "dirty" in c.classes else m, "v3"))
                        if rng.random() < 0.3:
                            jobs.append((c, rng.choice(PAIRINGS), "buffer", "v2"))
                    else:
                        for p in PAIRINGS:
                            for mode in ("buffer", "file"):
                                jobs.append((c, p, mode + "+dirty" if "dirty" in c.classes else mode, "v3"))
                            jobs.append((c, p, rng.choice(["buffer", "file"]), "v2"))
            results, errs = execute(exe, jobs, tmpdir)
            # ---- judge each round trip ----
            bsides = {}
            to_model = []
            nshrunk = [0]
            for i, (c, p, mode, ver) in enumerate(jobs):
                r = results[i]
                kind = "%s:%s>%s:%s:%s" % (c.kind, "libxml" if p[0] == "1" else "nolibxml", "libxml" if p[1] == "1" else "nolibxml", mode, ver)
                if r is None:
                    run.violation("not-run:%s" % c.kind, "case did not run (harness died): %s" % errs, replay_text(c, p, mode, ver), no_input=True)
                    continue
                fl = int(re.search(r"flags (\d+)", " ".join(c.cfg)).group(1)) if re.search(r"flags (\d+)", " ".join(c.cfg)) else 0
                v = judge_rt(r, ver, fl)
                unsafe_total += v.unsafe
                if v.skipped:
                    run.bump("skipped:" + v.skipped)
                if v.stale_tm:
                    run.bump("original-with-stale-total_memory")
                loaded = bool(r["load"]) and "rc=0" in r["load"]
                run.count("%s|%s|%s" % (c.name, kind, ";".join(k for k, _ in v.items)), nontrivial=loaded and r["endrt"],
                          sample={"case": c.name[:100], "pairing": p, "mode": mode, "ver": ver, "verdict": [k for k, _ in v.items] or "round-trip ok"}, kind=kind)
                for cl in c.classes:
                    run.bump("class:" + cl)
                for l in r["ann"]:
                    if "rc=-1" in l or "rc=-9" in l:
                        run.bump("ann:not-applicable")
                    else:
                        run.bump("ann:applied")
                if v.unsafe:
                    run.bump("strings-losing-characters-by-export-filter", v.unsafe)
                for key, what in v.items:
                    ptag = "%s%s" % ("L" if p[0] == "1" else "N", "L" if p[1] == "1" else "N")
                    full = "%s:%s" % (key, ptag)
                    if not any(re.fullmatch(k["key"], full) for k in run.known) and not any(x["key"] == full for x in run.violations) and c.anns and nshrunk[0] < 6:
                        # new finding: minimise the annotation list (greedy, one line at a time) while the same key is reported
                        nshrunk[0] += 1
                        budget = [60]

                        def still(anns, c=c, p=p, mode=mode, ver=ver, key=key, fl=fl):
                            if budget[0] <= 0:
                                return False
                            budget[0] -= 1
                            cc = Case(c.name, c.kind, c.cfg, anns)
                            rs, _ = execute(exe, [(cc, p, mode, ver)], tmpdir)
                            return rs[0] is not None and any(k == key for k, _ in judge_rt(rs[0], ver, fl).items)
                        small = G.shrink_lines(c.anns, lambda l: False, still)
                        c = Case(c.name + " (shrunk)", c.kind, c.cfg, small, c.classes)
                    run.violation("%s:%s" % (key, ptag), "%s [%s, export=%s import=%s, %s, %s]" % (what, c.name[:80], "libxml" if p[0] == "1" else "nolibxml", "libxml" if p[1] == "1" else "nolibxml", mode, ver),
                                  replay_text(c, p, mode, ver, what + "\n" + r.get("stderr", "")))
                if c.expect and loaded and ver == "v3" and r["A"]:
                    want = open(c.expect, "rb").read()
                    nobj_file = len(re.findall(rb"<object ", want))
                    nobj = int(kv(r["A"][0]).get("nobj", "0"))
                    run.bump("corpus-xml-reexport-clause")
                    if nobj != nobj_file:
                        v.add("corpus-xml-objects-dropped", "loading %s gives %d objects, the file has %d <object> elements" % (os.path.basename(c.expect), nobj, nobj_file))
                    if p[0] == "0" and r["X1"] and r["X1"].startswith("X1 rc=0"):
                        got = hexbytes(kv(r["X1"])["hex"]).rstrip(b"\0")
                        if got != want:
                            lg, lw = got.split(b"\n"), want.split(b"\n")
                            d = next(((x, y) for x, y in zip(lg, lw) if x != y), (b"<%d lines>" % len(lg), b"<%d lines>" % len(lw)))
                            v.add("corpus-xml-reexport-differs", "re-export of %s is not the file: %r vs %r" % (os.path.basename(c.expect), d[0][:200], d[1][:200]))
                    for key, what in v.items:
                        if key.startswith("corpus-xml-"):
                            run.violation("%s:%s%s" % (key, "L" if p[0] == "1" else "N", "L" if p[1] == "1" else "N"), "%s [%s]" % (what, c.name), replay_text(c, p, mode, ver, what))
                if not v.items and loaded and r["endrt"]:
                    run.cov["traces_validated_against_impl"] += 1
                if loaded and r["B"] and ver == "v3":
                    bsides.setdefault((id(c), mode), []).append((p, norm_b_side(r), c))
                if loaded and p[0] == "0" and r["M"] and r["M"][-1] == "ME" and ((r["X1"] and r["X1"].startswith("X1 rc=0")) or not r["X1"]):
                    to_model.append(i)
            # ---- cross-backend equivalence on the reloaded side ----
            for (cid, mode), lst in bsides.items():
                ref = lst[0]
                for other in lst[1:]:
                    if other[1] != ref[1]:
                        a, b = ref[1], other[1]
                        d = next(((x, y) for x, y in zip(a[0] + a[1], b[0] + b[1]) if x != y), ("len", "len"))
                        fld = "?"
                        if d[0].startswith("O "):
                            ka, kb = kv(d[0]), kv(d[1])
                            fld = ",".join(f for f in ka if ka.get(f) != kb.get(f))
                        else:
                            fld = d[0].split(" ")[0]
                        run.violation("cross-backend:%s" % fld, "reloaded topologies differ between pairings %s and %s on %s: %s" % (ref[0], other[0], ref[2].name[:80], fld),
                                      replay_text(ref[2], other[0], mode, "v3", "%s\n%s" % (d[0][:600], d[1][:600])))
                    run.bump("cross-backend-comparisons")
            # ---- model correspondence: nolibxml export bytes ----
            if drv and to_model:
                hexes, e = model_bytes(drv, [results[i] for i in to_model])
                if hexes is None:
                    run.violation("correspondence:driver", "model driver failed: %s" % e, "", no_input=True)
                else:
                    nok = 0
                    for i, hm in zip(to_model, hexes):
                        c, p, mode, ver = jobs[i]
                        if not results[i]["X1"]:
                            # the C export did not return: the model must predict exactly that (sprintf past the 255-byte line buffer)
                            ovf = "stack-buffer-overflow" in results[i].get("stderr", "")
                            if (hm == "overflow") != ovf:
                                run.violation("correspondence:export-overflow", "model says %s, C export %s on %s" % (hm[:20], "overflowed its line buffer" if ovf else "died otherwise", c.name[:80]),
                                              replay_text(c, p, mode, ver, results[i].get("stderr", "")[-1500:]), no_input=True)
                            else:
                                nok += 1
                                run.bump("model-predicts-export-overflow")
                            continue
                        hc = kv(results[i]["X1"])["hex"][1:]
                        if mode.startswith("buffer") and hc.endswith("00"):
                            hc = hc[:-2]          # the buffer API counts the ending NUL
                        if hm != hc:
                            bm, bc = bytes.fromhex(hm) if re.fullmatch(r"[0-9a-f]*", hm) else hm.encode(), bytes.fromhex(hc)
                            lm, lc = bm.split(b"\n"), bc.split(b"\n")
                            d = next(((x, y) for x, y in zip(lm, lc) if x != y), (b"<len %d>" % len(lm), b"<len %d>" % len(lc)))
                            run.violation("correspondence:export-bytes:%s" % ver, "model export bytes differ from hwloc's nolibxml export on %s (%s): model %r, C %r" % (c.name[:80], ver, d[0][:160], d[1][:160]),
                                          replay_text(c, p, mode, ver, "model: %r\nC:     %r" % (d[0][:400], d[1][:400])), no_input=True)
                        else:
                            nok += 1
                    run.cov["export_bytes_model_equal"] = nok
                    run.cov["export_bytes_compared"] = len(to_model)
            if drv and not replay:
                b64_stream(run, exe, drv)
    finally:
        shutil.rmtree(tmpdir, ignore_errors=True)
    run.cov["rule"] = ("one evaluation = one (topology, annotations) x backend pairing x {buffer,file} x {v3,v2} round trip; non-trivial = source loaded and the round trip ran to the second export; "
                       "distinct = distinct (case, pairing, mode, version, verdict)")
    run.cov["strings_outside_xml_safe_string"] = unsafe_total
    run.assumptions += ["names, subtypes and info strings are compared after hwloc__xml_export_safestrdup's documented filter (bytes outside HWLOC_XML_CHAR_VALID are dropped by design); %d such strings occurred" % unsafe_total,
                        "without HWLOC_TOPOLOGY_FLAG_IMPORT_SUPPORT the second export is compared modulo <support> elements (the reloaded topology carries the XML backend's own support bits)",
                        "libxml2 is not modelled: clauses involving it are decided by differential execution only",
                        "pci link speed is a float printed with %f: treated as an opaque string by the model"]
    return run.finish(proof, trusted=["harness/hwv_xmlrt.c, harness/hwv_dump.h (dump through public fields/accessors; model input lines read from private structures for cpukind forced_efficiency / memattr internals)",
                                      "gen/xmlrt_gen.py safe_filter = HWLOC_XML_CHAR_VALID re-stated in Python (cross-checked by the model correspondence on exported bytes)",
                                      "libxml2 (external library)"])
