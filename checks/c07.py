"""C07: synthetic descriptions -- safe parsing, faithful build, export/import round trip.

Tie/search: every description is (1) parsed by the extracted Coq model of
hwloc_backend_synthetic_init (bounded level[] array, bounded loops[] array,
indeterminate arity, checked strings), (2) given to the real library
(ASan/UBSan/LSan, the string in an exactly-sized malloc block): accept/reject,
and for small accepted ones the loaded objects (type, os_index, size, PU set;
NUMA nodes with memory / memory-side cache / locality) are compared with the
objects the model's level structure denotes.  On the C side every loaded
topology is exported with the 16 flag words and every buffer length 0..n+2
(exact-size buffers), re-imported, compared and exported again."""
import concurrent.futures as cf
import os
import re

from hv import common as C
from gen import synthetic_gen as G

FAULT_KEYS = {
    "level-oob": "numa-memmove-126-levels",
    "loops-oob": "intlv-loops-overflow",
    "literal-oob": "type-match-byte-0xe0",
    "uninit-arity": "intlv-type-lookup-uninit-arity",
    "div-zero": "intlv-width-wraparound",
    "assert": "intlv-width-wraparound",
}
FAULT_WHAT = {
    "level-oob": "implicit NUMA-level insertion memmove()s count instead of count-1 elements: writes level[128] (heap overflow) for 126 levels below Machine without NUMA",
    "loops-oob": "x*y interleaving: more loops parsed than counted inside string_length (strtol skips the blank ending the index string): heap overflow of loops[]",
    "literal-oob": "hwloc__type_match: byte 0xE0 equals '\\0'+'A'-'a' as signed char, matching continues past the terminator of the type literal (global buffer overflow)",
    "uninit-arity": "type-based interleaving looks up level[i].arity of the last level before it is assigned (malloc'ed backend data): behaviour depends on indeterminate memory / scans past level[127]",
    "div-zero": "type-based interleaving divides by a level totalwidth that wrapped to 0 modulo 2^64 (SIGFPE) or trips assert(step)/assert(nb)",
    "assert": "type-based interleaving divides by a level totalwidth that wrapped to 0 modulo 2^64 (SIGFPE) or trips assert(step)/assert(nb)",
}
FILL = {"zero": "malloc_fill_byte=0:max_malloc_fill_size=100000000", "be": "malloc_fill_byte=190:max_malloc_fill_size=100000000"}


def _sh(cmd, input=None, env=None, timeout=600, as_gb=None, cpu_s=None):
    """subprocess with resource limits: RLIMIT_AS for the model driver (an ASan binary cannot take it), RLIMIT_CPU for
    both, so that a runaway case ends its own process instead of the machine's memory."""
    import resource
    import subprocess

    def lim():
        if as_gb:
            resource.setrlimit(resource.RLIMIT_AS, (int(as_gb * 2 ** 30), int(as_gb * 2 ** 30)))
        if cpu_s:
            resource.setrlimit(resource.RLIMIT_CPU, (cpu_s, cpu_s + 5))
    try:
        p = subprocess.run(cmd, input=input, env=env, timeout=timeout, stdout=subprocess.PIPE, stderr=subprocess.PIPE, preexec_fn=lim)
        return p.returncode, p.stdout, p.stderr
    except subprocess.TimeoutExpired as e:
        return 124, e.stdout or b"", (e.stderr or b"") + b"\nTIMEOUT"


RESOURCE_RCS = (124, -24, -9)     # wall timeout, SIGXCPU, SIGKILL (rlimit hard / OOM)


FW = {}     # description -> filter word of the harness ("lDN10.6S1": library defaults, types 10 and 6 KEEP_NONE, type 1 KEEP_STRUCTURE)


def hx(desc):
    return desc.encode("latin1").hex()


def prebuild():
    C.build_harness("hwv_synthetic", ["hwv_synthetic.c"])
    C.extract("C07", "drv_c07.ml", prelude=["hvnum.ml"])


def parse_out(txt):
    """CASE-delimited output -> {id: dict}"""
    res, cur = {}, None
    for line in txt.split("\n"):
        if line.startswith("CASE "):
            cur = {"set": None, "info": None, "loaded": False, "objs": [], "L": [], "rt": [], "end": False, "other": []}
            res[line[5:]] = cur
        elif cur is None or not line:
            continue
        elif line.startswith("set "):
            cur["set"] = line[4:]
        elif line.startswith("info "):
            cur["info"] = dict(kv.split("=") for kv in line[5:].split())
        elif line == "loaded":
            cur["loaded"] = True
        elif line[:2] in ("O ", "M "):
            cur["objs"].append(line)
        elif line.startswith("L "):
            cur["L"].append(line)
        elif line.startswith("rt "):
            cur["rt"].append(line)
        elif line.startswith("END "):
            cur["end"] = True
        else:
            cur["other"].append(line)
    return res


def run_model(drv, cases, fixed=False):
    """cases: list of (id, desc)"""
    res = {}
    shard = 64

    def one(lo):
        part = cases[lo:lo + shard]
        inp = "".join("%s %s\n" % (i, hx(d)) for i, d in part)
        rc, out, err = _sh([drv] + (["--fixed"] if fixed else []), input=inp.encode(), timeout=900, as_gb=4, cpu_s=300)
        if rc != 0:
            # find the offending case(s): one process per case; a case that exhausts the limits alone is skipped
            outs = []
            for i, d in part:
                rc1, o1, e1 = _sh([drv] + (["--fixed"] if fixed else []), input=("%s %s\n" % (i, hx(d))).encode(), timeout=300, as_gb=4, cpu_s=120)
                outs.append(o1.decode(errors="replace") if rc1 == 0 else "CASE %s\nset skipped-resource-limit\n" % i)
            return 0, "".join(outs), ""
        return rc, out.decode(errors="replace"), err.decode(errors="replace")

    with cf.ThreadPoolExecutor(max_workers=C.NCPU) as ex:
        for rc, out, err in ex.map(one, range(0, len(cases), shard)):
            res.update(parse_out(out))
            if rc != 0:
                res.setdefault("__errors__", []).append(err[-500:])
    return res


def crash_sig(err):
    m = re.search(r"SUMMARY: \w+: ([\w-]+) \S*?([\w.-]+):(\d+) in (\w+)", err)
    if m:
        return "%s:%s" % (m.group(1), m.group(4))
    m = re.search(r"SUMMARY: \w+: ([\w-]+)", err)
    if m:
        return m.group(1)
    m = re.search(r"(\w+): Assertion", err)
    if m:
        return "assert:" + m.group(1)
    m = re.search(r"runtime error: ([a-z ]+)", err)
    if m:
        return "ubsan:" + m.group(1).strip().replace(" ", "-")
    return "exit"


def run_c(exe, items, fill=None, shard=48, args=(), long_limit=None):
    """items: list of (id, mode, desc).  A crash loses only the case being run: the rest of the shard is re-run."""
    env = C.run_env()
    if fill:
        env["ASAN_OPTIONS"] += ":" + FILL[fill]
    res = {}

    def one(lo):
        part = items[lo:lo + shard]
        out_all = {}
        while part:
            inp = "".join("%s %s %s\n" % (i, m, hx(d)) for i, m, d in part)
            rc, out, err = _sh([exe] + list(args), input=inp.encode(), env=env, timeout=long_limit or 600, cpu_s=long_limit or 240)
            r = parse_out(out.decode(errors="replace"))
            out_all.update(r)
            if rc == 0:
                break
            # the case that was running
            bad = None
            for k, (i, m, d) in enumerate(part):
                if str(i) not in r or not r[str(i)]["end"]:
                    bad = k
                    break
            if bad is None:
                out_all.setdefault("__errors__", []).append("rc=%d %s" % (rc, err.decode(errors="replace")[-800:]))
                break
            i = str(part[bad][0])
            out_all.setdefault(i, {"set": None, "info": None, "loaded": False, "objs": [], "L": [], "rt": [], "end": False, "other": []})
            if rc in RESOURCE_RCS:
                out_all[i]["resource"] = rc        # CPU / wall limit: re-run alone with a long limit before counting
            else:
                out_all[i]["crash"] = (rc, err.decode(errors="replace")[-3500:])
            part = part[bad + 1:]
        return out_all

    with cf.ThreadPoolExecutor(max_workers=C.NCPU) as ex:
        for r in ex.map(one, range(0, len(items), shard)):
            errs = r.pop("__errors__", None)
            res.update(r)
            if errs:
                res.setdefault("__errors__", []).extend(errs)
    if long_limit is None:
        # cases that hit a limit while the machine was shared: once more, alone, one at a time, with a long limit
        again = [(i, m, d) for i, m, d in items if "resource" in res.get(str(i), {})]
        for it in again[:20]:
            r = run_c(exe, [it], fill=fill, shard=1, args=args, long_limit=1200)
            r.pop("__errors__", None)
            res.update(r)
            if "resource" in res.get(str(it[0]), {}):
                res[str(it[0])]["timeout"] = True
    return res


def make_cases(run):
    rng = run.rng
    quick = run.tier == "quick"
    cases = []   # (kind, desc)
    cdir = os.path.join(C.VERIF, "corpus", "c07")
    if os.path.isdir(cdir):
        for fn in sorted(os.listdir(cdir)):
            for line in open(os.path.join(cdir, fn)):
                line = line.strip()
                if line and not line.startswith("#"):
                    cases.append(("corpus", bytes.fromhex(line.split()[-1]).decode("latin1")))
    cases += [("handmade", d) for d in G.HANDMADE]
    cases += [("boundary", d) for d in G.boundary_cases()]
    nvalid, nunt, nmut, narb = (800, 120, 420, 80) if quick else (17000, 2000, 9500, 1500)
    valid = []
    for _ in range(nvalid):
        valid.append(G.gen_valid(rng, maxpus=rng.choice([16, 64, 256, 512])))
    cases += [("valid", d) for d in valid]
    cases += [("untyped", G.gen_untyped(rng)) for _ in range(nunt)]
    cases += [("interleave-spec", d) for d in G.gen_interleave_spec(rng, 30 if quick else 400)]
    cases += [("level-indexes-spec", d) for d in G.gen_level_indexes_spec(rng, 150 if quick else 3000)]
    cases += [("units-spec", d) for d in G.gen_units_spec(rng, 1 if quick else 8)]
    cases += [("near-interleave", d) for d in G.gen_near_interleave(rng, 45 if quick else 600)]
    for d, fw in G.gen_attached_spec(rng, 120 if quick else 1500):
        FW[d] = fw
        cases.append(("attached-spec", d))
    pool = valid[:2000] + G.HANDMADE + G.boundary_cases()[:40]
    cases += [("mutated", G.mutate(rng, rng.choice(pool))) for _ in range(nmut)]
    cases += [("arbitrary", G.arbitrary(rng)) for _ in range(narb)]
    # NUL bytes cannot be inside a C string
    return [(k, d.replace("\x00", "")) for k, d in cases]


def loadable(m, limit):
    if m is None or m["set"] != "rc=0" or not m["info"]:
        return False
    inf = m["info"]
    if inf["sum"] == "big" or inf["maxidx"] == "big":
        return False
    if int(inf["sum"]) > limit or int(inf["maxidx"]) > 100000:
        return False
    if any(" type=15 " in l for l in m["L"]):      # MemCache as a normal level: aborts in hwloc__look_synthetic (finding)
        return False
    return m["loaded"]


def has_dup_indexes(objs):
    pus = [l.split()[2] for l in objs if l.startswith("O 4 ")]
    numas = [l.split()[1] for l in objs if l.startswith("M ")]
    return len(set(pus)) != len(pus) or len(set(numas)) != len(numas)


def replay_text(desc, extra=""):
    return "desc-hex: %s\ndesc: %r\n%s" % (hx(desc), desc, extra)


def judge(run, cases, model, cres, exe, drv, limit):
    uninit = []
    for idx, (kind, desc) in enumerate(cases):
        i = str(idx)
        m, c = model.get(i), cres.get(i)
        if m is None or m["set"] is None:
            run.violation("model-no-answer", "model driver gave no answer", replay_text(desc), no_input=True)
            continue
        if m["set"] == "skipped-resource-limit":
            run.bump("model-skipped:resource-limit")
            continue
        nontriv = m["set"] == "rc=0"
        cls = kind + (":accepted" if nontriv else ":fault" if m["set"].startswith("fault") else ":rejected")
        run.count("%s|%s|%s" % (desc, m["set"], len(m["objs"])), nontrivial=nontriv,
                  sample={"desc": desc[:200], "model": m["set"], "impl": c and c.get("set")}, kind=cls)
        if m["set"].startswith("fault="):
            f = m["set"][6:]
            if f == "fuel":
                run.violation("model-fuel", "model ran out of fuel (its loops are proved to terminate: model bug)", replay_text(desc), no_input=True)
                continue
            if f == "hang" or f == "str-oob":
                # the proved theorem excludes str-oob; "hang" is the unsigned-j loop on totals >= 2^32: not run on C
                if f == "str-oob":
                    run.violation("model-str-oob", "model reads outside the description (theorem synth_str_safe says impossible)", replay_text(desc), no_input=True)
                run.bump("model-hang-not-run")
                continue
            if f == "uninit-arity":
                uninit.append((idx, desc))
                continue
            if c is None:
                continue
            if "crash" in c and f == "assert" and G.est_total(desc) < 2 ** 62 and "Assertion `nbs'" not in c["crash"][1]:
                run.violation("intlv-type-deeper-level-assert", "type-based interleaving naming a level below (wider than) the indexed level computes step = 0: assert(step) aborts in hwloc_topology_set_synthetic",
                              replay_text(desc, "model: fault=%s\n--- stderr\n%s" % (f, c["crash"][1])))
                run.cov["traces_validated_against_impl"] += 1
            elif "crash" in c:
                run.violation(FAULT_KEYS[f], FAULT_WHAT[f], replay_text(desc, "model: fault=%s\n--- sanitizer\n%s" % (f, c["crash"][1])))
                run.cov["traces_validated_against_impl"] += 1
            else:
                run.violation("correspondence:fault-not-reproduced:" + f, "model predicts %s but the implementation ran clean on %r" % (f, desc[:80]),
                              replay_text(desc, "impl: %s" % c.get("set")), no_input=True)
            continue
        if c is None:
            run.violation("not-run", "case did not run on the implementation", replay_text(desc), no_input=True)
            continue
        if "resource" in c:
            if c.get("timeout"):
                run.violation("timeout", "the implementation does not finish within 1200 s CPU, alone, on %r" % desc[:80], replay_text(desc))
            else:
                run.bump("skipped:resource-limit-not-rerun")
            continue
        if "crash" in c:
            rc, err = c["crash"]
            if "LEAK" in c["other"] or rc == 95:
                if c["set"] == "rc=-1":
                    run.violation("leak-attached-late-reject", "attached NUMA records are leaked when the description is rejected after the parsing loop (return -1 without hwloc_synthetic_free_levels)",
                                  replay_text(desc, err))
                else:
                    run.violation("leak:" + crash_sig(err), "memory leak", replay_text(desc, err))
            elif any(" type=15 " in l for l in m["L"]) and "hwloc__look_synthetic" in err:
                run.violation("memcache-level-assert", "MemCache accepted as a level type by the parser, assert() aborts in hwloc__look_synthetic at load", replay_text(desc, err))
            else:
                run.violation("crash:" + crash_sig(err), "sanitizer report / crash on %r" % desc[:80], replay_text(desc, "model: %s\n--- stderr\n%s" % (m["set"], err)))
            continue
        if c["set"] != m["set"]:
            run.violation("correspondence:accept-reject", "implementation %s, model %s on %r" % (c["set"], m["set"], desc[:100]),
                          replay_text(desc, "impl: set %s\nmodel: set %s\n" % (c["set"], m["set"])), no_input=True)
            continue
        if c["other"] and any(o.startswith("load-fails") for o in c["other"]):
            run.violation("load-fails", "accepted description fails to load: %r" % desc[:80], replay_text(desc, "\n".join(c["other"])))
            continue
        if c["loaded"]:
            if has_dup_indexes(m["objs"]):
                # the model accepted an index array with a duplicate: theorem synth_index_arrays_injective says impossible on the
                # code as committed; seen only when a switch of the model is off
                run.violation("index-array-not-injective", "an index attribute with duplicate values is used for PUs / NUMA nodes of %r" % desc[:100], replay_text(desc))
            else:
                a, b = sorted(l for l in c["objs"] if not l.startswith("O 13 ")), sorted(l for l in m["objs"] if not l.startswith("O 13 "))
                gmissing = [l for l in m["objs"] if l.startswith("O 13 ") and l not in set(c["objs"])]
                if a == b and gmissing:
                    b = b + gmissing      # a Group level the description gives structure to, with its os_index values, must be loaded
                keys = [(kv["type"], kv["width"]) for kv in (dict(x.split("=", 1) for x in l.split()[2:] if "=" in x) for l in m["L"]) if 5 <= int(kv["type"]) <= 12]
                if a != b and len(set(keys)) != len(keys):
                    run.violation("merge-equal-cache-size-overwritten", "two cache levels of the same type with identical cpusets are merged by merge_insert_equal(), which overwrites cache.size with the line size (topology.c: old->attr->cache.size = new->attr->cache.linesize)",
                                  replay_text(desc, "impl:\n%s\nmodel:\n%s\n" % ("\n".join(x for x in a if x not in set(b))[:600], "\n".join(x for x in b if x not in set(a))[:600])))
                elif a != b:
                    da = [l for l in a if l not in set(b)][:6]
                    db = [l for l in b if l not in set(a)][:6]
                    run.violation("correspondence:structure", "loaded objects differ from those written in %r" % desc[:100],
                                  replay_text(desc, "only impl:\n%s\nonly model:\n%s\n" % ("\n".join(da), "\n".join(db))), no_input=True)
                else:
                    run.cov["traces_validated_against_impl"] += 1
            natt = [len([a for a in kv.get("att", "").split(";") if a]) for kv in (dict(x.split("=", 1) for x in l.split()[2:] if "=" in x) for l in m["L"])]
            awid = [kv["width"] for kv, a in zip((dict(x.split("=", 1) for x in l.split()[2:] if "=" in x) for l in m["L"]), natt) if a]
            v1_depths = len(set(awid)) >= 2                    # NUMA nodes below parents of different depths: refused for every V1 flag word
            v1_multi = len(set(awid)) == 1 and sum(natt) >= 2  # several NUMA nodes at one place: refused unless memory is ignored
            for r in c["rt"]:
                run.bump("export:" + ("ok" if " ok" in r else "fails" if "export-fails" in r else "FAIL"))
                mm = re.match(r"rt f=(\d+) (export-fails|ok n=)", r)
                if mm and int(mm.group(1)) % 1000 < 16:
                    fl, failed = int(mm.group(1)) % 1000, mm.group(2) == "export-fails"
                    v1_must_fail = v1_depths or v1_multi
                    if failed != bool((fl & 4) and (v1_depths or (v1_multi and not (fl & 8)))):
                        run.violation("export-v1-rule:f=%d" % fl, "export with flags %d %s although the description attaches NUMA nodes %s (v1 can express one NUMA node per object at a single depth only)" % (
                            fl, "fails" if failed else "succeeds", "at several places" if v1_must_fail else "in a v1-compatible way"), replay_text(desc, r))
                if " FAIL " in r:
                    mm = re.match(r"rt f=(\d+) FAIL (\S+)", r)
                    fl, why = int(mm.group(1)), mm.group(2)
                    variant = fl // 1000      # 0: the loaded description; k: k-th zero-attribute variant reloaded from XML
                    if variant:
                        fl = fl % 1000
                        desc_v = "%s [variant %d: %s rewritten to 0 in the XML export, reloaded]" % (
                            desc, variant, {1: "every local_memory", 2: "the first local_memory", 3: "every second local_memory", 4: "every local_memory and cache_size"}[variant])
                        if why == "structure-numa-memory-pairing":
                            why = "structure"
                        if not ((why == "reimport-rejected" and (fl & 1) and "Cache:" in r) or (why == "not-fixpoint" and (fl & 13))):
                            run.violation("roundtrip-zero-attrs:%s:f=%d" % (why, fl), "export/import round trip fails (%s, flags %d) for a topology with attributes the parser cannot produce: %s" % (why, fl, desc_v[:300]),
                                          replay_text(desc, "mode: lz\n" + r))
                            continue
                    if why == "reimport-rejected" and (fl & 1) and "Cache:" in r:
                        run.violation("roundtrip-noextended-cache-reimport", "export with NO_EXTENDED_TYPES prints caches as 'Cache:n', which hwloc_type_sscanf of this version rejects: the export does not load back",
                                      replay_text(desc, r))
                    elif why == "structure-numa-memory-pairing":
                        run.violation("roundtrip-numa-sizes-differ-across-parents", "NUMA nodes attached at two levels with identical cpusets become memory children of one parent ordered by os_index; with interleaved NUMA indexes that order differs between parents, hwloc_check_memory_symmetric only compares memory_arity, and the export prints the sizes of the first parent only: the re-imported topology pairs os_index and memory differently",
                                      replay_text(desc, r))
                    elif why == "not-fixpoint" and (fl & 13) and r.split(" -> ")[0].count("Group:") > r.split(" -> ")[-1].count("Group:"):
                        run.violation("roundtrip-lossy-flags-group-dropped", "with NO_EXTENDED_TYPES/V1 (Die printed as Group) or IGNORE_MEMORY (Group above a NUMA level kept without its memory) the exported Group level brings no structure, is merged at re-import and the second export differs",
                                      replay_text(desc, r))
                    else:
                        run.violation("roundtrip:%s:f=%d" % (why, fl), "export/import round trip fails (%s, flags %d) for %r" % (why, fl, desc[:80]), replay_text(desc, r))
        elif c["set"] == "rc=0":
            run.cov["traces_validated_against_impl"] += 1
        else:
            run.cov["traces_validated_against_impl"] += 1
    # indeterminate arity: run the implementation with the heap pre-filled with 0x00 and with 0xbe
    if uninit:
        items = [(idx, "l" if G.est_total(d) <= 4096 else "p", d) for idx, d in uninit]
        r0 = run_c(exe, items, fill="zero", shard=1)
        r1 = run_c(exe, items, fill="be", shard=1)
        for idx, d in uninit:
            a, b = r0.get(str(idx), {}), r1.get(str(idx), {})
            sa = (a.get("set"), tuple(sorted(a.get("objs", []))), "crash" in a)
            sb = (b.get("set"), tuple(sorted(b.get("objs", []))), "crash" in b)
            if sa != sb:
                run.violation(FAULT_KEYS["uninit-arity"], FAULT_WHAT["uninit-arity"],
                              replay_text(d, "heap filled with 0x00: set %s, %d objects, crash=%s\nheap filled with 0xbe: set %s, %d objects, crash=%s\n%s" % (
                                  sa[0], len(sa[1]), sa[2], sb[0], len(sb[1]), sb[2], (b.get("crash") or a.get("crash") or (0, ""))[1])))
                run.cov["traces_validated_against_impl"] += 1
            else:
                run.bump("uninit-arity-same-outcome-both-fills")


def spec_interleaving(run, cases, cres):
    """SPEC evaluation on the implementation, independent of the model: for canonical descriptions with a
    type-based indexes= attribute the os_index layout is computed in Python from the documented meaning
    (gen/synthetic_gen.py spec_expected) and compared with what the library loaded."""
    TYPE_NO = {"pack": 1, "die": 2, "core": 3, "l2": 6, "l3": 7}
    for idx, (kind, desc) in enumerate(cases):
        exp = G.spec_expected(desc)
        c = cres.get(str(idx))
        if exp is None or c is None or not c.get("loaded"):
            continue
        lv = dict((n, a) for n, a in G.spec_parse(desc)[0])
        bad = None
        if exp[0] == "pu":
            for name, sets in exp[1].items():
                if name == "numa":
                    got = sorted(tuple(sorted(int(x) for x in l.split()[4].split(","))) for l in c["objs"] if l.startswith("M "))
                elif name == "die" and "pack" in lv and lv["die"] == 1:
                    continue          # merged into the Package level by the core
                else:
                    got = sorted(tuple(sorted(int(x) for x in l.split()[4].split(","))) for l in c["objs"] if l.startswith("O %d " % TYPE_NO[name]))
                if got != sets:
                    bad = "level %s: PU os_index sets loaded %s..., documented meaning gives %s..." % (name, got[:3], sets[:3])
                    break
        else:
            got = sorted((int(l.split()[1]), tuple(sorted(int(x) for x in l.split()[4].split(",")))) for l in c["objs"] if l.startswith("M "))
            if got != exp[1]:
                bad = "NUMA (os_index, PUs) loaded %s..., documented meaning gives %s..." % (got[:3], exp[1][:3])
        run.bump("spec:interleaving:" + ("ok" if bad is None else "MISMATCH"))
        if bad:
            run.violation("spec:interleaving-order", "type-based index interleaving of %r is not the documented one: %s" % (desc, bad), replay_text(desc, bad))


def spec_level_indexes(run, cases, cres):
    """indexes= on any level, caches and groups included (gen/synthetic_gen.py lvl_expected, independent of the model):
    the objects of that level carry exactly the written os_index values, each on the PUs of its written position."""
    for idx, (kind, d) in enumerate(cases):
        exp = G.lvl_expected(d)
        c = cres.get(str(idx))
        if exp is None or c is None or not c.get("loaded"):
            continue
        ty, want = exp
        got = sorted((int(l.split()[2]), tuple(sorted(int(x) for x in l.split()[4].split(",")))) for l in c["objs"] if l.startswith("O %d " % ty))
        ok = got == want
        run.bump("spec:level-indexes:" + ("ok" if ok else "MISMATCH"))
        if not ok:
            run.violation("spec:level-os-index", "the objects of type %d loaded from %r do not carry the written os_index values: loaded %s..., written %s..." % (
                ty, d[:100], [x for x in got if x not in want][:3], [x for x in want if x not in got][:3]), replay_text(d))


def spec_units(run, cases, cres):
    """sizes written with unit suffixes (any letter case): cache sizes, NUMA memory, memory-side cache sizes loaded by the
    library must be number x documented multiplier (gen/synthetic_gen.py DOC_UNITS, written by hand: not the model's
    table, not derived from the source)."""
    for idx, (kind, d) in enumerate(cases):
        exp = G.units_expected(d)
        c = cres.get(str(idx))
        if exp is None or c is None or not c.get("loaded"):
            continue
        bad = None
        for ty, b in exp["cache"].items():
            got = sorted(set(int(l.split()[3]) for l in c["objs"] if l.startswith("O %d " % ty)))
            if got != [b]:
                bad = "cache type %d: size(s) loaded %s, written %d bytes" % (ty, got, b)
        if exp["mem"] is not None:
            got = sorted(set(int(l.split()[2]) for l in c["objs"] if l.startswith("M ")))
            if got != [exp["mem"]]:
                bad = "NUMA memory loaded %s, written %d bytes" % (got, exp["mem"])
        if exp["msc"] is not None:
            got = sorted(set(int(l.split()[3]) for l in c["objs"] if l.startswith("M ")))
            if got != [exp["msc"]]:
                bad = "memory-side cache size loaded %s, written %d bytes" % (got, exp["msc"])
        run.bump("spec:units:" + ("ok" if bad is None else "MISMATCH"))
        if bad:
            run.violation("spec:size-unit", "sizes loaded from %r are not those written (documented multipliers): %s" % (d, bad), replay_text(d, bad))


def spec_distinct_indexes(run, cases, cres, exe):
    """Independent of the model: the NUMA nodes of a loaded topology have distinct os_indexes, and a canonical
    description loads exactly as many PUs as the product of its arities (a duplicate PU index merges two PUs)."""
    for idx, (kind, d) in enumerate(cases):
        c = cres.get(str(idx))
        if not c or not c.get("loaded"):
            continue
        numa = [l.split()[1] for l in c["objs"] if l.startswith("M ")]
        npu = sum(1 for l in c["objs"] if l.startswith("O 4 "))
        bad = None
        if len(set(numa)) != len(numa):
            bad = "NUMA os_index values are not distinct: %s" % sorted(numa)[:12]
        else:
            stripped = re.sub(r"\[[^\[\]()]*\]", "", re.sub(r"\([^()\[\]]*\)", "", d))
            items = stripped.split() if not re.search(r"[()\[\]]", stripped) and all(32 <= ord(ch) < 127 for ch in d) else []
            if items and all(re.fullmatch(r"(?:[A-Za-z][A-Za-z0-9]*:)?[1-9]\d{0,3}", it) for it in items):
                prod = 1
                for it in items:
                    prod *= int(it.split(":")[-1])
                if prod != npu:
                    bad = "%d PUs written (product of the arities), %d PU objects loaded" % (prod, npu)
        run.bump("spec:distinct-indexes:" + ("ok" if bad is None else "MISMATCH"))
        if bad:
            run.violation("spec:os-index-duplicate", "%s for %r" % (bad, d[:100]), replay_text(d, bad))


def spec_implicit_numa(run, cases, cres):
    """doc/hwloc.doxy: "A NUMA level (with a single NUMA node) is automatically added if needed."  Independent of the
    model: a description without '[' and without a NUMA-typed item must load with exactly one NUMA node, os_index 0,
    local to all PUs."""
    for idx, (kind, d) in enumerate(cases):
        c = cres.get(str(idx))
        if not c or not c.get("loaded") or "[" in d or re.search(r"(?i)n[uo]", d) or re.search(r"(^|\s)[0-9+-]", d) or not all(32 <= ord(ch) < 127 or ch == "\n" for ch in d):
            continue
        numa = [l.split() for l in c["objs"] if l.startswith("M ")]
        pus = sorted(int(l.split()[2]) for l in c["objs"] if l.startswith("O 4 "))
        ok = len(numa) == 1 and numa[0][1] == "0" and sorted(int(x) for x in numa[0][4].split(",")) == pus
        run.bump("spec:implicit-numa:" + ("ok" if ok else "MISMATCH"))
        if not ok:
            run.violation("spec:implicit-numa-node", "description %r mentions no NUMA node but the loaded topology does not have the single default NUMA node (os_index 0, all PUs): %s" % (
                d[:100], [" ".join(x[:4]) for x in numa][:4]), replay_text(d, "\n".join(" ".join(x) for x in numa[:8])))


def filter_pass(run, cases, model, cres, exe):
    """Type filters (library defaults drop instruction caches and MemCaches; per-type KEEP_NONE / KEEP_STRUCTURE):
    the NUMA nodes -- number, os_index, memory, locality -- are what the string says whatever the filters (filters never
    apply to NUMA nodes; a node attached to a filtered level keeps that level's cpuset), and the kept levels are unchanged.
    Judged (a) against the model's level records and (b), for canonical descriptions, against gen/synthetic_gen.py
    att_expected, which uses neither the model nor the C code."""
    rng = run.rng
    sel = []
    for idx, (kind, d) in enumerate(cases):
        m, c = model.get(str(idx)), cres.get(str(idx))
        if not m or not c or not c.get("loaded") or "crash" in c or len(c["objs"]) > 400 or has_dup_indexes(m["objs"]):
            continue
        if d in FW:
            words = [FW[d]] + (["lD"] if FW[d] != "lD" else [])
        elif "[" in d or re.search(r"(?i)l[123]i", d) or "memorysidecachesize" in d:
            types = sorted(set(int(l.split()[1]) for l in m["objs"] if l.startswith("O ") and l.split()[1] not in ("4", "13")))   # not Group: with Groups filtered out the core re-attaches NUMA nodes to a larger parent
            words = ["lD"] if rng.random() < 0.6 or not types else ["l" + rng.choice("DA") + "N" + str(rng.choice(types))]
        else:
            continue
        for k, w in enumerate(words):
            sel.append(("%d_%d" % (idx, k), w, d, idx))
    if run.tier == "quick" and len(sel) > 420:
        keep = [s for s in sel if s[2] in FW]
        rest = [s for s in sel if s[2] not in FW]
        sel = keep + rest[:max(0, 420 - len(keep))]
    fres = run_c(exe, [(i, w, d) for i, w, d, idx in sel])
    fres.pop("__errors__", None)
    for i, w, d, idx in sel:
        f, m = fres.get(i), model[str(idx)]
        if f is None:
            continue
        rtxt = lambda extra: replay_text(d, "mode: %s\n%s" % (w, extra))
        if "crash" in f:
            run.violation("filters-crash:" + crash_sig(f["crash"][1]), "crash loading %r with filters %s" % (d[:80], w), rtxt(f["crash"][1]))
            continue
        if not f["loaded"]:
            run.violation("filters-load-fails", "%r does not load with filters %s" % (d[:80], w), rtxt(str(f["set"])))
            continue
        mm = re.fullmatch(r"l([DA])(?:N([0-9.]+))?(?:S([0-9.]+))?", w)
        base = mm.group(1)
        none = set(int(x) for x in (mm.group(2) or "").split(".") if x)
        struct = set(int(x) for x in (mm.group(3) or "").split(".") if x)
        memcache_kept = base == "A" and 15 not in none
        removed = (none | ({10, 11, 12, 15} if base == "D" else set())) - struct
        got_m = sorted((int(x[1]), int(x[2]), int(x[3]), tuple(sorted(int(p) for p in x[4].split(",")))) for x in (l.split() for l in f["objs"] if l.startswith("M ")))
        exp = G.att_expected(d, memcache_kept)
        if exp is not None:
            run.bump("spec:numa-under-filters:" + ("ok" if got_m == exp else "MISMATCH"))
            if got_m != exp:
                run.violation("spec:numa-nodes-under-filters", "with filters %s the NUMA nodes loaded from %r are not those written: %d node(s) loaded, %d written; first difference loaded %s / written %s" % (
                    w, d[:100], len(got_m), len(exp), [x for x in got_m if x not in exp][:1], [x for x in exp if x not in got_m][:1]), rtxt(""))
                continue
        mod_m = sorted((int(x[1]), int(x[2]), int(x[3]) if memcache_kept else 0, tuple(sorted(int(p) for p in x[4].split(",")))) for x in (l.split() for l in m["objs"] if l.startswith("M ")))
        if got_m != mod_m:
            run.violation("correspondence:numa-under-filters", "with filters %s the NUMA nodes of %r differ from the model's" % (w, d[:100]),
                          rtxt("impl: %s\nmodel: %s" % (got_m[:6], mod_m[:6])), no_input=True)
            continue
        skip = set(struct) | removed | {13} | ({2} if (1 in removed or 1 in struct or 2 in struct) else set())
        a = sorted(l for l in f["objs"] if l.startswith("O ") and int(l.split()[1]) not in skip)
        b = sorted(l for l in m["objs"] if l.startswith("O ") and int(l.split()[1]) not in skip)
        present_removed = [l for l in f["objs"] if l.startswith("O ") and int(l.split()[1]) in removed]
        if present_removed:
            run.violation("filtered-type-present", "objects of a type filtered KEEP_NONE are present (%s) for %r" % (w, d[:80]), rtxt("\n".join(present_removed[:4])))
        elif a != b:
            run.violation("correspondence:structure-under-filters", "with filters %s the kept levels of %r differ from the model's" % (w, d[:100]),
                          rtxt("only impl: %s\nonly model: %s" % ([x for x in a if x not in b][:4], [x for x in b if x not in a][:4])), no_input=True)
        else:
            run.bump("filters:ok")
            run.cov["traces_validated_against_impl"] += 1


def verbose_pass(run, cases, model, cres, exe):
    """HWLOC_SYNTHETIC_VERBOSE=1: the messages format pointers into the description ('%s' of pos/attr/tmp).  Spec: the
    verbosity changes neither the verdict nor the loaded objects, every quoted text is a suffix of the description,
    and no sanitizer report."""
    sel = []
    for idx, (kind, d) in enumerate(cases):
        m, c = model.get(str(idx)), cres.get(str(idx))
        if not m or not c or "crash" in c or m["set"] is None or m["set"].startswith("fault") or "\n" in d or "\r" in d or "'" in d:
            continue
        if kind in ("corpus", "handmade", "boundary") or m["set"] == "rc=-1" or m["L"] and any("idx=" in l and "idx=-" not in l for l in m["L"]) or "indexes=" in d:
            sel.append((idx, "l" if c["loaded"] and len(c["objs"]) < 400 else "p", d))
    if run.tier == "quick":
        sel = sel[:700]
    vres = run_c(exe, sel, args=["--verbose"])
    for idx, mode, d in sel:
        v, c = vres.get(str(idx)), cres[str(idx)]
        if v is None:
            continue
        if "crash" in v:
            run.violation("verbose-crash:" + crash_sig(v["crash"][1]), "crash / sanitizer report with HWLOC_SYNTHETIC_VERBOSE=1 on %r" % d[:80], replay_text(d, v["crash"][1]))
            continue
        if v["set"] != c["set"] or (mode == "l" and sorted(v["objs"]) != sorted(c["objs"])):
            run.violation("verbose-changes-result", "HWLOC_SYNTHETIC_VERBOSE=1 changes the outcome for %r" % d[:80], replay_text(d, "verbose: %s\nquiet: %s" % (v["set"], c["set"])))
            continue
        bad = None
        for line in v["other"]:
            if line.startswith("hwloc/synthetic: Ignoring") or "'" not in line:
                continue
            l2 = line.replace("doesn't", "doesnt").replace("between '*' and ':'", "").replace("before '*'", "").replace("`]'", "").replace("`:'", "")
            parts = l2.split("'")
            if len(parts) % 2 == 0 or any(not d.endswith(q) for q in parts[1::2]):
                bad = line
                break
        run.bump("verbose:" + ("ok" if not bad else "BAD"))
        if v["other"]:
            run.bump("verbose:cases-with-messages")
        if bad and v["set"] == "rc=-1" and all(ord(ch) < 128 for ch in d):
            # only judged on the rejected description itself (messages printed while re-importing exports quote other strings)
            run.violation("verbose-message-quote", "verbose message quotes text that is not a suffix of the description %r: %s" % (d[:80], bad[:200]), replay_text(d, bad))


def env_pass(run, cases, model, cres, exe):
    """HWLOC_COMPONENTS=synthetic + HWLOC_SYNTHETIC=<description> (hwloc_synthetic_component_instantiate without data)
    must build the same objects as hwloc_topology_set_synthetic()."""
    sel = []
    for idx, (kind, d) in enumerate(cases):
        c = cres.get(str(idx))
        if c and c.get("loaded") and "crash" not in c and 0 < len(c["objs"]) < 300 and d and "\x00" not in d:
            sel.append((idx, "e", d))
    sel = sel[:150] if run.tier == "quick" else sel[:3000]
    eres = run_c(exe, sel + [("nodesc", "en", "x")], shard=1 if False else 24)
    for idx, mode, d in sel:
        e, c = eres.get(str(idx)), cres[str(idx)]
        if e is None:
            continue
        if "crash" in e:
            run.violation("env-crash:" + crash_sig(e["crash"][1]), "crash loading HWLOC_SYNTHETIC=%r" % d[:80], replay_text(d, e["crash"][1]))
        elif "envload rc=0" not in e["other"] or "backend Synthetic" not in e["other"] or sorted(e["objs"]) != sorted(c["objs"]):
            run.violation("env-load-differs", "HWLOC_SYNTHETIC=%r does not build what hwloc_topology_set_synthetic() builds" % d[:80],
                          replay_text(d, "\n".join(e["other"][:5])))
        else:
            run.bump("env-load:ok")
    nd = eres.get("nodesc")
    if nd is not None:
        if "crash" in nd:
            run.violation("env-nodesc-crash", "HWLOC_COMPONENTS=synthetic without HWLOC_SYNTHETIC crashes", nd["crash"][1], no_input=True)
        elif "backend Synthetic" in nd["other"]:
            run.violation("env-nodesc-synthetic", "HWLOC_COMPONENTS=synthetic without HWLOC_SYNTHETIC still enabled the synthetic backend", "\n".join(nd["other"]), no_input=True)
        else:
            run.bump("env-load:nodesc-refused")


def wf_pass(run, cases, model, items):
    """C01 spec evaluation on what the synthetic backend builds: the canonical dump (harness/hwv_dump.h through
    C01's harness) of accepted descriptions goes through the verified checker wf_check and hwloc_topology_check()."""
    from checks import c01 as K1
    exe1 = C.build_harness("hwv_topo", ["hwv_topo.c"], deps=K1.DEPS)
    drv1 = C.extract("C01", "drv_c01.ml", prelude=K1.PRELUDE)
    sel = []
    for idx, mode, d in items:
        m = model.get(str(idx))
        if not mode.startswith("l") or not m or not m["info"] or int(m["info"]["sum"]) > (250 if run.tier == "quick" else 400):
            continue
        if any(ch in d for ch in "\n\r") or d != d.strip() or not d:
            continue
        sel.append((idx, d))
    # corpus/handmade/boundary cases come first in the case list; the verified checker is quadratic in the dump size
    sel = sel[:120] if run.tier == "quick" else sel[:120] + run.rng.sample(sel[120:], min(680, max(0, len(sel) - 120)))
    wcases = [("synthetic:%r" % d, ["filter 10 0", "filter 11 0", "filter 12 0", "filter 15 0", "src synthetic " + d], "synthetic") for idx, d in sel]
    res = {}
    for lo in range(0, len(wcases), 160):      # chunks: C01's runner keeps every dump line in memory
        part = K1.run_cases(run, wcases[lo:lo + 160], exe1, drv1)
        for k, r in part.items():
            r["lines"] = None
            res[lo + k] = r
    for k, (idx, d) in enumerate(sel):
        r = res.get(k)
        if r is None:
            run.violation("wf-not-run", "dump case did not run", replay_text(d), no_input=True)
        elif "crash" in r:
            run.violation("wf-crash", "crash while dumping %r" % d[:80], replay_text(d, r["crash"]))
        elif r["load"] is None or "rc=0" not in r["load"]:
            run.violation("wf-load", "description loaded by hwv_synthetic but not by hwv_topo: %r" % d[:80], replay_text(d, str(r["load"])), no_input=True)
        elif r["wf"] is None or not r["wf"].startswith("wf ok"):
            clauses = sorted(set(re.findall(r"([a-z-]+)@", r["wf"] or "")))
            numa_idx = [l.split()[1] for l in model[str(idx)]["objs"] if l.startswith("M ")]
            if "numa-os-index-duplicate" in clauses and len(set(numa_idx)) != len(numa_idx):
                run.violation("explicit-numa-indexes-duplicate", "an explicit indexes= list with a duplicate is accepted for NUMA nodes: the loaded topology has two NUMA nodes with the same os_index (overlapping nodesets), hwloc_topology_check() aborts",
                              replay_text(d, str(r["wf"]) + "\n" + str(r["check"])))
                continue
            big = [int(x) for l in model[str(idx)]["L"] for x in re.findall(r"(?:mem=|att=|;)(\d+)", l) if int(x) >= 2 ** 56]
            if clauses == ["total-memory"] and big:
                # memory=-1 and the like: the 64-bit total_memory sum wraps; WF sums in unbounded N
                run.bump("drift:total-memory-wraps-64-bits")
                continue
            run.violation("wf:%s" % ",".join(clauses), "topology built from %r violates well-formedness clause(s) %s" % (d[:80], clauses), replay_text(d, str(r["wf"])))
        elif r["check"] != "check ok":
            run.violation("topology_check-abort", "hwloc_topology_check() aborts on %r" % d[:80], replay_text(d))
        else:
            run.bump("wf_check:ok")
    run.cov["wf_checked"] = len(sel)


def check(run, replay=None):
    proof = C.prove("C07")
    exe = C.build_harness("hwv_synthetic", ["hwv_synthetic.c"])
    drv = C.extract("C07", "drv_c07.ml", prelude=["hvnum.ml"])
    if replay:
        txt = open(replay).read()
        mm = re.search(r"^desc-hex: ([0-9a-f]*)$", txt, re.M)
        cases = [("replay", bytes.fromhex(mm.group(1)).decode("latin1"))] if mm else []
        mw = re.search(r"^mode: (l\S+)$", txt, re.M)
        if mm and mw and mw.group(1) != "lz":
            FW[cases[0][1]] = mw.group(1)
    else:
        cases = make_cases(run)
    limit = 6000 if run.tier == "quick" else 20000
    # self-test aid: HWLOC_VERIF_C07_VARIANT=fixed runs the post-fix model (against a tree with the fix-C07-*.diff patches applied)
    model = run_model(drv, [(str(i), d) for i, (k, d) in enumerate(cases)], fixed=os.environ.get("HWLOC_VERIF_C07_VARIANT") == "fixed")
    for e in model.pop("__errors__", []):
        run.violation("model-driver-crash", "model driver failed: " + e[-200:], e, no_input=True)
    items, iso, nz = [], [], 0
    for idx, (k, d) in enumerate(cases):
        m = model.get(str(idx))
        if m is None or m["set"] is None:
            continue
        if m["set"].startswith("fault="):
            f = m["set"][6:]
            if f in ("level-oob", "loops-oob", "literal-oob", "div-zero", "assert"):
                iso.append((idx, "p", d))
            continue
        mode = "l" if loadable(m, limit) else "p"
        if mode == "l" and int(m["info"]["sum"]) <= 600 and (k in ("corpus", "attached-spec", "replay") or re.search(r"(?i)\[|n[uo]|size=", d)) and nz < (180 if run.tier == "quick" else 2500):
            mode, nz = "lz", nz + 1     # + zero-attribute variants through XML (harness zero_variants)
        if mode == "p" and m["set"] == "rc=0" and k == "corpus" and any(" type=15 " in l for l in m["L"]):
            iso.append((idx, "l", d))     # the regression case of the MemCache-level abort
            continue
        items.append((idx, mode, d))
    cres = run_c(exe, items)
    cres.update(run_c(exe, iso, shard=1))
    for e in cres.pop("__errors__", []):
        run.violation("harness-error", "C harness failed outside a case: " + e[-200:], e, no_input=True)
    judge(run, cases, model, cres, exe, drv, limit)
    spec_interleaving(run, cases, cres)
    spec_implicit_numa(run, cases, cres)
    spec_units(run, cases, cres)
    spec_level_indexes(run, cases, cres)
    spec_distinct_indexes(run, cases, cres, exe)
    filter_pass(run, cases, model, cres, exe)
    verbose_pass(run, cases, model, cres, exe)
    env_pass(run, cases, model, cres, exe)
    wf_pass(run, cases, model, items)
    run.cov["rule"] = "one case = one description string; non-trivial = accepted by the model; loaded and compared object-by-object when <= %d objects" % limit
    run.cov["loaded_and_compared"] = sum(1 for i, m_, d in items if m_.startswith("l"))
    run.assumptions += [
        "calloc/malloc succeed for the sizes reached (descriptions whose totals make the index arrays huge are parsed by the model only)",
        "Group levels are not compared (the core merges structure-less Groups and adds Groups above NUMA levels); level order among objects with identical cpusets is the core's, not the description's",
        "expansion of the model's level records into per-object lines (os_index counters of hwloc__look_synthetic, PU sets) is done in ocaml/drv_c07.ml",
        "hwloc_topology_export_synthetic is not modelled in Coq: its snprintf contract, re-import and fixpoint are checked on the implementation for all 16 flag words and buffer lengths 0..n+2",
    ]
    return run.finish(proof, trusted=["harness/hwv_synthetic.c, ocaml/drv_c07.ml (object expansion), gen/synthetic_gen.py",
                                      "Base/Strto.v model of glibc strtoul/strtol (validated by its own sweep)"])
