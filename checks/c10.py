"""C10: binding calls validate arguments, hand only legal sets to the OS, and
round-trip.

 proof   coq/Props/Properties_C10.v (model coq/Topo/Bind.v)
 tie     harness/hwv_bind.c (recording hooks / interposed system calls) against
         the extracted model (ocaml/drv_c10.ml) on the same script, line by line
 spec    the property clauses evaluated directly on the C transcript
 live    (observed, not proved) round trip on the running system and
         "hwloc_topology_load leaves the caller's binding as found"
"""
import glob
import os
import re

from hv import common as C
from gen import bind_gen as G

DEPS = ["hwv_load.h", "hwv_dump.h"]
PRELUDE = ["hvnum.ml"]


def _build():
    exe = C.build_harness("hwv_bind", ["hwv_bind.c"], deps=DEPS)
    live = C.build_harness("hwv_bind_live", ["hwv_bind.c"], deps=DEPS, extra_flags=["-DHWV_LIVE"])
    drv = C.extract("C10", "drv_c10.ml", prelude=PRELUDE)
    return exe, live, drv


def prebuild():
    _build()


# --------------------------------------------------------------------------
def run_both(exe, drv, script, timeout=120):
    """script: list of lines.  Returns (c_lines, m_lines, crash_text|None)"""
    inp = ("\n".join(script) + "\n").encode()
    rc, out, err = C.sh([exe], input=inp, env=C.run_env(), timeout=timeout)
    cl = out.decode(errors="replace").split("\n")
    crash = None
    if rc != 0:
        crash = "C harness exit code %d\n%s" % (rc, err.decode(errors="replace")[-3000:])
    infos = [l for l in cl if l.startswith("I ") or l.startswith("load rc")]
    ms, k = [], 0
    for l in script:
        ms.append(l)
        if l.strip() in ("load", "dup", "adopt") or l.startswith("xmlreload ") or l.startswith("restrict "):
            if k < len(infos):
                ms.append(infos[k])
            k += 1
    rc2, out2, err2 = C.sh([drv], input=("\n".join(ms) + "\n").encode(), timeout=timeout)
    if rc2 != 0:
        raise RuntimeError("model driver failed: " + err2.decode(errors="replace")[-2000:])
    return cl, out2.decode().split("\n"), crash


R_RE = re.compile(r"^R rc=(-?\d+) errno=(\S+) set=(\S+) pol=(\S+) \|(.*)$")
EV_RE = re.compile(r"(\w+)\(([^)]*)\)")


def parse_result(line):
    m = R_RE.match(line)
    if not m:
        return None
    evs = [(n, a.split(",")) for n, a in EV_RE.findall(m.group(5))]
    return {"rc": int(m.group(1)), "errno": m.group(2), "set": m.group(3), "pol": m.group(4), "events": evs}


HOOK_KIND_CPU = set(range(0, 11))
API_HOOKS = {  # cmd -> (proc hook, thread hook) or (hook,)
    "scb": (0, 2), "gcb": (1, 3), "spcb": (4,), "gpcb": (5,), "stcb": (6,), "gtcb": (7,), "stcbo": (6,), "gtcbo": (7,), "glcl": (8, 9), "gplcl": (10,),
    "smb": (11, 13), "gmb": (12, 14), "spmb": (15,), "gpmb": (16,), "samb": (17,), "gamb": (18,), "gaml": (19,), "amb": (21, 17)}
SET_CMDS = ("scb", "spcb", "stcb", "stcbo", "smb", "spmb", "samb", "amb")


def binding_events(res, mode):
    if mode == "hooks":
        return [e for e in res["events"] if e[0] != "h20"]
    return [e for e in res["events"] if e[0] in ("setaffinity", "set_mempolicy", "mbind", "migrate_pages")]


def event_sets(ev, mode):
    """(kind, set text or '-') carried by an event"""
    n, a = ev
    if mode == "hooks":
        return [("cpu" if int(n[1:]) in HOOK_KIND_CPU else "node", a[1])]
    if n == "setaffinity": return [("cpu", a[1])]
    if n == "set_mempolicy": return [("node", a[1])]
    if n == "mbind": return [("node", a[3])]
    if n == "migrate_pages": return [("node", a[2])]
    return []


def spec_eval(T, mode, pres, call, res, st):
    """The clauses of C10 on one C result line.  Returns [(key, text)]"""
    bad = []
    cmd, fl, s, pol, ln = call["cmd"], call["flags"], call["set"], call["policy"], call["len"]
    mem = call["mem"]
    allmask = G.MEMBIND_ALL if mem else G.CPUBIND_ALL
    bynode = mem and bool(fl & G.BYNODESET)
    complete, topo_set = (T.cns, T.ns) if bynode else (T.ccs, T.cs)
    bad_flags = bool(fl & ~allmask & 0xffffffff)
    bad_policy = pol is not None and pol not in G.POLICIES_OK
    bad_set = s is not None and (s.is_empty() or not s.subset(complete))
    derived = None
    if mem and s is not None and not bynode and not bad_set:
        derived = T.cns if T.cs.subset(s) else T.to_nodeset(s)
    bad_derived = derived is not None and (derived.is_empty() or not derived.subset(T.cns))
    invalid = bad_flags or bad_policy or bad_set or bad_derived
    bev = binding_events(res, mode)
    failed = (res["rc"] == 0) if cmd == "amb" else (res["rc"] < 0)
    # (a) rejected before the OS
    if invalid:
        if bev:
            bad.append(("reject-reaches-os:" + cmd, "invalid arguments but the OS was called: %r" % (bev,)))
        expect_fail = True
        if cmd == "amb":
            # documented: without STRICT an unusable set falls back to a plain allocation; by cpuset the
            # set is converted (and found unusable) before the flag word is looked at
            if not bynode and (bad_set or bad_derived):
                expect_fail = True if fl & G.STRICT else None
            elif not (bad_flags or bad_policy) and not (fl & G.STRICT):
                expect_fail = None
        if cmd == "samb" and ln == 0 and (bynode or not bad_set) and not (bad_flags or bad_policy):
            expect_fail = False
        if expect_fail is True and not (failed and res["errno"] == "EINVAL"):
            bad.append(("reject-rc:" + cmd, "invalid arguments but rc=%d errno=%s" % (res["rc"], res["errno"])))
    # (b) only legal sets reach the OS
    for ev in bev:
        for kind, txt in event_sets(ev, mode):
            if txt == "-":
                continue
            es = G.BS.parse(txt)
            comp = T.ccs if kind == "cpu" else T.cns
            if es.is_empty() or not es.subset(comp):
                bad.append(("illegal-set-reaches-os:" + cmd, "%s carries %s, complete %s set is %s" % (ev[0], txt, kind, comp.text())))
    # (c) a set covering the topology is handed over as the complete set
    if not invalid and s is not None and topo_set.subset(s):
        for ev in bev:
            for kind, txt in event_sets(ev, mode):
                if txt != "-" and not G.BS.parse(txt).eq(T.ccs if kind == "cpu" else T.cns):
                    bad.append(("full-not-complete:" + cmd, "set %s covers the topology but %s received %s" % (s.text(), ev[0], txt)))
    # (d) ENOSYS without hook: with scripted hooks the presence mask is the script's, through the hooks hwloc
    # installed it is the slot mask the harness read from the topology (native Linux has no thisproc/proc membind)
    pres_eff = pres if mode == "hooks" else T.hooks
    hs = API_HOOKS[cmd]
    if len(hs) == 2 and cmd != "amb":
        hs = (hs[0],) if fl & 1 else (hs[1],) if fl & 2 else hs
    if not invalid and not (ln == 0 and cmd in ("samb", "gamb", "gaml")) and not (cmd == "amb" and fl & G.MIGRATE):
        if not any(pres_eff >> h & 1 for h in hs):
            ok = (failed and res["errno"] == "ENOSYS" and not bev) if not (cmd == "amb" and not fl & G.STRICT) else (not bev)
            if not ok:
                bad.append(("enosys:" + cmd, "no hook among %r installed (slots %x) but rc=%d errno=%s events=%r" % (hs, pres_eff, res["rc"], res["errno"], bev)))
    # (d2) dispatch: PROCESS reaches only the process hook, THREAD only the thread hook, neither: process then thread
    if mode == "hooks":
        allowed_h = set(hs) | {20}
        got = [int(e[0][1:]) for e in res["events"] if e[0].startswith("h")]
        if any(h not in allowed_h for h in got) or (len(hs) == 2 and got[:1] == [hs[1]] and pres >> hs[0] & 1):
            bad.append(("dispatch:" + cmd, "flags %d select hook(s) %r but the call reached %r" % (fl, hs, got)))
        elif not invalid and not (ln == 0 and cmd in ("samb", "gamb", "gaml")) and cmd != "amb":
            first = next((h for h in hs if pres >> h & 1), None)
            gotb = [h for h in got if h != 20]
            if first is not None and gotb[:1] != [first]:
                bad.append(("dispatch:" + cmd, "hook %d is installed and selected by flags %d but the call reached %r (rc=%d errno=%s)" % (first, fl, got, res["rc"], res["errno"])))
    # (e) dummy hooks of a topology that is not this system
    if mode == "os" and not T.this:
        if res["events"]:
            bad.append(("dummy:" + cmd, "topology is not this system but the OS was called: %r" % (res["events"],)))
        if not invalid:
            if cmd in SET_CMDS:
                want = 1 if cmd == "amb" else 0
                if res["rc"] != want and not (cmd == "amb" and fl & G.MIGRATE and fl & G.STRICT):
                    bad.append(("dummy:" + cmd, "set-call on a foreign topology returned rc=%d errno=%s" % (res["rc"], res["errno"])))
            elif not (cmd == "gamb" and ln == 0):
                if cmd == "gaml" and ln == 0:
                    want = "-" if bynode else G.EMPTY.text()
                elif mem:
                    want = (T.cns if bynode else T.from_nodeset(T.cns)).text()
                else:
                    want = T.ccs.text()
                wpol = "-1" if cmd in ("gmb", "gpmb", "gamb") else "-"
                if res["rc"] != 0 or res["set"] != want or res["pol"] != wpol:
                    bad.append(("dummy:" + cmd, "get-call on a foreign topology: rc=%d set=%s pol=%s, expected 0 %s %s" % (res["rc"], res["set"], res["pol"], want, wpol)))
    # (g) what a get-call reports on this system consists of what the kernel / topology said
    if mode == "os" and T.this and res["rc"] == 0 and cmd in ("gamb", "gmb") and res["set"] != "-":
        got = G.BS.parse(res["set"])
        lim = (T.cns.union(st["mempol"])) if bynode else T.ccs
        if not got.subset(lim):
            bad.append(("get-area-membind-uninit-mask" if cmd == "gamb" else "get-membind-garbage",
                        "%s reported %s, not inside what the kernel and the topology hold (%s)" % (cmd, res["set"], lim.text())))
    # (g2) cpubind read-back on this system: exactly the union of the masks the kernel reported for the tasks that
    # were asked (restricted to the complete cpuset) - nothing of what the caller's output bitmap held before
    if mode == "os" and T.this and res["rc"] == 0 and cmd in ("gtcbo", "gtcb", "gcb", "gpcb") and res["set"] != "-" and "aff" in st:
        gets = [e for e in res["events"] if e[0] == "getaffinity"]
        if gets and len(gets) == len(res["events"]):
            want = G.EMPTY
            for e in gets:
                want = want.union(st["aff"] if e[1][0] == "0" else st.get("affproc") or st["aff"])
            want = want.inter(G.BS(False, (1 << (T.ccs.fin.bit_length())) - 1))
            if cmd != "gtcbo":
                want = want.inter(G.BS(False, (1 << 256) - 1))      # the scripted kernel's cpumask buffer (os nrcpus)
            if not G.BS.parse(res["set"]).eq(want):
                bad.append(("cpubind-readback:" + cmd, "%s (flags %d) reports %s, the kernel reported %s for the tasks asked (complete cpuset %s; the output bitmap held %s before the call)" % (
                    cmd, fl, res["set"], want.text(), T.ccs.text(), st.get("prefill", "0:...88 (default)"))))
    # (g3) last cpu location from a scripted /proc/<tid>/stat: field 39 (after the LAST ')'), whatever the task name
    if mode == "os" and T.this and cmd in ("glcl", "gplcl") and st.get("stat") is not None and any(e[0] == "stat" for e in res["events"]):
        txt = st["stat"]
        want = None
        i = txt.rfind(b")")
        if i >= 0:
            f = txt[i + 2:].split(b" ")
            if len(f) > 36 and f[36].strip().isdigit():
                want = int(f[36])
        if want is None:
            if res["rc"] == 0:
                bad.append(("lastcpu-parse:" + cmd, "malformed stat %r but rc=0 set=%s" % (txt[:60], res["set"])))
        elif res["rc"] != 0 or res["set"] != G.BS(False, 1 << want).text():
            bad.append(("lastcpu-parse:" + cmd, "stat %r says processor %d but rc=%d set=%s" % (txt[:40], want, res["rc"], res["set"])))
    # (h) MIGRATE: the source mask handed to migrate_pages must cover every node of the topology
    if mode == "os":
        for ev in res["events"]:
            if ev[0] == "migrate_pages":
                old = G.BS.parse(ev[1][1])
                if not T.cns.subset(old):
                    bad.append(("migrate-pages-fullmask-0x0f", "migrate_pages source mask %s does not cover the nodes %s" % (ev[1][1], T.cns.text())))
    return bad, invalid


MASK_LAST = re.compile(r" set=\S+")


def canon(line, call, T, mode, st):
    """results that depend on the real /proc of the sandbox are not compared"""
    if call and call["set"] is None and st.get("prefill", "default") != "default" and line.startswith("R rc=0") and " set=- " in line:
        # "-" = the output bitmap still equals what it held before the call: spelled out under a non-default prefill
        line = line.replace(" set=- ", " set=%s " % G.BS.parse(st["prefill"]).text(), 1)
    if call and mode == "os" and T is not None and T.this and line.startswith("R rc=0") and st.get("stat") is None:
        if (call["cmd"] == "glcl" and (st.get("getcpu_fail") or not (call["flags"] & 2 and not call["flags"] & 1))) or call["cmd"] == "gplcl":
            return MASK_LAST.sub(" set=*", line, 1)
    return line


class Evaluator:
    def __init__(self, run, exe, drv):
        self.run, self.exe, self.drv = run, exe, drv
        self.stats = {"calls": 0, "invalid": 0, "os_events": 0, "hook_events": 0, "full_to_complete": 0, "enosys": 0, "dummy": 0}

    def evaluate(self, script, tag):
        run = self.run
        cl, ml, crash = run_both(self.exe, self.drv, script)
        if crash:
            run.violation("harness-crash:" + tag, "C harness crashed / sanitizer report", "kind: input\nscript:\n%s\nend-script\n%s" % ("\n".join(script), crash))
        # walk the script to know the state at each output line
        T, mode, pres, ci = None, "os", 0, 0
        pending = None
        tainted = False
        same_call = {}
        st = {"mempol": G.EMPTY}
        state_lines = []     # config/state lines of the current topology block (for the shrunk replay)
        block = 0
        for l in script:
            t = l.split()
            if not t:
                continue
            if t[0] == "new":
                state_lines = [l]; T = None; mode = "os"; block += 1; tainted = False
                continue
            if t[0] == "prefill":
                state_lines.append(l)
                st["prefill"] = t[1]
                continue
            if t[0] in ("src", "flags", "env", "filter", "os", "hookret", "mode", "destroy"):
                state_lines.append(l)
                if t[0] in ("os", "hookret"):
                    same_call = {}       # answers are only comparable under the same scripted kernel / hooks
                if ci < len(cl) and cl[ci].startswith("config-error"):
                    ci += 1      # a configuration the library refused: the topology falls back to the default source
                if t[0] == "mode":
                    mode = t[1]
                    pres = int(t[2], 16) if mode == "hooks" else 0
                    if mode == "os" and ci < len(cl) and cl[ci].startswith("W"):
                        ci += 1
                        if ci - 1 < len(ml) and ml[ci - 1].startswith("W") and ml[ci - 1] != cl[ci - 1]:
                            run.cov.setdefault("drift", []).append("warm-up: %s / %s" % (cl[ci - 1], ml[ci - 1]))
                if t[0] == "os" and t[1] == "mempol":
                    st["mempol"] = G.BS.parse(t[3])
                if t[0] == "os" and t[1] == "aff":
                    st["aff"] = G.BS.parse(t[2])
                if t[0] == "os" and t[1] == "affproc":
                    st["affproc"] = G.BS.parse(t[2])
                if t[0] == "os" and t[1] == "stat":
                    st["stat"] = None if t[2] == "-" else (b"" if t[2] == "empty" else bytes.fromhex(t[2]))
                if t[0] == "os" and t[1] == "ret" and t[2] in ("getcpu", "all"):
                    st["getcpu_fail"] = int(t[3]) < 0
                continue
            if t[0] == "#cfg":
                state_lines.append(l)
                pending = (t[1], G.expected_thissystem_cfg(t[2] == "1", t[3] == "1", t[4] == "1", None if t[5] == "-" else int(t[5])))
                continue
            if ci < len(cl) and cl[ci].startswith("X real affinity"):
                run.violation("real-affinity-changed", cl[ci], "kind: input\nscript:\n%s\nend-script\n%s\n" % ("\n".join(state_lines), cl[ci]))
                ci += 1
            if t[0] in ("dup", "adopt", "restrict"):
                state_lines.append(l)
                src = T
                T = None
                if ci < len(cl) and cl[ci].startswith("I "):
                    T = G.Topo(cl[ci])
                    mline = ml[ci] if ci < len(ml) else "<missing>"
                    rp = "kind: input\nscript:\n%s\nend-script\nimpl:  %s\nmodel: %s\n" % ("\n".join(state_lines), cl[ci], mline)
                    run.count(cl[ci] + "|" + l, nontrivial=True, kind="derive:" + t[0])
                    self.stats["derivations"] = self.stats.get("derivations", 0) + 1
                    if src is not None and t[0] == "restrict":
                        if T.this != src.this or T.hooks != src.hooks:
                            run.violation("derived-hook-selection:restrict", "restrict changed this/hooks: %d/%x -> %d/%x" % (src.this, src.hooks, T.this, T.hooks), rp)
                        elif mline != cl[ci]:
                            run.violation("correspondence:derive:restrict", "model and implementation differ after restrict: impl=%r model=%r" % (cl[ci], mline), rp, no_input=True)
                    elif src is not None:
                        # a derived topology is this system iff its source is, and carries the hooks that go with it
                        wanth = src.hooks if src.this else (1 << 22) - 1 - (1 << 20)
                        if T.this != src.this or (t[0] == "dup" and T.hooks != src.hooks) or (not src.this and T.hooks != wanth):
                            run.violation("derived-hook-selection:" + t[0], "source this=%d hooks=%x, %s gives this=%d hooks=%x" % (src.this, src.hooks, t[0], T.this, T.hooks), rp)
                        elif mline != cl[ci]:
                            run.violation("correspondence:derive:" + t[0], "model and implementation differ after %s: impl=%r model=%r" % (t[0], cl[ci], mline), rp, no_input=True)
                        else:
                            run.cov["traces_validated_against_impl"] += 1
                else:
                    run.violation("derive-failed:" + t[0], "%s failed: %s" % (t[0], cl[ci] if ci < len(cl) else "<missing>"),
                                  "kind: input\nscript:\n%s\nend-script\n" % "\n".join(state_lines), no_input=True)
                ci += 1
                continue
            if t[0] in ("load", "xmlreload"):
                state_lines.append(l)
                T = None
                if ci < len(cl) and cl[ci].startswith("I "):
                    T = G.Topo(cl[ci])
                    mline = ml[ci] if ci < len(ml) else "<missing>"
                    rp = "kind: input\nscript:\n%s\nend-script\nimpl:  %s\nmodel: %s\n" % ("\n".join(state_lines), cl[ci], mline)
                    if pending is not None:
                        name, want = pending
                        run.count(cl[ci] + "|" + "|".join(x for x in state_lines if x.startswith("#cfg")), nontrivial=True, kind="thissystem")
                        tainted = T.this != want      # later model/impl differences on this handle are consequences
                        if T.this != want:
                            run.violation("thissystem:" + name, "is_thissystem=%d, expected %d for the last load's configuration (%s); load history of the handle: %s" % (
                                T.this, want, name, [x for x in state_lines if x.startswith("#cfg")]), rp)
                        elif mline != cl[ci]:
                            run.violation("correspondence:thissystem:" + name, "model and implementation differ after load: impl=%r model=%r" % (cl[ci], mline), rp, no_input=True)
                        else:
                            run.cov["traces_validated_against_impl"] += 1
                        # hook installation: native hooks iff this system, else every dummy except alloc
                        wanth = None if T.this else (1 << 22) - 1 - (1 << 20)
                        if wanth is not None and T.hooks != wanth:
                            run.violation("dummy-hooks-installed:" + name, "hook slots %x, expected %x" % (T.hooks, wanth), rp)
                        self.stats["reloads"] = self.stats.get("reloads", 0) + (1 if sum(1 for x in state_lines if x == "load") > 1 else 0)
                elif pending is not None and pending[0].startswith("ok:"):
                    run.violation("load-failed:" + pending[0], "a load expected to succeed failed: %s" % (cl[ci] if ci < len(cl) else "<missing>"),
                                  "kind: input\nscript:\n%s\nend-script\n" % "\n".join(state_lines))
                pending = None
                ci += 1
                continue
            if not G.CALL_RE.match(l):
                if t[0] == "echo":
                    ci += 1
                continue
            call = G.parse_call(l)
            a = cl[ci] if ci < len(cl) else "<missing>"
            b = ml[ci] if ci < len(ml) else "<missing>"
            ci += 1
            res = parse_result(a)
            self.stats["calls"] += 1
            replay = "kind: input\nscript:\n%s\n%s\nend-script\nimpl:  %s\nmodel: %s\n" % ("\n".join(state_lines), l, a, b)
            if res is None or T is None:
                if not crash:
                    run.violation("harness-output:" + call["cmd"], "unexpected harness output %r" % a, replay, no_input=True)
                continue
            bad, invalid = spec_eval(T, mode, pres, call, res, st)
            self.stats["invalid"] += 1 if invalid else 0
            self.stats["os_events" if mode == "os" else "hook_events"] += len(res["events"])
            if not T.this and mode == "os":
                self.stats["dummy"] += 1
            if res["errno"] == "ENOSYS":
                self.stats["enosys"] += 1
            if not invalid and call["set"] is not None and ((T.ns if call["mem"] and call["flags"] & 32 else T.cs).subset(call["set"])) and res["events"]:
                self.stats["full_to_complete"] += 1
            run.count(a + "|" + l, nontrivial=bool(res["events"]) or res["rc"] != 0,
                      sample={"call": l, "impl": a, "model": b}, kind=("%s:%s" % (mode, call["cmd"])))
            # every get-call OVERWRITES its output: the same call under another pre-filled output gives the same answer
            if call["set"] is None and "prefill" in st:
                k = (block, mode, l)
                prev = same_call.get(k)
                pf_now = "0:0000000000000000" if st["prefill"] == "0:0" else st["prefill"]
                got_now = pf_now if (res["set"] == "-" and res["rc"] == 0) else res["set"]     # "-": the output still equals what it held
                res_cmp = (res["rc"], got_now)
                if prev is not None and prev[0] != st["prefill"] and (prev[1], prev[2]) != res_cmp and \
                        not (call["cmd"] in ("glcl", "gplcl") and st.get("stat") is None):
                    bad.append(("get-overwrites-output:" + call["cmd"], "output pre-filled with %s: rc=%d set=%s; pre-filled with %s: rc=%d set=%s" % (
                        prev[0], prev[1], prev[2], st["prefill"], res["rc"], got_now)))
                same_call[k] = (st["prefill"], res["rc"], got_now)
            for key, what in bad:
                run.violation(key, what + "  [" + l + "]", replay)
            if canon(a, call, T, mode, st) != canon(b, call, T, mode, st):
                if not bad and not tainted:
                    run.violation("correspondence:%s:%s" % (mode, call["cmd"]),
                                  "model and implementation differ on `%s` (%s): impl=%r model=%r" % (l, tag, a, b), replay, no_input=True)
            else:
                run.cov["traces_validated_against_impl"] += 1


# --------------------------------------------------------------------------
def build_scripts(run, exe):
    """Phase 0 loads every configuration to learn its sets; then the call scripts."""
    rng = run.rng
    cfgs = G.topo_configs(C.REPO, rng, run.tier)
    thorough = run.tier == "thorough"
    p0 = []
    for i, (name, lines, kind, flag, env) in enumerate(cfgs):
        envs = [l for l in lines if l.startswith("env")]
        post = [l[5:] for l in lines if l.startswith("post ")]
        p0 += ["echo CFG %d" % i] + envs + ["new"] + [l for l in lines if not l.startswith("env") and not l.startswith("post ")] + ["load"] + post + \
              ["destroy"] + ["env " + e.split()[1] for e in envs]
    rc, out, err = C.sh([exe], input=("\n".join(p0) + "\n").encode(), env=C.run_env(), timeout=120)
    topos = [None] * len(cfgs)
    cur = -1
    for l in out.decode().split("\n"):
        if l.startswith("echo CFG "):
            cur = int(l.split()[2])
        elif l.startswith("I ") and cur >= 0:
            topos[cur] = G.Topo(l)          # the last one: after the post-load steps
        elif l.startswith("load rc") and cur >= 0:
            topos[cur] = None
    if rc != 0:
        raise RuntimeError("phase 0 (loading the topology configurations) failed rc=%d: %s" % (rc, err.decode(errors="replace")[-2000:]))

    fails = G.failing_configs(C.VERIF)

    def stage(cfg, explicit_flags=False):
        name, lines, kind, flag, env = cfg
        envs = [l for l in lines if l.startswith("env")]
        body = [l for l in lines if not l.startswith("env") and not l.startswith("post ")]
        post = [l[5:] for l in lines if l.startswith("post ")]
        if explicit_flags and not any(l.startswith("flags") for l in body):
            body.append("flags 0")
        return envs + body + [G.cfg_line(name, kind, flag, env), "load"] + ["env " + e.split()[1] for e in envs] + post

    scripts = []
    for proc, (pre, ncalls) in enumerate([([], 70 if not thorough else 400), (["os pm_unsupported 1", "os maxnodes 128"], 40 if not thorough else 250)]):
        s = list(pre)
        for ti, (cfg, T) in enumerate(zip(cfgs, topos)):
            if T is None:
                continue
            if proc == 1 and ti % 3 != 0 and not thorough:
                continue
            name = cfg[0]
            s += ["new"] + stage(("ok:" + name,) + cfg[1:])
            # the hooks hwloc installed + the (fake) kernel
            s += ["mode os"] + G.gen_os_state(rng)
            if proc == 0 and (ti < 4 or thorough):
                s += G.boundary_calls(T)
            if proc == 0 and T.this:
                # the thread-handle entry points on ANOTHER thread: the kernel reports masks holding the first PU, the
                # LAST PU of the complete set, each singleton, everything; what is read back must be that mask
                top = T.ccs.fin.bit_length() - 1
                pus = [i for i in range(top + 1) if T.ccs.mem(i)]
                masks = [1 << pus[0], 1 << pus[-1], (1 << pus[0]) | (1 << pus[-1]), T.ccs.fin, T.ccs.fin & ~(1 << pus[-1])] + [1 << i for i in pus[:64]]
                for m in masks:
                    mt = G.BS(False, m).text()
                    s += ["os aff " + mt, "gtcbo 0", "gtcb 0", "gcb 2", "gpcb 0 2", "stcbo %s 0" % mt, "stcb %s 0" % mt]
                s += G.gen_os_state(rng)
            if proc == 0 and T.this:
                # last cpu location through /proc/<tid>/stat (interposed openat) with hostile task names: the field
                # that is read must be field 39 whatever the name holds
                pus = [i for i in range(T.ccs.fin.bit_length()) if T.ccs.mem(i)]
                s += ["os ret all 0 0", "os ret getcpu -1 ENOSYS"]
                for k, nm in enumerate(G.HOSTILE_NAMES):
                    pu = pus[(k * 5 + 1) % len(pus)]
                    s += ["os stat " + G.stat_line(4242, nm, pu).hex(), "glcl 0", "glcl 1", "glcl 2", "gplcl self 0", "gplcl self 2", "gplcl 0 2"]
                s += ["os stat " + b"4242 (x".hex(), "glcl 0", "os stat " + b"4242 (x) S 1 2".hex(), "gplcl self 2", "os stat empty", "glcl 1", "os stat -"]
                s += G.gen_os_state(rng)
            if proc == 0:
                # every get-call with its OUTPUT bitmap pre-filled three ways (an unrelated set, everything, nothing):
                # the answers must be identical and equal to the model's
                gets = ["gcb 0", "gcb 1", "gcb 2", "gcb 4", "gpcb self 0", "gpcb 0 2", "gpcb self 4", "gtcb 0", "gtcbo 0", "glcl 2", "glcl 0", "gplcl self 2",
                        "gmb 0", "gmb 32", "gmb 34", "gpmb 0 32", "gamb 4096 0", "gamb 8192 32", "gaml 4096 0", "gaml 4096 32"]
                top = max(T.ccs.fin.bit_length(), T.cns.fin.bit_length(), 2)
                unrelated = G.BS(False, (1 << (top - 1)) | (1 << (top + 3)) | 2)
                s += ["os ret all 0 0", "os stat -"]
                for mline in ("mode os", "mode hooks 3fffff"):
                    s += [mline] + (["hookret all 0 keep 0:5 3"] if "hooks" in mline else [])
                    for pf in (unrelated.text(), "1:0", "0:0"):
                        s += ["prefill " + pf] + gets
                s += ["prefill default", "mode os"] + G.gen_os_state(rng)
            if proc == 0:
                # the membind stream: whole-topology / covering / just-short sets on every set-like entry point, by
                # cpuset and BY NODESET, through the installed hooks and through all-present spy hooks
                mc = G.membind_cover_calls(T)
                s += mc + ["mode hooks 3fffff", "hookret all 0 keep 0:1 2"] + mc + ["mode os"]
            for k in range(3):
                s += G.gen_calls(rng, T, ncalls // 3)
                s += G.gen_os_state(rng)
            # bind.c alone over scripted hooks, many presence configurations
            for k in range(4 if not thorough else 12):
                s += G.gen_hook_state(rng)
                s += G.gen_calls(rng, T, ncalls // 4)
            if proc == 0 and ti < 2:
                s += ["mode hooks 3fffff", "hookret all 0 keep 0:1 2"] + G.boundary_calls(T)
                s += ["mode hooks 0"] + G.boundary_calls(T)[:600]
            s += ["destroy"]
        if proc == 0:
            # handle REUSE: one or two FAILED loads (any configuration) on the same hwloc_topology_t, then this
            # configuration; the hooks must be those of the last load alone
            for ti, (cfg, T) in enumerate(zip(cfgs, topos)):
                if T is None:
                    continue
                for rep in range(1 if not thorough else 3):
                    s += ["new"]
                    for k in range(rng.choice([1, 1, 2])):
                        s += stage(rng.choice(fails))
                    s += stage(("ok:reuse:" + cfg[0],) + cfg[1:], explicit_flags=True)
                    s += ["mode os"] + G.gen_os_state(rng)
                    c, n = T.cs.text(), T.ns.text()
                    s += ["scb %s 2" % c, "gcb 2", "gcb 0", "glcl 2", "spmb 0 %s 2 32" % n, "gpmb 0 32", "smb %s 2 34" % n, "gmb 34",
                          "samb 4096 %s 2 32" % n, "amb 4096 %s 2 36" % n]
                    s += G.gen_calls(rng, T, 12)
                    s += ["destroy"]
            # DERIVED topologies: dup, dup of dup, shmem write+adopt, XML export reloaded into a fresh handle; the
            # binding transcript then runs on the derivation (a foreign source must stay foreign: dummy hooks)
            chains = [["dup"], ["dup", "dup"], ["adopt"], ["dup", "adopt"], ["xmlreload 0"], ["xmlreload 2"], ["dup", "xmlreload 0", "dup"]]
            for ti, (cfg, T) in enumerate(zip(cfgs, topos)):
                if T is None:
                    continue
                for rep in range(2 if not thorough else 5):
                    chain = chains[(ti + rep * 3) % len(chains)] if rep < 2 else rng.choice(chains)
                    s += ["new"] + stage(("ok:" + cfg[0],) + cfg[1:])
                    for d in chain:
                        if d.startswith("xmlreload"):
                            fl = int(d.split()[1])
                            s.append(G.cfg_line("ok:xmlreload:" + cfg[0], "xml", bool(fl & 2), None))
                        s.append(d)
                    s += ["mode os"] + G.gen_os_state(rng)
                    c, n = T.cs.text(), T.ns.text()
                    s += ["scb %s 2" % c, "scb %s 0" % c, "gcb 2", "gcb 0", "glcl 2", "stcb %s 0" % c, "spcb 0 %s 0" % c, "smb %s 2 34" % n, "gmb 34",
                          "spmb 0 %s 2 32" % n, "samb 4096 %s 2 32" % n, "gamb 4096 32", "amb 4096 %s 2 36" % n]
                    s += G.gen_calls(rng, T, 10)
                    s += ["destroy"]
        scripts.append(s)
    return scripts


# --------------------------------------------------------------------------
def live_part(run, live):
    """Observed on the running sandbox without interposition.  Not proved."""
    rng = run.rng
    env = C.run_env()
    rc, out, err = C.sh([live], input=b"affinity\nnew\nsrc native\nload\n", env=env, timeout=60)
    lines = out.decode().split("\n")
    if rc != 0 or not lines[0].startswith("A raw=") or not lines[1].startswith("I "):
        run.violation("live-setup", "live harness could not load the native topology", "kind: live\n" + out.decode() + err.decode(errors="replace")[-1500:], no_input=True)
        return
    orig = G.BS.parse(lines[0].split("=", 1)[1])
    T = G.Topo(lines[1])
    allowed = orig.inter(T.cs)
    cpus = [i for i in range(allowed.fin.bit_length()) if allowed.mem(i)]
    n = len(cpus)
    subsets = []
    limit = 8 if run.tier == "quick" else 16
    if n <= limit:
        for m in range(1, 1 << n):
            subsets.append(sum(1 << cpus[i] for i in range(n) if m >> i & 1))
        exhaustive = True
    else:
        exhaustive = False
        seen = set()
        for c in cpus:
            seen.add(1 << c)
        seen.add(allowed.fin)
        for c in cpus:
            seen.add(allowed.fin & ~(1 << c))
        want = 1500 if run.tier == "quick" else 60000
        while len(seen) < min(want, (1 << n) - 1):
            m = 0
            k = rng.randint(1, n)
            for c in rng.sample(cpus, k):
                m |= 1 << c
            seen.add(m)
        subsets = sorted(seen)
    script = ["affinity", "new", "src native", "load"]
    for i, m in enumerate(subsets):
        script.append("rt %s %d" % (G.BS(False, m).text(), 2 if i % 7 else 0))
    nontrivial = G.BS(False, sum(1 << c for c in cpus[1::2]) or allowed.fin)
    # load in a worker thread bound to ONE PU while the main thread keeps the wide binding: thread binding and
    # process binding differ, so a backend that saves / restores the wrong one is visible
    script += ["destroy"]
    nthread = 0
    for comp in (None, "x86", "linux"):
        script.append("env HWLOC_COMPONENTS" + (" " + comp if comp else ""))
        for fl in (0, 2, 0x12, 0x22, 0x40):
            for c in cpus[:16]:
                script.append("threadload %d %d" % (c, fl))
                nthread += 1
    script += ["env HWLOC_COMPONENTS"]
    # round trips on ANOTHER thread (pthread_t), on its tid (HWLOC_CPUBIND_THREAD) and on a parked CHILD process:
    # first PU, LAST PU, both, every singleton, the whole allowed set, all but the last, some random subsets
    osets = [1 << cpus[0], 1 << cpus[-1], (1 << cpus[0]) | (1 << cpus[-1]), allowed.fin, allowed.fin & ~(1 << cpus[-1]), allowed.fin & ~(1 << cpus[0])]
    osets += [1 << c for c in cpus]
    for _ in range(8 if run.tier == "quick" else 200):
        m = 0
        for c in rng.sample(cpus, rng.randint(1, n)):
            m |= 1 << c
        osets.append(m)
    script += ["new", "src native", "load"]
    nother = 0
    for m in osets:
        mt = G.BS(False, m).text()
        script += ["ot %s 0" % mt, "tp %s 0" % mt, "cp %s 0" % mt, "cp %s 2" % mt]
        nother += 4
    # last cpu location under hostile TASK NAMES (prctl(PR_SET_NAME)): calling thread, parked worker, parked child
    s1 = G.BS(False, (1 << cpus[0]) | (1 << cpus[1 % n]))
    s2 = G.BS(False, 1 << cpus[n // 2])
    s3 = G.BS(False, (1 << cpus[-1]) | (1 << cpus[-2 % n]))
    script += ["rt %s 2" % s1.text(), "ot %s 0" % s2.text(), "cp %s 0" % s3.text()]
    nrt_extra, nother = 1, nother + 2
    nlcl = 0
    for nm in G.HOSTILE_NAMES:
        h = nm.hex() or "-"
        script += ["taskname main " + h, "taskname worker " + h, "taskname child " + h,
                   "lcl main 0", "lcl main 1", "lcl main 2", "lcl mainproc 0", "lcl mainproc 2", "lcl worker 0", "lcl child 0", "lcl child 2"]
        nlcl += 8
    script += ["taskname main " + b"hwv_bind".hex(), "destroy"]
    # binding through a FOREIGN topology, its duplicate and a duplicate of that must not touch the real affinity
    for c in cpus[:16]:
        script.append("foreigndup %d pu:%d" % (c, max(cpus) + 1))
    script += ["rawbind " + nontrivial.text(), "affinity", "loadcheck 0", "loadcheck 2"]
    script += ["env HWLOC_COMPONENTS x86", "loadcheck 0", "env HWLOC_COMPONENTS x86,stop", "loadcheck 0", "env HWLOC_COMPONENTS -x86", "loadcheck 0",
               "env HWLOC_COMPONENTS", "loadcheck 16", "affinity", "rawbind " + orig.text(), "affinity"]
    rc, out, err = C.sh([live], input=("\n".join(script) + "\n").encode(), env=env, timeout=600)
    ol = out.decode().split("\n")
    if rc != 0:
        run.violation("live-crash", "live harness failed rc=%d" % rc, "kind: live\nscript:\n%s\nend-script\n%s" % ("\n".join(script[:50]), err.decode(errors="replace")[-2000:]))
        return
    nrt = nload = nthr = nfor = noth = ncl = 0
    x86_seen = False
    affs = []
    for l in ol:
        if l.startswith("T "):
            kv = dict(f.split("=", 1) for f in l.split()[1:])
            nrt += 1
            want = kv["set"]
            ok = kv["set_rc"] == "0" and kv["get_rc"] == "0" and kv["get"] == want and kv["raw"] == want and kv["last_rc"] == "0" and \
                G.BS.parse(kv["last"]).subset(G.BS.parse(want)) and not G.BS.parse(kv["last"]).is_empty()
            run.count(l, nontrivial=True, kind="live:roundtrip", sample={"live": l})
            if not ok:
                run.violation("live-roundtrip", "bind / read back / last location disagree: " + l,
                              "kind: live\nscript:\nnew\nsrc native\nload\nrt %s %s\nend-script\n%s\n" % (want, kv["flags"], l))
        elif l.startswith("L "):
            kv = dict(f.split("=", 1) for f in l.split()[1:])
            nload += 1
            if "x86" in kv.get("backends", ""):
                x86_seen = True
            run.count(l, nontrivial=True, kind="live:load", sample={"live": l})
            if kv["before"] != kv["after"] or kv["rc"] != "0":
                run.violation("live-load-changes-binding", "hwloc_topology_load changed the caller's affinity: " + l, "kind: live\n" + l + "\n")
        elif l.startswith("M "):
            kv = dict(f.split("=", 1) for f in l.split()[1:])
            nthr += 1
            if "x86" in kv.get("backends", ""):
                x86_seen = True
            run.count(l, nontrivial=True, kind="live:threadload", sample={"live": l})
            want = G.BS(False, 1 << int(kv["cpu"])).text()
            if kv["bind_rc"] != "0" or kv["rc"] != "0" or kv["before"] != want:
                run.violation("live-threadload-setup", "worker could not bind / load: " + l, "kind: live\n" + l + "\n", no_input=True)
            elif kv["after"] != kv["before"]:
                run.violation("live-load-changes-thread-binding", "hwloc_topology_load (flags %s) in a thread bound to PU %s returned with the thread bound to %s" % (kv["flags"], kv["cpu"], kv["after"]),
                              "kind: live\nscript:\nthreadload %s %s\nend-script\n%s\n" % (kv["cpu"], kv["flags"], l))
            elif kv["main_after"] != kv["main_before"]:
                run.violation("live-load-changes-other-thread", "hwloc_topology_load in a worker changed the main thread's affinity: " + l, "kind: live\n" + l + "\n")
        elif l.startswith("O "):
            kv = dict(f.split("=", 1) for f in l.split()[1:])
            noth += 1
            want = kv["set"]
            run.count(l, nontrivial=True, kind="live:other-" + kv["kind"], sample={"live": l})
            ok = kv["set_rc"] == "0" and kv["get_rc"] == "0" and kv["get"] == want and kv["raw"] == want and kv["last_rc"] == "0" and \
                G.BS.parse(kv["last"]).subset(G.BS.parse(want)) and not G.BS.parse(kv["last"]).is_empty()
            if not ok:
                run.violation("live-roundtrip-other:" + kv["kind"], "bind / read back / last location of another %s disagree: %s" % (
                    {"ot": "thread (pthread_t)", "tp": "thread (tid, HWLOC_CPUBIND_THREAD)", "cp": "process (child pid)"}[kv["kind"]], l),
                    "kind: live\nscript:\nnew\nsrc native\nload\n%s %s %s\nend-script\n%s\n" % (kv["kind"], want, kv["flags"], l))
        elif l.startswith("C "):
            kv = dict(f.split("=", 1) for f in l.split()[1:])
            ncl += 1
            lim = {"main": s1 if kv["flags"] == "2" else s1.union(s2), "mainproc": s1 if kv["flags"] == "2" else s1.union(s2), "worker": s2, "child": s3}[kv["target"]]
            run.count(l + "|%d" % ncl, nontrivial=True, kind="live:lastcpu-" + kv["target"], sample={"live": l})
            got = G.BS.parse(kv["last"])
            if kv["rc"] != "0" or got.is_empty() or not got.subset(lim):
                nm = G.HOSTILE_NAMES[(ncl - 1) // 8]
                run.violation("live-last-cpu-location:" + kv["target"], "task name %r: last cpu location %s (rc=%s) is not inside the binding %s: %s" % (nm, kv["last"], kv["rc"], lim.text(), l),
                              "kind: live\nscript:\nnew\nsrc native\nload\nrt %s 2\not %s 0\ncp %s 0\ntaskname main %s\ntaskname worker %s\ntaskname child %s\nlcl %s %s\nend-script\n%s\n" % (
                                  s1.text(), s2.text(), s3.text(), nm.hex() or "-", nm.hex() or "-", nm.hex() or "-", kv["target"], kv["flags"], l))
        elif l.startswith("F "):
            kv = dict(f.split("=", 1) for f in l.split()[1:])
            nfor += 1
            run.count(l, nontrivial=True, kind="live:foreign-" + kv["which"], sample={"live": l})
            if kv["before"] != kv["after"] or kv["set_rc"] != "0" or kv["get_rc"] != "0" or kv["get"] != kv["complete"] or kv["this"] != "0":
                run.violation("live-foreign-topology-binds:" + kv["which"], "binding through a topology that is not this system (%s) had a system effect or did not report the whole machine: %s" % (kv["which"], l),
                              "kind: live\nscript:\nforeigndup %s pu:16\nend-script\n%s\n" % (kv["cpu"], l))
        elif l.startswith("A raw="):
            affs.append(l.split("=", 1)[1])
    if len(affs) < 4 or affs[-1] != orig.text() or affs[1] != nontrivial.text() or affs[2] != nontrivial.text():
        run.violation("live-restore", "affinity sequence %r (original %s, test binding %s)" % (affs, orig.text(), nontrivial.text()), "kind: live\n" + "\n".join(ol[-12:]))
    run.cov["live"] = {"observed_not_proved": True, "allowed_cpus": n, "exhaustive_subsets": exhaustive, "round_trips": nrt,
                       "load_checks": nload, "threaded_load_checks": nthr, "foreign_dup_checks": nfor, "other_thread_and_child_round_trips": noth, "last_cpu_location_under_hostile_names": ncl, "x86_backend_exercised": x86_seen, "original_affinity_restored": bool(affs) and affs[-1] == orig.text()}
    if nrt != len(subsets) + nrt_extra or nload < 6 or nthr != nthread or noth != nother or ncl != nlcl:
        run.violation("live-incomplete", "live part produced %d round trips (wanted %d) and %d load checks" % (nrt, len(subsets), nload), "kind: live\n" + "\n".join(ol[-8:]), no_input=True)


def loadtrace_part(run, exe, drv):
    """mode os for a whole native load: every affinity call the load issues is recorded and answered by the
    scripted kernel, which reports DIFFERENT masks for the calling thread (pid 0) and for per-tid queries (the
    process view).  Clause: the LAST sched_setaffinity of the load carries the mask the FIRST thread-level
    sched_getaffinity returned; the sequence equals the model's (x86_look)."""
    rng = run.rng
    cases = []
    for fl in (0x12, 0x12, 0x12, 0, 2, 0x22, 0x40, 0x52):
        k = rng.randrange(16)
        thread = 1 << k
        if rng.random() < 0.3:
            thread |= 1 << rng.randrange(16)
        proc = thread | rng.getrandbits(16) | (1 << rng.randrange(16))
        cases.append((fl, G.BS(False, thread), G.BS(False, proc)))
    small = [e for n, e in load_sources() if n.startswith("fsroot:2")]
    envs = [[] for _ in cases]
    if small:   # discovery from a tree with FEWER CPUs than the thread-level mask reports: still restored untruncated
        for fl in (0, 0x12, 2):
            cases.append((fl, G.BS(False, (1 << 5) | (1 << 11)), G.BS(False, 0xffff)))
            envs.append(small[0])
    cs = []
    for (fl, th, pr), ev in zip(cases, envs):
        cs += ev + ["os aff " + th.text(), "os affproc " + pr.text(), "os loadtrace %d" % fl] + ["env " + x.split()[1] for x in ev]
    rc, out, err = C.sh([exe], input=("\n".join(cs) + "\n").encode(), env=C.run_env(), timeout=120)
    lts = [l for l in out.decode().split("\n") if l.startswith("LT ")]
    if rc != 0 or len(lts) != len(cases):
        run.violation("loadtrace-crash", "interposed load failed rc=%d" % rc, "kind: input\nscript:\n%s\nend-script\n%s" % ("\n".join(cs), err.decode(errors="replace")[-2000:]))
        return
    ms = []
    for (fl, th, pr), lt in zip(cases, lts):
        nb = re.search(r"nbprocs=(-?\d+)", lt).group(1)
        ms += ["nbprocs " + nb, "os aff " + th.text(), "os affproc " + pr.text(), "os loadtrace %d" % fl]
    rc2, out2, err2 = C.sh([drv], input=("\n".join(ms) + "\n").encode(), timeout=60)
    lxs = [l for l in out2.decode().split("\n") if l.startswith("LX")]
    nset = 0
    for (fl, th, pr), ev, lt, lx in zip(cases, envs, lts, lxs):
        evs = EV_RE.findall(lt.split("|", 1)[1])
        sets = [a.split(",")[1] for n, a in evs if n == "setaffinity"]
        gets0 = [i for i, (n, a) in enumerate(evs) if n == "getaffinity" and a == "0"]
        replay = "kind: input\nscript:\n%sos aff %s\nos affproc %s\nos loadtrace %d\nend-script\nimpl:  %s\nmodel: %s\n" % (
            "".join(x + "\n" for x in ev), th.text(), pr.text(), fl, lt, lx)
        run.count(lt, nontrivial=bool(sets), kind="os:loadtrace", sample={"load": lt[:300], "model": lx[:300]})
        if sets:
            nset += 1
            if not gets0 or sets[-1] != th.text():
                run.violation("load-restores-wrong-binding", "flags %d: the last sched_setaffinity of hwloc_topology_load carries %s, the thread-level sched_getaffinity returned %s (process view %s)" % (fl, sets[-1], th.text(), pr.text()), replay)
                continue
        msets = re.findall(r"setaffinity\(0,([^)]*)\)", lx)
        if sets != msets:
            run.violation("correspondence:os:loadtrace", "affinity calls of the load differ from the x86 model (flags %d): impl=%r model=%r" % (fl, sets[-3:], msets[-3:]), replay, no_input=True)
        else:
            run.cov["traces_validated_against_impl"] += 1
    run.cov["loadtrace"] = {"loads": len(cases), "loads_that_rebound": nset}


def load_sources():
    """(name, env lines) of every source kind a load can discover from, through the environment"""
    from gen import topo_sources as TS
    sc = TS.Scratch(cache=True)
    srcs = [("native", [])]

    def tb(kind, name):
        p = os.path.join(C.REPO, "tests/hwloc", kind, name + ".tar.bz2")
        return sc.unpack(p) if os.path.exists(p) else None
    for nm in ("2i386-2t-hugepagesizecount", "2ps3-2t", "8ia64-2n2s2c", "128ia64-17n4s2c"):   # smaller and larger than this machine
        d = tb("linux", nm)
        if d:
            srcs.append(("fsroot:" + nm, ["env HWLOC_FSROOT " + d]))
    for nm in ("AMD-K8-SledgeHammer-2xOpteron-250", "Intel-Core-2xXeon-E5345"):
        d = tb("x86", nm)
        if d:
            srcs.append(("cpuid:" + nm, ["env HWLOC_CPUID_PATH " + d]))
    x = os.path.join(C.REPO, "tests/hwloc/xml/16em64t-4s2c2t-offlines.xml")
    if os.path.exists(x):
        srcs.append(("xml", ["env HWLOC_XMLFILE " + x]))
    srcs.append(("synthetic:small", ["env HWLOC_SYNTHETIC pack:2 pu:2"]))
    srcs.append(("synthetic:large", ["env HWLOC_SYNTHETIC numa:4 pack:4 core:8 pu:2"]))
    return srcs


COMPONENTS = (None, "x86", "linux", "linux,stop", "-x86", "x86,stop")


def load_matrix_part(run, live):
    """LIVE, observed: the caller's binding is the same before and after hwloc_topology_load() for every source kind
    (native, HWLOC_FSROOT snapshots smaller and larger than this machine, cpuid dumps, XML, synthetic) x every
    component selection x HWLOC_THISSYSTEM unset / 1, in the main thread (bound to a non-trivial set) and in a
    worker thread bound to one PU.  A load may fail for some combinations; the binding must survive anyway."""
    rc, out, err = C.sh([live], input=b"affinity\n", env=C.run_env(), timeout=60)
    orig = G.BS.parse(out.decode().split("\n")[0].split("=", 1)[1])
    cpus = [i for i in range(orig.fin.bit_length()) if orig.mem(i)]
    nontrivial = G.BS(False, sum(1 << c for c in cpus[1::2]) or orig.fin)
    picks = sorted(set([cpus[0], cpus[len(cpus) // 3], cpus[-1]]))
    script = ["rawbind " + nontrivial.text(), "affinity"]
    combos = []
    for name, envs in load_sources():
        for comp in COMPONENTS:
            for this in (None, "1"):
                e = list(envs) + (["env HWLOC_COMPONENTS " + comp] if comp else []) + (["env HWLOC_THISSYSTEM " + this] if this else [])
                desc = "%s components=%s HWLOC_THISSYSTEM=%s" % (name, comp or "default", this or "unset")
                combos.append(desc)
                script += e + ["echo MX " + desc, "loadcheck 0"] + ["threadload %d %d" % (c, fl) for c, fl in zip(picks, (0, 18, 2))] + \
                          ["env " + x.split()[1] for x in e]
    script += ["affinity", "rawbind " + orig.text(), "affinity"]
    rc, out, err = C.sh([live], input=("\n".join(script) + "\n").encode(), env=C.run_env(), timeout=900)
    if rc != 0:
        run.violation("live-loadmatrix-crash", "live harness failed rc=%d" % rc, "kind: live\n" + err.decode(errors="replace")[-2500:])
        return
    desc, envlines, nl, nm, nfail = "?", [], 0, 0, 0
    affs = []
    for l in out.decode().split("\n"):
        if l.startswith("echo MX "):
            desc = l[8:]
        elif l.startswith("L "):
            kv = dict(f.split("=", 1) for f in l.split()[1:])
            nl += 1
            nfail += kv["rc"] != "0"
            run.count(desc + "|" + l, nontrivial=True, kind="live:loadmatrix", sample={"source": desc, "live": l})
            if kv["before"] != kv["after"]:
                run.violation("live-load-changes-binding:" + desc.split()[0].split(":")[0], "hwloc_topology_load (%s) changed the caller's affinity from %s to %s" % (desc, kv["before"], kv["after"]),
                              "kind: live\nsource: %s\nscript:\nrawbind %s\nloadcheck 0\nend-script\n%s\n" % (desc, nontrivial.text(), l))
        elif l.startswith("M "):
            kv = dict(f.split("=", 1) for f in l.split()[1:])
            nm += 1
            run.count(desc + "|" + l, nontrivial=True, kind="live:loadmatrix-thread")
            if kv["bind_rc"] == "0" and (kv["after"] != kv["before"] or kv["main_after"] != kv["main_before"]):
                run.violation("live-load-changes-thread-binding:" + desc.split()[0].split(":")[0],
                              "hwloc_topology_load (%s, flags %s) in a thread bound to PU %s: thread %s -> %s, main thread %s -> %s" % (
                                  desc, kv["flags"], kv["cpu"], kv["before"], kv["after"], kv["main_before"], kv["main_after"]),
                              "kind: live\nsource: %s\nscript:\nthreadload %s %s\nend-script\n%s\n" % (desc, kv["cpu"], kv["flags"], l))
        elif l.startswith("A raw="):
            affs.append(l.split("=", 1)[1])
    if len(affs) != 3 or affs[0] != nontrivial.text() or affs[1] != nontrivial.text() or affs[2] != orig.text():
        run.violation("live-loadmatrix-restore", "affinity sequence %r (test binding %s, original %s)" % (affs, nontrivial.text(), orig.text()), "kind: live\n")
    if nl != len(combos) or nm != 3 * len(combos):
        run.violation("live-loadmatrix-incomplete", "%d of %d loads, %d of %d threaded loads" % (nl, len(combos), nm, 3 * len(combos)), "kind: live\n" + out.decode()[-1500:], no_input=True)
    run.cov["load_matrix"] = {"observed_not_proved": True, "combinations": len(combos), "loads": nl, "threaded_loads": nm, "loads_that_failed": nfail}


def replay_script(path):
    txt = open(path).read()
    m = re.search(r"script:\n(.*?)\nend-script", txt, re.S)
    if m:
        return m.group(1).split("\n")
    return [l for l in txt.split("---\n", 1)[-1].split("\n") if l.strip()]


def check(run, replay=None):
    proof = C.prove("C10")
    exe, live, drv = _build()
    ev = Evaluator(run, exe, drv)
    if replay:
        ev.evaluate(replay_script(replay), "replay")
        run.cov["replay"] = replay
        return run.finish(proof, trusted=TRUSTED)
    for p in sorted(glob.glob(os.path.join(C.VERIF, "corpus", "c10", "*.case"))):
        lines = [l.replace("@REPO@", C.REPO).replace("@VERIF@", C.VERIF) for l in open(p).read().split("\n") if l.strip() and not l.startswith("#")]
        ev.evaluate(lines, "corpus:" + os.path.basename(p))
        run.bump("corpus")
    for i, s in enumerate(build_scripts(run, exe)):
        ev.evaluate(s, "gen%d" % i)
    run.cov["clause_population"] = ev.stats
    loadtrace_part(run, exe, drv)
    live_part(run, live)
    load_matrix_part(run, live)
    return run.finish(proof, trusted=TRUSTED)


TRUSTED = [
    "interposition: the harness executable defines sched_setaffinity, sched_getaffinity, sched_getcpu and syscall() (mbind, set_mempolicy, get_mempolicy, migrate_pages, move_pages); these are all the binding-related imports of topology-linux.o (checked with nm); /proc/<pid>/task, /proc/<tid>/stat and mmap are not interposed (model: K_tasklist, K_lastcpu, K_mmap answered as a single-threaded process)",
    "recording hooks: struct hwloc_binding_hooks layout from include/private/private.h of the current tree",
    "LIVE PART IS OBSERVED, NOT PROVED: round trip set->get->last_cpu_location over subsets of the allowed CPUs and affinity before/after hwloc_topology_load (default, IS_THISSYSTEM, HWLOC_COMPONENTS=x86 / x86,stop / -x86, RESTRICT_TO_CPUBINDING) and, in a worker thread bound to one PU while the main thread keeps the wide binding, for every allowed PU x flags {0, IS_THISSYSTEM, 0x12, 0x22, DONT_CHANGE_BINDING} x HWLOC_COMPONENTS {default, x86, linux}: the worker's and the main thread's sched_getaffinity before/after, on this sandbox's kernel; x86_restores_binding is proved only against an idealised affinity model",
]
