"""C13 - distances: what is added is what is returned, and it follows the objects.

proof (Props/Properties_C13.v) + correspondence (harness/hwv_distances.c, which
compiles the current hwloc/distances.c into itself, vs the extracted model) +
the declarative oracle of gen/distances_gen.py evaluated on the C transcript."""
import os
import random
import time

from hv import common as C
from gen import distances_gen as G

CORPUS = os.path.join(C.VERIF, "corpus", "c13")


WHITEBOX = {"ok": True, "error": ""}


def _tools():
    """The harness is first built with its white-box part (current distances.c
    compiled into it, static functions called directly); if that does not
    compile any more the black-box build (public API only) is used and the
    direct-call correspondence is reported as broken by check()."""
    try:
        exe = C.build_harness("hwv_distances", ["hwv_distances.c"], extra_flags=["-DHWV_WHITEBOX"])
        WHITEBOX["ok"] = True
    except RuntimeError as e:
        WHITEBOX["ok"], WHITEBOX["error"] = False, str(e)[-3000:]
        exe = C.build_harness("hwv_distances_bb", ["hwv_distances.c"])
    drv = C.extract("C13", "drv_c13.ml")
    return exe, drv


def _norm_model(m_out):
    """black-box harness cannot print the container id of a returned structure"""
    if WHITEBOX["ok"]:
        return m_out
    import re as _re
    return _re.sub(r"(?m)^(H \d+) id=\d+", r"\1 id=?", m_out)


def prebuild():
    _tools()


def run_script(exe, drv, lines, timeout=120):
    inp = ("\n".join(lines) + "\n").encode()
    rc1, out_c, err_c = C.sh([exe], input=inp, env=C.run_env(), timeout=timeout)
    c_out = out_c.decode(errors="replace")
    rc2, out_m, err_m = C.sh([drv], input=G.model_input(c_out).encode(), timeout=timeout)
    return rc1, c_out, err_c.decode(errors="replace"), rc2, _norm_model(out_m.decode(errors="replace")), err_m.decode(errors="replace")


def first_diff(a, b):
    la, lb = a.split("\n"), b.split("\n")
    for i in range(max(len(la), len(lb))):
        x = la[i] if i < len(la) else "<end>"
        y = lb[i] if i < len(lb) else "<end>"
        if x != y:
            return i, x, y
    return None


def split_cases(text):
    """transcript -> {case index: text}"""
    res, cur, idx = {}, [], None
    for l in text.split("\n"):
        if l.startswith("> case "):
            if idx is not None:
                res[idx] = "\n".join(cur)
            idx, cur = int(l.split()[2]), []
        cur.append(l)
    if idx is not None:
        res[idx] = "\n".join(cur)
    return res


def load_corpus():
    cases = []
    if os.path.isdir(CORPUS):
        for n in sorted(os.listdir(CORPUS)):
            if n.endswith(".case"):
                lines = [l.rstrip("\n") for l in open(os.path.join(CORPUS, n)) if l.strip() and not l.startswith("#")]
                cases.append((n, lines))
    return cases


def evaluate(k, exe, drv, lines):
    """one case alone -> (violation or None, correspondence diff or None, c_out, m_out, crashed)"""
    rc1, c_out, err_c, rc2, m_out, err_m = run_script(exe, drv, ["case 0"] + lines, timeout=60)
    vs = G.run_oracle(k, c_out)
    d = first_diff(c_out, m_out)
    crash = None
    if rc1 != 0:
        crash = "C harness exit code %d\n%s" % (rc1, err_c[-3000:])
    if rc2 != 0 and d is None:
        d = (-1, "<model driver failed rc=%d>" % rc2, err_m[-500:])
    return (vs[0][2] if vs else None), d, c_out, m_out, crash


def _seen(run, key):
    """known finding or already recorded: no need to shrink it again"""
    import re as _re
    return any(_re.fullmatch(kn["key"], key) for kn in run.known) or any(v["key"] == key for v in run.violations)


def crash_key(crash, lines):
    import re as _re
    key = "crash:" + ("asan" if "AddressSanitizer" in crash else "ubsan" if "runtime error" in crash else "exit")
    fn = _re.search(r"#\d+ 0x[0-9a-f]+ in (hwloc\w+)", crash)
    return key + ":" + (fn.group(1) if fn else lines[-1].split()[0])


def report_case(run, k, exe, drv, name, lines, viol, diff, crash):
    """shrink and record whatever is wrong with one case"""
    def shrunk(pred):
        return G.shrink(lines, pred, budget=60 if run.tier == "quick" else 200)

    if crash:
        key = crash_key(crash, lines)
        if _seen(run, key):
            run.violation(key, "sanitizer report (seen before)", "")
            run.bump("known-or-duplicate:" + key)
            return
        small = shrunk(lambda ls: evaluate(k, exe, drv, ls)[4] is not None)
        v2, d2, c_out, m_out, cr2 = evaluate(k, exe, drv, small)
        run.violation(crash_key(cr2 or crash, small), "the C harness crashed / sanitizer report on case %s" % name,
                      "kind: input\ncase: %s\nscript:\n%s\n--- stderr\n%s\n--- implementation\n%s\n" % (name, "\n".join(small), cr2 or crash, c_out[-4000:]))
        return
    if viol is not None:
        key = viol.key
        if _seen(run, key):
            run.violation(key, viol.what, "")
            run.bump("known-or-duplicate:" + key)
            return
        small = shrunk(lambda ls: (lambda r: r[0] is not None and r[0].key == key)(evaluate(k, exe, drv, ls)))
        v2, d2, c_out, m_out, _ = evaluate(k, exe, drv, small)
        run.violation(key, (v2 or viol).what,
                      "kind: input\ncase: %s\nscript:\n%s\n--- implementation\n%s\n--- model\n%s\n" % (name, "\n".join(small), c_out, m_out))
        return
    if diff is not None:
        small = shrunk(lambda ls: (lambda r: r[0] is None and r[1] is not None)(evaluate(k, exe, drv, ls)))
        v2, d2, c_out, m_out, _ = evaluate(k, exe, drv, small)
        d2 = d2 or diff
        op = "?"
        for l in c_out.split("\n")[:max(d2[0], 0) + 1][::-1]:
            if l.startswith("> "):
                op = l.split()[1]
                break
        run.violation("correspondence:" + op,
                      "model and implementation differ (the oracle accepts the implementation's output): line %d impl=%r model=%r" % d2,
                      "kind: correspondence\ncase: %s\nscript:\n%s\nfirst differing line %d\nimpl:  %s\nmodel: %s\n--- implementation\n%s\n--- model\n%s\n" % (
                          name, "\n".join(small), d2[0], d2[1], d2[2], c_out, m_out), no_input=True)


def check(run, replay=None):
    t0 = time.time()
    proof = C.prove("C13")
    exe, drv = _tools()
    k = G.K(G.constants(os.path.join(C.COQ, "Gen", "Tables.v")))
    rng = run.rng

    cases = []            # (name, lines)
    if replay:
        txt = open(replay).read()
        if "script:\n" in txt:
            body = txt.split("script:\n", 1)[1].split("\n---", 1)[0].split("\nfirst differing", 1)[0]
            cases.append(("replay", [l for l in body.split("\n") if l.strip()]))
        else:
            cases.append(("replay", [l for l in txt.split("\n") if l.strip() and not l.startswith("#")]))
    else:
        cases += load_corpus()
        # one independent stream per case class (all derived from the run seed), so that adding a
        # class never changes the inputs of the others
        def sub(name):
            return random.Random("C13/%s/%d" % (name, run.seed))
        rng_follow, rng_list, rng_raw, rng_grp = sub("follow"), sub("list"), sub("raw"), sub("groups")
        rng_name = sub("names")
        for i in range(40 if run.tier == "quick" else 800):
            cases.append(("names%d" % i, G.gen_name_case(rng_name, k)))
        for i, ls in enumerate(G.boundary_cases(rng, k)):
            cases.append(("boundary%d" % i, ls))
        for i in range(60 if run.tier == "quick" else 1500):
            cases.append(("follow%d" % i, G.gen_follow_case(rng_follow, k)))
        for i in range(40 if run.tier == "quick" else 800):
            cases.append(("list%d" % i, G.gen_list_case(rng_list, k)))
        nrand = 260 if run.tier == "quick" else 4000
        for i in range(nrand):
            cases.append(("rand%d" % i, G.gen_case(rng, k, i)))
        if WHITEBOX["ok"]:
            raw = G.raw_cases(rng_raw, 150 if run.tier == "quick" else 3000)
            for i in range(0, len(raw), 25):
                cases.append(("raw%d" % (i // 25), raw[i:i + 25]))
            grp = G.group_cases(rng_grp, 200 if run.tier == "quick" else 4000)
            for i in range(0, len(grp), 25):
                cases.append(("groups%d" % (i // 25), grp[i:i + 25]))
    if not WHITEBOX["ok"]:
        # direct calls of static functions are not available in the black-box build
        cases = [(n, ls) for n, ls in cases if not any(l.split()[0] in ("rawrestrict", "groups") for l in ls if l.strip())]
        run.violation("correspondence:whitebox-build",
                      "harness/hwv_distances.c no longer compiles with the current hwloc/distances.c compiled into it (a static function it calls directly changed): the direct-call correspondence of hwloc_internal_distances_restrict / hwloc__find_groups_by_min_distance / hwloc__check_grouping_matrix is broken; the public-API histories below were still run with the black-box build",
                      "kind: correspondence\ncase: white-box build of harness/hwv_distances.c\n" + WHITEBOX["error"], no_input=True)
        run.cov["whitebox"] = False

    # one process pair per batch of cases
    B = 80
    for b0 in range(0, len(cases), B):
        batch = cases[b0:b0 + B]
        script = []
        for i, (name, ls) in enumerate(batch):
            script.append("case %d" % i)
            script += ls
        rc1, c_out, err_c, rc2, m_out, err_m = run_script(exe, drv, script, timeout=300)
        cc, mm = split_cases(c_out), split_cases(m_out)
        viols = {}
        for ci, si, v in G.run_oracle(k, c_out):
            viols.setdefault(ci, v)
        crashed_case = None
        if rc1 != 0:
            crashed_case = max(cc) if cc else 0
        for i, (name, ls) in enumerate(batch):
            tc, tm = cc.get(i), mm.get(i)
            if tc is None:
                # the harness died before this case: run it alone
                v, d, c1, m1, cr = evaluate(k, exe, drv, ls)
                tc, tm = c1, m1
                if v or d or cr:
                    report_case(run, k, exe, drv, name, ls, v, d, cr)
            else:
                v = viols.get(i)
                d = first_diff(tc, tm or "")
                cr = None
                if crashed_case == i:
                    cr = "C harness exit code %d\n%s" % (rc1, err_c[-3000:])
                if v is not None and not cr and _seen(run, v.key):
                    report_case(run, k, exe, drv, name, ls, v, None, None)
                elif v or d or cr:
                    # re-evaluate alone (fresh process) before shrinking
                    v1, d1, c1, m1, cr1 = evaluate(k, exe, drv, ls)
                    report_case(run, k, exe, drv, name, ls, v1 or v, d1 if (v1 or v) is None else None, cr1)
                else:
                    run.cov["traces_validated_against_impl"] += 1
            steps = G.split_steps(tc or "")
            for cmd, res in steps:
                op = cmd.split()[0]
                if op == "case":
                    continue
                rej = any(r.startswith("rc=-1") for r in res)
                run.count(cmd + "\n" + "\n".join(res), nontrivial=True,
                          sample={"case": name, "cmd": cmd, "impl": res[:3]} if op in ("get", "transform") else None,
                          kind=op + (":rejected" if rej else ""))
        if time.time() - t0 > (75 if run.tier == "quick" else 800):
            run.cov["budget_cut"] = "stopped after %d of %d cases" % (b0 + len(batch), len(cases))
            break

    run.cov["cases"] = len(cases)
    run.assumptions.append("fewer than 2^32 hwloc_distances_add_create calls per topology (next_dist_id is modelled unbounded)")
    run.assumptions.append("no topology modification between hwloc_distances_add_values and hwloc_distances_add_commit; structures returned by get are released before the topology changes")
    run.assumptions.append("allocation failures (ENOMEM paths) are not exercised; shared-memory adoption is C19's")
    return run.finish(proof, trusted=[
        "harness/hwv_distances.c includes the current hwloc/distances.c (static functions reached directly); object tables printed by the harness are the topology the model is told about",
        "gen/distances_gen.py Oracle: independent declarative evaluation of the property on the C transcript",
        "grouping: only the partition finder for accuracy 0.0 and the matrix check are modelled; the Groups inserted at commit are outside (C01/C02)"])
